// selftest validates the reference model against algebraic facts and the
// standard vectors before any check relies on it.
package main

import (
	"fmt"
	"os"

	"verif/ref"
)

func main() {
	if err := ref.SelfTestAll(); err != nil {
		fmt.Fprintln(os.Stderr, "reference self-test FAILED:", err)
		os.Exit(1)
	}
	fmt.Println("reference self-test ok")
}
