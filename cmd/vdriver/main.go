// vdriver: builds a property check from /repo's current working tree with the
// verif hooks injected by overlay, runs it (possibly as several shard
// processes and several build configurations), merges the partial results and
// writes the evidence.
package main

import (
	"bytes"
	"encoding/json"
	"fmt"
	"os"
	"os/exec"
	"path/filepath"
	"regexp"
	"sort"
	"strings"
	"sync"
	"time"

	"verif/instr"
	"verif/mc"
)

const verif = "/verif"

// repo is the tree the check is built from: always /repo for the registered commands. VERIF_REPO (development aid,
// used by tools/seedmatrix.py to judge a changed copy of the library in a scratch worktree without touching /repo)
// points the build at another tree through a generated -modfile; VERIF_OUT then receives evidence, replays and work files.
var (
	repo    = "/repo"
	outDir  = verif
	modfile = ""
)

func init() {
	if v := os.Getenv("VERIF_REPO"); v != "" {
		repo = v
		if o := os.Getenv("VERIF_OUT"); o != "" {
			outDir = o
		} else {
			fmt.Fprintln(os.Stderr, "vdriver: VERIF_REPO needs VERIF_OUT")
			os.Exit(2)
		}
		os.MkdirAll(outDir, 0o755)
		gm, err := os.ReadFile(filepath.Join(verif, "go.mod"))
		if err != nil {
			fmt.Fprintln(os.Stderr, "vdriver:", err)
			os.Exit(2)
		}
		gm = bytes.Replace(gm, []byte("=> /repo"), []byte("=> "+repo), 1)
		modfile = filepath.Join(outDir, "alt.mod")
		os.WriteFile(modfile, gm, 0o644)
		gs, _ := os.ReadFile(filepath.Join(verif, "go.sum"))
		os.WriteFile(filepath.Join(outDir, "alt.sum"), gs, 0o644)
	}
}

type run struct {
	Name       string   // label (also VERIF_RUN)
	Tags       []string // extra build tags (verif is always set)
	Race       bool
	Instrument string // "", "trace" or "sched"
	LookupRef  bool   // inject renamed portable lookups (C19)
	Shards     int    // processes (0/1 = one)
	OneCPU     bool   // GOMAXPROCS=1 per process
	Tiers      string // "" both, or "thorough"
	Carry      bool   // overlay carry-instrumented fiat sources (C01, C02); dropped if it does not build
	Aux        string // an auxiliary program (props/<Aux>) built with the same overlay; its path is passed as VERIF_AUX_BIN (optional: skipped if it does not build)
}

var plans = map[string][]run{
	"C17": {
		{Name: "asm", Instrument: "trace"},
		{Name: "purego", Tags: []string{"purego"}, Instrument: "trace"},
	},
	"C19": {
		{Name: "asm", LookupRef: true},
		{Name: "purego", Tags: []string{"purego"}},
	},
	"C20": {
		{Name: "sched", Tags: []string{"verifsched"}, Instrument: "sched", Shards: 16, OneCPU: true},
		{Name: "race", Tags: []string{"verifrace"}, Race: true, Shards: 3},
		{Name: "sched-purego", Tags: []string{"verifsched", "purego"}, Instrument: "sched", Shards: 8, OneCPU: true},
		{Name: "race-purego", Tags: []string{"verifrace", "purego"}, Race: true, Shards: 2},
	},
	"C01": {{Name: "default", Carry: true}},
	"C02": {{Name: "default", Carry: true}},
	"C15": {{Name: "default", Aux: "c15min"}},
	// the variable-base paths use the table lookups that differ between the assembly and the pure-Go build
	"C04": {{Name: "default"}, {Name: "purego", Tags: []string{"purego"}}},
	"C10": {{Name: "default"}, {Name: "purego", Tags: []string{"purego"}}},
	"C16": {{Name: "default"}, {Name: "purego", Tags: []string{"purego"}}},
	"C05": {
		{Name: "asm"},
		{Name: "purego", Tags: []string{"purego"}},
		{Name: "checkptr", Race: true},
	},
}

var hookDirs = map[string]string{
	"root":    "",
	"field":   "internal/field",
	"secec":   "secec",
	"bitcoin": "secec/bitcoin",
	"h2c":     "secec/h2c",
	"swu":     "internal/swu",
}

// libraryCrash inspects the stderr of a check process that died: if it carries a Go fatal error / panic whose first
// non-runtime stack frame of the crashing goroutine lies in the library tree (and not in an injected hook file),
// it returns that frame; otherwise "".
func libraryCrash(stderr string) string {
	i := strings.Index(stderr, "fatal error:")
	if j := strings.Index(stderr, "panic:"); i < 0 || j >= 0 && j < i {
		if j >= 0 {
			i = j
		}
	}
	if k := strings.Index(stderr, "SIGSEGV"); i < 0 && k >= 0 {
		i = k
	}
	if i < 0 {
		return ""
	}
	rest := stderr[i:]
	g := strings.Index(rest, "\ngoroutine ")
	if g < 0 {
		return ""
	}
	for _, l := range strings.Split(rest[g:], "\n")[1:] {
		if strings.HasPrefix(l, "goroutine ") && !strings.Contains(l, "[running") {
			break // next goroutine: the crashing one had no library frame on top
		}
		if !strings.HasPrefix(l, "\t/") {
			continue
		}
		f := strings.TrimSpace(l)
		if strings.Contains(f, "/src/runtime/") || strings.Contains(f, "/src/internal/") || strings.Contains(f, "/src/sync/") || strings.Contains(f, "/src/reflect/") {
			continue
		}
		if strings.HasPrefix(f, repo+"/") && !strings.Contains(f, "zz_verif") {
			return f
		}
		return "" // first user frame is harness code
	}
	return ""
}

func fatal(f string, a ...any) {
	fmt.Fprintf(os.Stderr, "vdriver: "+f+"\n", a...)
	os.Exit(2)
}

func goEnv() []string {
	env := os.Environ()
	env = append(env, "GOFLAGS=-mod=mod", "GOPROXY=off", "GOSUMDB=off", "GOTOOLCHAIN=local")
	return env
}

func hookOverlay(skip map[string]bool) map[string]string {
	ov := map[string]string{}
	for d, rel := range hookDirs {
		ents, _ := os.ReadDir(filepath.Join(verif, "hooks", d))
		for _, e := range ents {
			if !strings.HasSuffix(e.Name(), ".go") || skip[e.Name()] {
				continue
			}
			ov[filepath.Join(repo, rel, e.Name())] = filepath.Join(verif, "hooks", d, e.Name())
		}
	}
	return ov
}

var optRe = regexp.MustCompile(`zz_verif_opt_[a-z0-9_]+\.go`)

// build compiles props/<id> for one run; optional hook files that do not
// compile against the current tree are dropped one by one.
func build(id string, r run, work string) (bin string, skipped []string) {
	skip := map[string]bool{}
	bin = filepath.Join(work, r.Name+".bin")
	for attempt := 0; attempt < 40; attempt++ {
		ov := hookOverlay(skip)
		if r.Instrument != "" {
			dir := filepath.Join(work, "instr-"+r.Name)
			os.RemoveAll(dir)
			instr.RewriteLocks = !skip["lock-rewriting"]
			files, err := instr.Instrument(repo, dir, r.Instrument, filepath.Join(verif, "instr", "verifrt"))
			if err != nil {
				fatal("instrumenter: %v", err)
			}
			for k, v := range files {
				ov[k] = v
			}
		}
		carryOn := false
		if r.Carry && !skip["carry-instrumentation"] {
			files, err := instr.InstrumentCarries(repo, filepath.Join(work, "instr-carry-"+r.Name))
			if err != nil {
				fmt.Fprintf(os.Stderr, "vdriver: carry instrumentation not applicable to the current tree (%v); dropped\n", err)
				skip["carry-instrumentation"] = true
			} else {
				carryOn = true
				for k, v := range files {
					ov[k] = v
				}
			}
		}
		if !carryOn { // the accessor of the carry counters only exists with the instrumented fiat sources
			delete(ov, filepath.Join(repo, "zz_verif_opt_carry.go"))
		}
		if r.LookupRef {
			dst := filepath.Join(work, "zz_verif_gen_lookupref.go")
			if err := instr.GenLookupRef(filepath.Join(repo, "point_mul_table_ref.go"), dst); err != nil {
				fmt.Fprintf(os.Stderr, "vdriver: cannot derive portable lookup copy: %v\n", err)
				skipped = append(skipped, "lookupref")
			} else {
				ov[filepath.Join(repo, "zz_verif_gen_lookupref.go")] = dst
			}
		}
		js, _ := json.MarshalIndent(map[string]any{"Replace": ov}, "", " ")
		ovPath := filepath.Join(work, r.Name+".overlay.json")
		os.WriteFile(ovPath, js, 0o644)
		tags := append([]string{"verif"}, r.Tags...)
		args := []string{"build", "-tags", strings.Join(tags, ","), "-overlay", ovPath, "-o", bin}
		if modfile != "" {
			args = append(args, "-modfile", modfile)
		}
		if os.Getenv("VERIF_COVER") != "" { // development aid: statement coverage of the library by a check (GOCOVERDIR must be set)
			args = append(args, "-cover", "-coverpkg=gitlab.com/yawning/secp256k1-voi/...")
		}
		if r.Race {
			args = append(args, "-race")
		}
		args = append(args, "./props/"+strings.ToLower(id))
		cmd := exec.Command("go", args...)
		cmd.Dir = verif
		cmd.Env = goEnv()
		var out bytes.Buffer
		cmd.Stdout, cmd.Stderr = &out, &out
		if err := cmd.Run(); err == nil {
			for k := range skip {
				skipped = append(skipped, k)
			}
			if r.Aux != "" {
				aargs := append(append([]string{}, args[:len(args)-1]...), "./props/"+r.Aux)
				for i := range aargs {
					if aargs[i] == "-o" {
						aargs[i+1] = filepath.Join(work, r.Name+"."+r.Aux+".bin")
					}
				}
				acmd := exec.Command("go", aargs...)
				acmd.Dir = verif
				acmd.Env = goEnv()
				if aout, aerr := acmd.CombinedOutput(); aerr != nil {
					fmt.Fprintf(os.Stderr, "vdriver: auxiliary program %s does not build against the current tree; skipped\n%s\n", r.Aux, aout)
					skipped = append(skipped, "aux:"+r.Aux)
				}
			}
			sort.Strings(skipped)
			return bin, skipped
		}
		// find an optional hook file named in the errors and drop it
		dropped := false
		for _, m := range optRe.FindAllString(out.String(), -1) {
			if !skip[m] {
				skip[m] = true
				dropped = true
				fmt.Fprintf(os.Stderr, "vdriver: optional hook %s does not compile against the current tree; dropped\n", m)
				break
			}
		}
		if !dropped && r.Carry && !skip["carry-instrumentation"] {
			skip["carry-instrumentation"] = true
			dropped = true
			fmt.Fprintln(os.Stderr, "vdriver: the carry-instrumented fiat sources do not build against the current tree; dropped")
		}
		if !dropped && r.Instrument == "sched" && !skip["lock-rewriting"] && strings.Contains(out.String(), "TryLock") || !dropped && r.Instrument == "sched" && !skip["lock-rewriting"] && strings.Contains(out.String(), "TryRLock") {
			skip["lock-rewriting"] = true
			dropped = true
			fmt.Fprintln(os.Stderr, "vdriver: the Lock -> TryLock rewriting of the scheduler build does not compile against the current tree; dropped")
		}
		if !dropped {
			fmt.Fprintln(os.Stderr, out.String())
			fatal("build failed for %s/%s", id, r.Name)
		}
	}
	fatal("build failed for %s/%s after dropping optional hooks", id, r.Name)
	return
}

func main() {
	if len(os.Args) < 3 {
		fatal("usage: check <ID> <quick|thorough> | check <ID> --replay <file>")
	}
	id := strings.ToUpper(os.Args[1])
	mode := os.Args[2]
	replay := ""
	tier := "quick"
	switch mode {
	case "quick", "thorough":
		tier = mode
	case "--replay":
		if len(os.Args) < 4 {
			fatal("--replay needs a file")
		}
		replay, _ = filepath.Abs(os.Args[3])
	default:
		fatal("unknown mode %q", mode)
	}
	if env := os.Getenv("VERIF_TIER"); env != "" && replay == "" && mode == "" {
		tier = env
	}
	if _, err := os.Stat(filepath.Join(verif, "props", strings.ToLower(id))); err != nil {
		fatal("no such property check: %s", id)
	}
	work := filepath.Join(outDir, ".work", id+"-"+tier)
	os.RemoveAll(work)
	if err := os.MkdirAll(work, 0o755); err != nil {
		fatal("%v", err)
	}
	seed := os.Getenv("VERIF_SEED")
	if seed == "" {
		seed = "0"
	}
	runs := plans[id]
	if runs == nil {
		runs = []run{{Name: "default"}}
	}
	start := time.Now()

	// build all configurations in parallel
	type built struct {
		bin     string
		skipped []string
	}
	bs := make([]built, len(runs))
	var wg sync.WaitGroup
	for i := range runs {
		if runs[i].Tiers != "" && runs[i].Tiers != tier {
			continue
		}
		wg.Add(1)
		go func(i int) {
			defer wg.Done()
			b, s := build(id, runs[i], work)
			bs[i] = built{b, s}
		}(i)
	}
	wg.Wait()
	fmt.Fprintf(os.Stderr, "vdriver: %s built %d configuration(s) in %.1fs\n", id, len(runs), time.Since(start).Seconds())

	var partials []mc.Partial
	var pmu sync.Mutex
	infra := false
	var allRuns sync.WaitGroup
	for i, r := range runs {
		if bs[i].bin == "" {
			continue
		}
		i, r := i, r
		allRuns.Add(1)
		go func() {
			defer allRuns.Done()
			n := r.Shards
			if n < 1 {
				n = 1
			}
			var rw sync.WaitGroup
			for s := 0; s < n; s++ {
				rw.Add(1)
				go func(s int) {
					defer rw.Done()
					ppath := filepath.Join(work, fmt.Sprintf("%s-%d.partial.json", r.Name, s))
					var cmd *exec.Cmd
					if replay != "" {
						cmd = exec.Command(bs[i].bin, "-replay", replay)
					} else {
						cmd = exec.Command(bs[i].bin)
					}
					cmd.Dir = verif
					env := append(os.Environ(),
						"VERIF_TIER="+tier, "VERIF_SEED="+seed, "VERIF_PARTIAL="+ppath,
						fmt.Sprintf("VERIF_SHARD=%d/%d", s, n), "VERIF_RUN="+r.Name,
						"VERIF_SKIPPED_HOOKS="+strings.Join(bs[i].skipped, ","),
						"VERIF_AUX_BIN="+filepath.Join(work, r.Name+"."+r.Aux+".bin"),
						"VERIF_WORK="+work,
					)
					if r.OneCPU {
						env = append(env, "GOMAXPROCS=1")
					}
					if r.Race {
						env = append(env, "GORACE=halt_on_error=0 exitcode=0 log_path="+filepath.Join(work, "race.log"))
					}
					cmd.Env = env
					var errb bytes.Buffer
					cmd.Stdout = os.Stderr
					cmd.Stderr = &errb
					err := cmd.Run()
					if replay != "" {
						os.Stderr.Write(errb.Bytes())
						return
					}
					b, rerr := os.ReadFile(ppath)
					if err != nil || rerr != nil {
						tail := errb.String()
						if len(tail) > 6000 {
							tail = tail[len(tail)-6000:]
						}
						fmt.Fprintf(os.Stderr, "vdriver: %s/%s shard %d did not complete (%v)\n%s\n", id, r.Name, s, err, tail)
						pmu.Lock()
						if where := libraryCrash(errb.String()); where != "" {
							// the check process was killed by a fatal error / unrecovered panic raised in LIBRARY code
							// (runtime-detected misuse of unsafe, concurrent map access, a fault in assembly, ...): that is a
							// verdict about the library, not a failure of the machinery
							ex := errb.String()
							if i := strings.Index(ex, "fatal error:"); i >= 0 {
								ex = ex[i:]
							} else if i := strings.Index(ex, "panic:"); i >= 0 {
								ex = ex[i:]
							}
							if len(ex) > 2500 {
								ex = ex[:2500]
							}
							partials = append(partials, mc.Partial{ID: id, Tier: tier, Configs: []string{r.Name + " (process crashed)"}, Classes: map[string]int64{}, Bounds: map[string]any{},
								Violations: []mc.Violation{{Property: id, Key: "process crash in library code/" + r.Name, Kind: "crash",
									Detail: map[string]any{"configuration": r.Name, "shard": s, "first_library_frame": where, "stderr_excerpt": ex, "what": "the check process was killed by a fatal error or unrecovered panic raised in library code"}}}})
						} else {
							infra = true
						}
						pmu.Unlock()
						return
					}
					if errb.Len() > 0 {
						t := errb.String()
						if len(t) > 3000 {
							t = t[len(t)-3000:]
						}
						os.Stderr.WriteString(t)
					}
					var p mc.Partial
					if json.Unmarshal(b, &p) != nil {
						pmu.Lock()
						infra = true
						pmu.Unlock()
						return
					}
					pmu.Lock()
					partials = append(partials, p)
					pmu.Unlock()
				}(s)
			}
			rw.Wait()
		}()
	}
	allRuns.Wait()
	if replay != "" {
		return
	}
	if infra {
		fatal("infrastructure failure; no verdict")
	}
	// deterministic order
	sort.SliceStable(partials, func(a, b int) bool {
		return fmt.Sprint(partials[a].Configs, partials[a].Bounds["shard"]) < fmt.Sprint(partials[b].Configs, partials[b].Bounds["shard"])
	})
	for i := range partials {
		partials[i].WallS = time.Since(start).Seconds()
	}
	os.Exit(mc.Finalize(partials))
}
