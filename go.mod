module verif

go 1.20

require gitlab.com/yawning/secp256k1-voi v0.0.0

replace gitlab.com/yawning/secp256k1-voi => /repo
