//go:build verif

package bitcoin

import "gitlab.com/yawning/secp256k1-voi"

var (
	VerifSignSchnorr       func(aux *[32]byte, sk *SchnorrPrivateKey, msg []byte) ([]byte, error)
	VerifVerifySchnorrSelf func(d *secp256k1.Scalar, pkXBytes, msg, sig []byte) bool
)

// VerifSchnorrPrivInternals exposes (dPrime, d, publicKey); core: field access only.
func VerifSchnorrPrivInternals(k *SchnorrPrivateKey) (*secp256k1.Scalar, *secp256k1.Scalar, *SchnorrPublicKey) {
	return k.dPrime, k.d, k.publicKey
}
func VerifSchnorrPubInternals(k *SchnorrPublicKey) (*secp256k1.Point, []byte) {
	return k.point, k.xBytes
}
