//go:build verif

package bitcoin

import "gitlab.com/yawning/secp256k1-voi"

// All hooks of this package are optional (see zz_verif_opt_*.go).
var (
	VerifSignSchnorr       func(aux *[32]byte, sk *SchnorrPrivateKey, msg []byte) ([]byte, error)
	VerifVerifySchnorrSelf func(d *secp256k1.Scalar, pkXBytes, msg, sig []byte) bool

	// Field access (layout dependent): (dPrime, d, publicKey) and (point, xBytes).
	VerifSchnorrPrivInternals func(k *SchnorrPrivateKey) (*secp256k1.Scalar, *secp256k1.Scalar, *SchnorrPublicKey)
	VerifSchnorrPubInternals  func(k *SchnorrPublicKey) (*secp256k1.Point, []byte)
)
