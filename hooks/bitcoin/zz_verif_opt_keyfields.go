//go:build verif

package bitcoin

import "gitlab.com/yawning/secp256k1-voi"

func init() {
	VerifSchnorrPrivInternals = func(k *SchnorrPrivateKey) (*secp256k1.Scalar, *secp256k1.Scalar, *SchnorrPublicKey) {
		return k.dPrime, k.d, k.publicKey
	}
	VerifSchnorrPubInternals = func(k *SchnorrPublicKey) (*secp256k1.Point, []byte) { return k.point, k.xBytes }
}
