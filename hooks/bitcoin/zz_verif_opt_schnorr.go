//go:build verif

package bitcoin

func init() {
	VerifSignSchnorr = func(aux *[32]byte, sk *SchnorrPrivateKey, msg []byte) ([]byte, error) {
		return signSchnorr(aux, sk, msg)
	}
}
