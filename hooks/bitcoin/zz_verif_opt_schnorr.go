//go:build verif

package bitcoin

import "gitlab.com/yawning/secp256k1-voi"

func init() {
	VerifSignSchnorr = func(aux *[32]byte, sk *SchnorrPrivateKey, msg []byte) ([]byte, error) {
		return signSchnorr(aux, sk, msg)
	}
	VerifVerifySchnorrSelf = func(d *secp256k1.Scalar, pkXBytes, msg, sig []byte) bool {
		return verifySchnorrSelf(d, pkXBytes, msg, sig)
	}
}
