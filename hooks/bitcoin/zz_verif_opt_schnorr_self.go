//go:build verif

package bitcoin

import "gitlab.com/yawning/secp256k1-voi"

func init() {
	VerifVerifySchnorrSelf = func(d *secp256k1.Scalar, pkXBytes, msg, sig []byte) bool {
		return verifySchnorrSelf(d, pkXBytes, msg, sig)
	}
}
