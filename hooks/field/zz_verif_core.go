//go:build verif

package field

import fiat "gitlab.com/yawning/secp256k1-voi/internal/fiat/secp256k1montgomery"

// Core hooks: struct-field access only.

// VerifLimbs returns the stored (Montgomery domain) limbs of e.
func VerifLimbs(e *Element) [4]uint64 { return [4]uint64(e.m) }

// VerifSetLimbs stores raw (Montgomery domain) limbs into e, unchecked.
func VerifSetLimbs(e *Element, l [4]uint64) { e.m = fiat.MontgomeryDomainFieldElement(l) }

// Optional hooks, assigned by zz_verif_opt_*.go when those compile.
var (
	VerifPow3mod4        func(z, x *Element) *Element
	VerifSetShortBytes   func(z *Element, src []byte) *Element
	VerifReduceSaturated func(dst, src *[4]uint64) uint64
)
