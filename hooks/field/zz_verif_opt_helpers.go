//go:build verif

package field

func init() {
	VerifPow3mod4 = func(z, x *Element) *Element { return z.pow3mod4(x) }
	VerifSetShortBytes = func(z *Element, src []byte) *Element { return z.setShortBytes(src) }
	VerifReduceSaturated = func(dst, src *[4]uint64) uint64 { return reduceSaturated(dst, src) }
}
