//go:build verif

package field

func init() {
	VerifPow3mod4 = func(z, x *Element) *Element { return z.pow3mod4(x) }
}
