//go:build verif

package field

func init() {
	VerifReduceSaturated = func(dst, src *[4]uint64) uint64 { return reduceSaturated(dst, src) }
}
