//go:build verif

package field

func init() {
	VerifSetShortBytes = func(z *Element, src []byte) *Element { return z.setShortBytes(src) }
}
