//go:build verif

package h2c

var VerifExpandMessageXMD func(out []byte, dst, msg []byte) error
