//go:build verif

package h2c

import "crypto"

func init() {
	VerifExpandMessageXMD = func(out []byte, dst, msg []byte) error {
		return expandMessageXMD(out, crypto.SHA256, dst, msg)
	}
}
