//go:build verif

package secp256k1

import (
	"unsafe"

	"gitlab.com/yawning/secp256k1-voi/internal/field"
)

// VerifFE makes the internal field element type usable from the harness module.
type VerifFE = field.Element

// ---- core hooks: struct-field access only ----

// VerifPointXYZ exposes the projective coordinates and the validity flag.
func VerifPointXYZ(p *Point) (x, y, z *VerifFE, valid bool) { return &p.x, &p.y, &p.z, p.isValid }

// VerifPointSetXYZ is the unchecked projective constructor.
func VerifPointSetXYZ(p *Point, x, y, z *VerifFE, valid bool) *Point {
	p.x.Set(x)
	p.y.Set(y)
	p.z.Set(z)
	p.isValid = valid
	return p
}

func VerifScalarLimbs(s *Scalar) [4]uint64       { return [4]uint64(s.m) }
func VerifScalarSetLimbs(s *Scalar, l [4]uint64) { copy(s.m[:], l[:]) }
func VerifFELimbs(e *VerifFE) [4]uint64          { return field.VerifLimbs(e) }
func VerifFESetLimbs(e *VerifFE, l [4]uint64)    { field.VerifSetLimbs(e, l) }

// Exported API of internal/field, re-exported (the harness cannot import internal/...).
func VerifFENewFromUint64(v uint64) *VerifFE { return field.NewElementFromUint64(v) }
func VerifFENewFromCanonicalBytes(b *[32]byte) (*VerifFE, error) {
	return field.NewElementFromCanonicalBytes(b)
}
func VerifFEBytesAreCanonical(b *[32]byte) bool { return field.BytesAreCanonical(b) }

func VerifFieldPow3mod4() func(z, x *VerifFE) *VerifFE             { return field.VerifPow3mod4 }
func VerifFieldSetShortBytes() func(z *VerifFE, b []byte) *VerifFE { return field.VerifSetShortBytes }
func VerifFieldReduceSaturated() func(dst, src *[4]uint64) uint64 {
	return field.VerifReduceSaturated
}

// ---- optional hooks (assigned in zz_verif_opt_*.go when those compile) ----
var (
	VerifAddComplete    func(v, p, q *Point) *Point
	VerifAddMixed       func(v, p *Point, x2, y2 *VerifFE) *Point
	VerifDoubleComplete func(v, p *Point) *Point
	VerifRescale        func(v, p *Point) *Point

	VerifSplitGLV              func(s *Scalar) (*Scalar, *Scalar)
	VerifMulGFlooredDiv        func(k, g *Scalar) *Scalar
	VerifScalarMultVartimeGLV  func(v *Point, s *Scalar, p *Point) *Point
	VerifScalarBaseMultVartime func(v *Point, s *Scalar) *Point
	VerifGLVConsts             func() (negLambda, negB1, negB2, g1, g2 *Scalar, beta *VerifFE)

	// Table entries: (i,j) -> affine x,y of generatorHugeAffineTable[i][j] / generatorOddAffineTable[i][j].
	VerifHugeTableEntry func(i, j int) (x, y *VerifFE)
	VerifOddTableEntry  func(i, j int) (x, y *VerifFE)
	VerifTableBytesNil  func() bool

	VerifScalarPow2k           func(s, a *Scalar, k uint) *Scalar
	VerifHalfNSat              func() [4]uint64
	VerifScalarReduceSaturated func(dst, src *[4]uint64) uint64

	// Lookups on caller-built tables, run inside a canary-guarded destination.
	// Projective: tbl[i] = {x,y,z} limbs (stored form), pre = prefill of out (x,y,z limbs, isValid).
	VerifLookupProjective func(tbl *[15][3][4]uint64, pre [3][4]uint64, preValid bool, idx uint64) (out [3][4]uint64, valid bool, canaryOK bool)
	VerifLookupAffine     func(tbl *[15][2][4]uint64, pre [2][4]uint64, idx uint64) (out [2][4]uint64, canaryOK bool)
	// The same on the renamed portable copies (only present in the C19 build).
	VerifLookupProjectiveRef func(tbl *[15][3][4]uint64, pre [3][4]uint64, preValid bool, idx uint64) (out [3][4]uint64, valid bool, canaryOK bool)
	VerifLookupAffineRef     func(tbl *[15][2][4]uint64, pre [2][4]uint64, idx uint64) (out [2][4]uint64, canaryOK bool)
	VerifLayout              func() (sizeofPoint, offX, offY, offZ, offValid, sizeofAffine uintptr)
	VerifLookupAffineAt      func(tbl unsafe.Pointer, idx uint64) (out [2][4]uint64)
	VerifLookupProjectiveAt  func(tbl unsafe.Pointer, idx uint64) (out [3][4]uint64)

	VerifSWU    func(u *VerifFE) (x, y *VerifFE)
	VerifIsoMap func(x, y *VerifFE) (*VerifFE, *VerifFE, uint64)
)

// VerifCarryCoverage (optional; needs the carry-instrumented fiat overlay): per carry / borrow / select site of the
// field (scalar=false) or scalar (scalar=true) fiat package, whether it was observed clear and observed set.
var VerifCarryCoverage func(scalar bool) (sites []string, seen [][2]bool)
