//go:build verif

package secp256k1

import (
	fiatfield "gitlab.com/yawning/secp256k1-voi/internal/fiat/secp256k1montgomery"
	fiatscalar "gitlab.com/yawning/secp256k1-voi/internal/fiat/secp256k1montgomeryscalar"
)

// Only compiles when the driver has overlaid the carry-instrumented fiat sources (instr.InstrumentCarries).
func init() {
	VerifCarryCoverage = func(scalar bool) (sites []string, seen [][2]bool) {
		if scalar {
			for i := range fiatscalar.VerifCarrySeen {
				seen = append(seen, [2]bool{fiatscalar.VerifCarrySeen[i][0] != 0, fiatscalar.VerifCarrySeen[i][1] != 0})
			}
			return fiatscalar.VerifCarrySites, seen
		}
		for i := range fiatfield.VerifCarrySeen {
			seen = append(seen, [2]bool{fiatfield.VerifCarrySeen[i][0] != 0, fiatfield.VerifCarrySeen[i][1] != 0})
		}
		return fiatfield.VerifCarrySites, seen
	}
}
