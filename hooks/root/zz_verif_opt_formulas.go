//go:build verif

package secp256k1

func init() {
	VerifAddComplete = func(v, p, q *Point) *Point { return v.addComplete(p, q) }
	VerifAddMixed = func(v, p *Point, x2, y2 *VerifFE) *Point { return v.addMixed(p, x2, y2) }
	VerifDoubleComplete = func(v, p *Point) *Point { return v.doubleComplete(p) }
	VerifRescale = func(v, p *Point) *Point { return v.rescale(p) }
}
