//go:build verif

package secp256k1

func init() {
	VerifAddComplete = func(v, p, q *Point) *Point { return v.addComplete(p, q) }
}
