//go:build verif

package secp256k1

func init() {
	VerifDoubleComplete = func(v, p *Point) *Point { return v.doubleComplete(p) }
}
