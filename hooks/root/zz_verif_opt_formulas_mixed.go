//go:build verif

package secp256k1

func init() {
	VerifAddMixed = func(v, p *Point, x2, y2 *VerifFE) *Point { return v.addMixed(p, x2, y2) }
}
