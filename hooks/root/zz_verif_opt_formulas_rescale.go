//go:build verif

package secp256k1

func init() {
	VerifRescale = func(v, p *Point) *Point { return v.rescale(p) }
}
