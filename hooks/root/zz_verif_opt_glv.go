//go:build verif

package secp256k1

func init() {
	VerifSplitGLV = func(s *Scalar) (*Scalar, *Scalar) { return s.splitGLV() }
	VerifMulGFlooredDiv = func(k, g *Scalar) *Scalar { return NewScalar().mulGFlooredDiv(k, g) }
	VerifScalarMultVartimeGLV = func(v *Point, s *Scalar, p *Point) *Point { return v.scalarMultVartimeGLV(s, p) }
	VerifGLVConsts = func() (*Scalar, *Scalar, *Scalar, *Scalar, *Scalar, *VerifFE) {
		return scNegLambda, scNegB1, scNegB2, scG1, scG2, feBeta
	}
}
