//go:build verif

package secp256k1

func init() {
	VerifSplitGLV = func(s *Scalar) (*Scalar, *Scalar) { return s.splitGLV() }
}
