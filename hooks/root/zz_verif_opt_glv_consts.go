//go:build verif

package secp256k1

func init() {
	VerifGLVConsts = func() (*Scalar, *Scalar, *Scalar, *Scalar, *Scalar, *VerifFE) {
		return scNegLambda, scNegB1, scNegB2, scG1, scG2, feBeta
	}
}
