//go:build verif

package secp256k1

func init() {
	VerifMulGFlooredDiv = func(k, g *Scalar) *Scalar { return NewScalar().mulGFlooredDiv(k, g) }
}
