//go:build verif

package secp256k1

func init() {
	VerifScalarMultVartimeGLV = func(v *Point, s *Scalar, p *Point) *Point { return v.scalarMultVartimeGLV(s, p) }
}
