//go:build verif

package secp256k1

import (
	"unsafe"

	"gitlab.com/yawning/secp256k1-voi/internal/field"
)

const verifCanary = 0xa5

type verifGuardP struct {
	pre  [64]byte
	pt   Point
	post [64]byte
}

type verifGuardA struct {
	pre  [64]byte
	ap   affinePoint
	post [64]byte
}

func verifFill(b []byte) {
	for i := range b {
		b[i] = verifCanary
	}
}

func verifIntact(b []byte) bool {
	for _, v := range b {
		if v != verifCanary {
			return false
		}
	}
	return true
}

func verifLookupP(fn func(*projectivePointMultTable, *Point, uint64)) func(tbl *[15][3][4]uint64, pre [3][4]uint64, preValid bool, idx uint64) ([3][4]uint64, bool, bool) {
	return func(tbl *[15][3][4]uint64, pre [3][4]uint64, preValid bool, idx uint64) (out [3][4]uint64, valid bool, ok bool) {
		var t projectivePointMultTable
		for i := range t {
			field.VerifSetLimbs(&t[i].x, tbl[i][0])
			field.VerifSetLimbs(&t[i].y, tbl[i][1])
			field.VerifSetLimbs(&t[i].z, tbl[i][2])
			t[i].isValid = true
		}
		g := new(verifGuardP)
		verifFill(g.pre[:])
		verifFill(g.post[:])
		// Fill the whole destination struct (padding included) with the canary first.
		raw := unsafe.Slice((*byte)(unsafe.Pointer(&g.pt)), unsafe.Sizeof(g.pt))
		verifFill(raw)
		field.VerifSetLimbs(&g.pt.x, pre[0])
		field.VerifSetLimbs(&g.pt.y, pre[1])
		field.VerifSetLimbs(&g.pt.z, pre[2])
		g.pt.isValid = preValid
		tail := append([]byte{}, raw[unsafe.Offsetof(g.pt.isValid)+1:]...)
		fn(&t, &g.pt, idx)
		out[0], out[1], out[2] = field.VerifLimbs(&g.pt.x), field.VerifLimbs(&g.pt.y), field.VerifLimbs(&g.pt.z)
		ok = verifIntact(g.pre[:]) && verifIntact(g.post[:]) && string(tail) == string(raw[unsafe.Offsetof(g.pt.isValid)+1:])
		// the table must be read-only
		for i := range t {
			if field.VerifLimbs(&t[i].x) != tbl[i][0] || field.VerifLimbs(&t[i].y) != tbl[i][1] || field.VerifLimbs(&t[i].z) != tbl[i][2] || !t[i].isValid {
				ok = false
			}
		}
		return out, g.pt.isValid, ok
	}
}

func verifLookupA(fn func(*affinePointMultTable, *affinePoint, uint64)) func(tbl *[15][2][4]uint64, pre [2][4]uint64, idx uint64) ([2][4]uint64, bool) {
	return func(tbl *[15][2][4]uint64, pre [2][4]uint64, idx uint64) (out [2][4]uint64, ok bool) {
		var t affinePointMultTable
		for i := range t {
			field.VerifSetLimbs(&t[i].x, tbl[i][0])
			field.VerifSetLimbs(&t[i].y, tbl[i][1])
		}
		g := new(verifGuardA)
		verifFill(g.pre[:])
		verifFill(g.post[:])
		field.VerifSetLimbs(&g.ap.x, pre[0])
		field.VerifSetLimbs(&g.ap.y, pre[1])
		fn(&t, &g.ap, idx)
		out[0], out[1] = field.VerifLimbs(&g.ap.x), field.VerifLimbs(&g.ap.y)
		ok = verifIntact(g.pre[:]) && verifIntact(g.post[:])
		for i := range t {
			if field.VerifLimbs(&t[i].x) != tbl[i][0] || field.VerifLimbs(&t[i].y) != tbl[i][1] {
				ok = false
			}
		}
		return out, ok
	}
}

func init() {
	VerifLookupProjective = verifLookupP(lookupProjectivePoint)
	VerifLookupAffine = verifLookupA(lookupAffinePoint)
	VerifLayout = func() (uintptr, uintptr, uintptr, uintptr, uintptr, uintptr) {
		var p Point
		return unsafe.Sizeof(p), unsafe.Offsetof(p.x), unsafe.Offsetof(p.y), unsafe.Offsetof(p.z), unsafe.Offsetof(p.isValid), unsafe.Sizeof(affinePoint{})
	}
}

// Lookups on a table placed at a caller-chosen ADDRESS (memory the harness manages itself: chosen
// alignment, or entries lying in an inaccessible page to probe which entries a lookup reads).
func init() {
	VerifLookupAffineAt = func(tbl unsafe.Pointer, idx uint64) (out [2][4]uint64) {
		var ap affinePoint
		lookupAffinePoint((*affinePointMultTable)(tbl), &ap, idx)
		return [2][4]uint64{field.VerifLimbs(&ap.x), field.VerifLimbs(&ap.y)}
	}
	VerifLookupProjectiveAt = func(tbl unsafe.Pointer, idx uint64) (out [3][4]uint64) {
		var p Point
		lookupProjectivePoint((*projectivePointMultTable)(tbl), &p, idx)
		return [3][4]uint64{field.VerifLimbs(&p.x), field.VerifLimbs(&p.y), field.VerifLimbs(&p.z)}
	}
}
