//go:build verif

package secp256k1

func init() {
	VerifScalarPow2k = func(s, a *Scalar, k uint) *Scalar { return s.pow2k(a, k) }
	VerifHalfNSat = func() [4]uint64 { return halfNSat }
}

func init() {
	VerifScalarReduceSaturated = func(dst, src *[4]uint64) uint64 { return reduceSaturated(dst, src) }
}
