//go:build verif

package secp256k1

func init() {
	VerifScalarPow2k = func(s, a *Scalar, k uint) *Scalar { return s.pow2k(a, k) }
}
