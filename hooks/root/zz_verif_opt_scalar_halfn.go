//go:build verif

package secp256k1

func init() {
	VerifHalfNSat = func() [4]uint64 { return halfNSat }
}
