//go:build verif

package secp256k1

func init() {
	VerifScalarReduceSaturated = func(dst, src *[4]uint64) uint64 { return reduceSaturated(dst, src) }
}
