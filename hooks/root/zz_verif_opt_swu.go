//go:build verif

package secp256k1

import "gitlab.com/yawning/secp256k1-voi/internal/swu"

func init() {
	VerifSWU = func(u *VerifFE) (*VerifFE, *VerifFE) { return swu.MapToCurveSimpleSWU(u) }
	VerifIsoMap = func(x, y *VerifFE) (*VerifFE, *VerifFE, uint64) { return swu.IsoMap(x, y) }
}
