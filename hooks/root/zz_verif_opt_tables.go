//go:build verif

package secp256k1

func init() {
	VerifHugeTableEntry = func(i, j int) (*VerifFE, *VerifFE) {
		e := &generatorHugeAffineTable[i][j]
		return &e.x, &e.y
	}
	VerifOddTableEntry = func(i, j int) (*VerifFE, *VerifFE) {
		e := &generatorOddAffineTable[i][j]
		return &e.x, &e.y
	}
}
