//go:build verif

package secp256k1

func init() {
	VerifScalarBaseMultVartime = func(v *Point, s *Scalar) *Point { return v.scalarBaseMultVartime(s) }
	VerifHugeTableEntry = func(i, j int) (*VerifFE, *VerifFE) {
		e := &generatorHugeAffineTable[i][j]
		return &e.x, &e.y
	}
	VerifOddTableEntry = func(i, j int) (*VerifFE, *VerifFE) {
		e := &generatorOddAffineTable[i][j]
		return &e.x, &e.y
	}
	VerifTableBytesNil = func() bool { return generatorHugeAffineTableBytes == nil }
}
