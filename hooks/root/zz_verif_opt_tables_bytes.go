//go:build verif

package secp256k1

func init() {
	VerifTableBytesNil = func() bool { return generatorHugeAffineTableBytes == nil }
}
