//go:build verif

package secp256k1

func init() {
	VerifScalarBaseMultVartime = func(v *Point, s *Scalar) *Point { return v.scalarBaseMultVartime(s) }
}
