//go:build verif

package secec

import (
	"io"

	"gitlab.com/yawning/secp256k1-voi"
)

// Optional hooks (assigned in zz_verif_opt_*.go when those compile).
var (
	VerifSampleRandomScalar func(rd io.Reader) (*secp256k1.Scalar, error)
	VerifNewDrbgRFC6979     func(x, e *secp256k1.Scalar) io.Reader
	// VerifVerifyPriv is the SEC 1 4.1.5 "alternative" verification with the private key.
	VerifVerifyPriv   func(d *PrivateKey, digest []byte, r, s *secp256k1.Scalar) error
	VerifMaxResamples func() int
	VerifMitigate     func(rd io.Reader, k *PrivateKey, e *secp256k1.Scalar) (io.Reader, error)
)

// VerifKeyInternals exposes the fields of the key objects (core: field access only).
func VerifPrivInternals(k *PrivateKey) (*secp256k1.Scalar, *PublicKey) { return k.scalar, k.publicKey }
func VerifPubInternals(k *PublicKey) (*secp256k1.Point, []byte)        { return k.point, k.pointBytes }
