//go:build verif

package secec

import (
	"io"

	"gitlab.com/yawning/secp256k1-voi"
)

// All hooks of this package are optional (assigned in zz_verif_opt_*.go when those compile against the
// current tree); a check that needs a missing hook records it under skipped_hooks and carries on.
var (
	VerifSampleRandomScalar func(rd io.Reader) (*secp256k1.Scalar, error)
	VerifNewDrbgRFC6979     func(x, e *secp256k1.Scalar) io.Reader
	// VerifVerifyPriv is the SEC 1 4.1.5 "alternative" verification with the private key.
	VerifVerifyPriv   func(d *PrivateKey, digest []byte, r, s *secp256k1.Scalar) error
	VerifMaxResamples func() int
	VerifMitigate     func(rd io.Reader, k *PrivateKey, e *secp256k1.Scalar) (io.Reader, error)

	// Field access to the key objects (layout dependent, hence optional).
	VerifPrivInternals func(k *PrivateKey) (*secp256k1.Scalar, *PublicKey)
	VerifPubInternals  func(k *PublicKey) (*secp256k1.Point, []byte)
)
