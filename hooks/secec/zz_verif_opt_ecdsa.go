//go:build verif

package secec

import (
	"io"

	"gitlab.com/yawning/secp256k1-voi"
)

func init() {
	VerifSampleRandomScalar = func(rd io.Reader) (*secp256k1.Scalar, error) { return sampleRandomScalar(rd) }
}
