//go:build verif

package secec

import (
	"io"

	"gitlab.com/yawning/secp256k1-voi"
)

func init() {
	VerifSampleRandomScalar = func(rd io.Reader) (*secp256k1.Scalar, error) { return sampleRandomScalar(rd) }
	VerifNewDrbgRFC6979 = func(x, e *secp256k1.Scalar) io.Reader { return newDrbgRFC6979(x, e) }
	VerifVerifyPriv = func(d *PrivateKey, digest []byte, r, s *secp256k1.Scalar) error {
		return verify(d, nil, digest, r, s)
	}
	VerifMaxResamples = func() int { return maxScalarResamples }
	VerifMitigate = func(rd io.Reader, k *PrivateKey, e *secp256k1.Scalar) (io.Reader, error) {
		return mitigateDebianAndSony(rd, domainSepECDSA, k, e)
	}
}
