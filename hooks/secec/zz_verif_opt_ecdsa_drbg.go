//go:build verif

package secec

import (
	"io"

	"gitlab.com/yawning/secp256k1-voi"
)

func init() {
	VerifNewDrbgRFC6979 = func(x, e *secp256k1.Scalar) io.Reader { return newDrbgRFC6979(x, e) }
}
