//go:build verif

package secec

func init() {
	VerifMaxResamples = func() int { return maxScalarResamples }
}
