//go:build verif

package secec

import (
	"io"

	"gitlab.com/yawning/secp256k1-voi"
)

func init() {
	VerifMitigate = func(rd io.Reader, k *PrivateKey, e *secp256k1.Scalar) (io.Reader, error) {
		return mitigateDebianAndSony(rd, domainSepECDSA, k, e)
	}
}
