//go:build verif

package secec

import "gitlab.com/yawning/secp256k1-voi"

func init() {
	VerifVerifyPriv = func(d *PrivateKey, digest []byte, r, s *secp256k1.Scalar) error {
		return verify(d, nil, digest, r, s)
	}
}
