//go:build verif

package secec

import "gitlab.com/yawning/secp256k1-voi"

func init() {
	VerifPrivInternals = func(k *PrivateKey) (*secp256k1.Scalar, *PublicKey) { return k.scalar, k.publicKey }
	VerifPubInternals = func(k *PublicKey) (*secp256k1.Point, []byte) { return k.point, k.pointBytes }
}
