package instr

import (
	"bytes"
	"fmt"
	"go/ast"
	"go/parser"
	"go/printer"
	"go/token"
	"os"
	"path/filepath"
	"strconv"
	"strings"
)

// FiatPackages are the straight-line fiat-crypto packages whose carry / borrow / select sites are counted.
var FiatPackages = []string{"internal/fiat/secp256k1montgomery", "internal/fiat/secp256k1montgomeryscalar"}

// InstrumentCarries writes, for every fiat package, a copy of its sources in which each
// `lo, c = bits.Add64/Sub64(...)` is followed by verifCarry(site, c) and each cmovznzU64(&x, c, a, b) by
// verifCarry(site, uint64(c)): the run then knows, per site, whether the carry (borrow, selector) was seen
// clear and seen set. Returns the overlay entries (original path -> instrumented copy).
func InstrumentCarries(repo, outDir string) (map[string]string, error) {
	overlay := map[string]string{}
	for _, p := range FiatPackages {
		dir := filepath.Join(repo, p)
		ents, err := os.ReadDir(dir)
		if err != nil {
			return nil, err
		}
		var sites []string
		type parsed struct {
			name string
			fset *token.FileSet
			f    *ast.File
		}
		var files []parsed
		for _, e := range ents {
			n := e.Name()
			if !strings.HasSuffix(n, ".go") || strings.HasSuffix(n, "_test.go") || strings.HasPrefix(n, "zz_verif") {
				continue
			}
			fset := token.NewFileSet()
			f, err := parser.ParseFile(fset, filepath.Join(dir, n), nil, parser.ParseComments)
			if err != nil {
				return nil, err
			}
			for _, d := range f.Decls {
				fd, ok := d.(*ast.FuncDecl)
				if !ok || fd.Body == nil || fd.Recv != nil {
					continue
				}
				var out []ast.Stmt
				for _, st := range fd.Body.List {
					out = append(out, st)
					switch s := st.(type) {
					case *ast.AssignStmt:
						if len(s.Lhs) != 2 || len(s.Rhs) != 1 {
							continue
						}
						call, ok := s.Rhs[0].(*ast.CallExpr)
						if !ok {
							continue
						}
						sel, ok := call.Fun.(*ast.SelectorExpr)
						if !ok || (sel.Sel.Name != "Add64" && sel.Sel.Name != "Sub64") {
							continue
						}
						if x, ok := sel.X.(*ast.Ident); !ok || x.Name != "bits" {
							continue
						}
						c, ok := s.Lhs[1].(*ast.Ident)
						if !ok || c.Name == "_" {
							continue
						}
						id := len(sites)
						sites = append(sites, fmt.Sprintf("%s: %s (%s)", fd.Name.Name, c.Name, sel.Sel.Name))
						out = append(out, &ast.ExprStmt{X: &ast.CallExpr{Fun: ast.NewIdent("verifCarry"), Args: []ast.Expr{&ast.BasicLit{Kind: token.INT, Value: strconv.Itoa(id)}, ast.NewIdent(c.Name)}}})
					case *ast.ExprStmt:
						call, ok := s.X.(*ast.CallExpr)
						if !ok || len(call.Args) != 4 {
							continue
						}
						if fn, ok := call.Fun.(*ast.Ident); !ok || fn.Name != "cmovznzU64" {
							continue
						}
						id := len(sites)
						var b bytes.Buffer
						printer.Fprint(&b, fset, call.Args[1])
						sites = append(sites, fmt.Sprintf("%s: select on %s", fd.Name.Name, b.String()))
						out = append(out, &ast.ExprStmt{X: &ast.CallExpr{Fun: ast.NewIdent("verifCarry"), Args: []ast.Expr{&ast.BasicLit{Kind: token.INT, Value: strconv.Itoa(id)},
							&ast.CallExpr{Fun: ast.NewIdent("uint64"), Args: []ast.Expr{call.Args[1]}}}}})
					}
				}
				fd.Body.List = out
			}
			files = append(files, parsed{n, fset, f})
		}
		if len(files) == 0 || len(sites) == 0 {
			return nil, fmt.Errorf("no carry sites found in %s", p)
		}
		for i, pf := range files {
			var b bytes.Buffer
			if err := printer.Fprint(&b, pf.fset, pf.f); err != nil {
				return nil, err
			}
			if i == 0 { // runtime goes into the first file of the package
				fmt.Fprintf(&b, "\n// VerifCarrySeen[site][v] != 0: the carry / borrow / selector at that site was observed with value v.\nvar VerifCarrySeen [%d][2]uint32\n\nvar VerifCarrySites = []string{\n", len(sites))
				for _, s := range sites {
					fmt.Fprintf(&b, "\t%q,\n", s)
				}
				b.WriteString("}\n\nfunc verifCarry(id int, c uint64) {\n\tif c != 0 {\n\t\tc = 1\n\t}\n\tif VerifCarrySeen[id][c] == 0 {\n\t\tVerifCarrySeen[id][c] = 1\n\t}\n}\n")
			}
			dst := filepath.Join(outDir, p, pf.name)
			os.MkdirAll(filepath.Dir(dst), 0o755)
			if err := os.WriteFile(dst, b.Bytes(), 0o644); err != nil {
				return nil, err
			}
			overlay[filepath.Join(dir, pf.name)] = dst
		}
	}
	return overlay, nil
}
