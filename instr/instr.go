// Package instr rewrites the library sources (from the current /repo tree) so
// that every basic block, function entry and non-literal index expression
// reports to the injected verifrt runtime. The rewritten files are handed to
// `go build -overlay`; /repo is never modified.
package instr

import (
	"bytes"
	_ "embed"
	"fmt"
	"go/ast"
	"go/parser"
	"go/printer"
	"go/token"
	"os"
	"path/filepath"
	"sort"
	"strings"
)

//go:embed verifrt/rt.go.txt
var rtSrc string

//go:embed verifrt/hook.go.txt
var hookSrc string

const rtPath = "gitlab.com/yawning/secp256k1-voi/internal/verifrt"

// Packages of the library that are instrumented (relative to the repo root).
var Packages = []string{".", "secec", "secec/bitcoin", "secec/h2c", "internal/field", "internal/swu", "internal/helpers",
	"internal/fiat/secp256k1montgomery", "internal/fiat/secp256k1montgomeryscalar"}

// hasGo is set when an instrumented library file contains a go statement (the library starts goroutines of its own).
var hasGo bool

type state struct {
	next      int
	funcNames map[int]string
	sites     map[int]string
}

func (s *state) id(fset *token.FileSet, pos token.Pos, rel string) int {
	id := s.next
	s.next++
	p := fset.Position(pos)
	s.sites[id] = fmt.Sprintf("%s:%d", rel, p.Line)
	return id
}

func hit(kind string, id int) ast.Stmt {
	return &ast.ExprStmt{X: &ast.CallExpr{
		Fun:  &ast.SelectorExpr{X: ast.NewIdent("verifrt"), Sel: ast.NewIdent(kind)},
		Args: []ast.Expr{&ast.BasicLit{Kind: token.INT, Value: fmt.Sprint(id)}},
	}}
}

// Instrument writes instrumented copies of all library sources under outDir
// and returns the overlay entries (repo path -> generated path).
// RewriteLocks makes the instrumenter replace every statement `X.Lock()` / `X.RLock()` by
// `for !X.TryLock() { verifrt.Blocked() }` (TryRLock for RLock), so that a lock held by a parked thread of the
// cooperative scheduler makes the waiter yield instead of blocking the process. Purely syntactic; the driver falls back
// to RewriteLocks = false when the result does not build (a Lock method on a type without TryLock).
var RewriteLocks = true

func rewriteLockStmts(list []ast.Stmt) {
	for i, st := range list {
		es, ok := st.(*ast.ExprStmt)
		if !ok {
			continue
		}
		call, ok := es.X.(*ast.CallExpr)
		if !ok || len(call.Args) != 0 {
			continue
		}
		sel, ok := call.Fun.(*ast.SelectorExpr)
		if !ok {
			continue
		}
		try := ""
		switch sel.Sel.Name {
		case "Lock":
			try = "TryLock"
		case "RLock":
			try = "TryRLock"
		default:
			continue
		}
		list[i] = &ast.ForStmt{
			Cond: &ast.UnaryExpr{Op: token.NOT, X: &ast.CallExpr{Fun: &ast.SelectorExpr{X: sel.X, Sel: ast.NewIdent(try)}}},
			Body: &ast.BlockStmt{List: []ast.Stmt{&ast.ExprStmt{X: &ast.CallExpr{Fun: &ast.SelectorExpr{X: ast.NewIdent("verifrt"), Sel: ast.NewIdent("Blocked")}}}}},
		}
	}
}

func Instrument(repo, outDir, mode, _ string) (map[string]string, error) {
	hasGo = false
	st := &state{next: 1, funcNames: map[int]string{}, sites: map[int]string{}}
	overlay := map[string]string{}
	for _, p := range Packages {
		dir := filepath.Join(repo, p)
		ents, err := os.ReadDir(dir)
		if err != nil {
			return nil, err
		}
		for _, e := range ents {
			n := e.Name()
			if !strings.HasSuffix(n, ".go") || strings.HasSuffix(n, "_test.go") || strings.HasPrefix(n, "zz_verif") {
				continue
			}
			src := filepath.Join(dir, n)
			rel := filepath.Join(p, n)
			fset := token.NewFileSet()
			f, err := parser.ParseFile(fset, src, nil, parser.ParseComments)
			if err != nil {
				return nil, err
			}
			before := st.next
			isFiat := strings.Contains(p, "fiat")
			pkgName := f.Name.Name
			block := func(b *ast.BlockStmt) {
				if b == nil {
					return
				}
				b.List = append([]ast.Stmt{hit("B", st.id(fset, b.Pos(), rel))}, b.List...)
			}
			wrap := func(e ast.Expr) ast.Expr {
				if e == nil {
					return nil
				}
				if _, ok := e.(*ast.BasicLit); ok {
					return e
				}
				id := st.id(fset, e.Pos(), rel)
				return &ast.CallExpr{
					Fun:  &ast.SelectorExpr{X: ast.NewIdent("verifrt"), Sel: ast.NewIdent("I")},
					Args: []ast.Expr{&ast.BasicLit{Kind: token.INT, Value: fmt.Sprint(id)}, e},
				}
			}
			ast.Inspect(f, func(nd ast.Node) bool {
				if _, ok := nd.(*ast.GoStmt); ok {
					hasGo = true
				}
				return true
			})
			if RewriteLocks && mode == "sched" {
				ast.Inspect(f, func(nd ast.Node) bool {
					switch x := nd.(type) {
					case *ast.BlockStmt:
						rewriteLockStmts(x.List)
					case *ast.CaseClause:
						rewriteLockStmts(x.Body)
					case *ast.CommClause:
						rewriteLockStmts(x.Body)
					}
					return true
				})
			}
			ast.Inspect(f, func(nd ast.Node) bool {
				switch x := nd.(type) {
				case *ast.GenDecl:
					// do not touch constant / type / var declarations at package level
					// (index expressions in constant contexts must stay constant)
					if x.Tok == token.CONST || x.Tok == token.TYPE {
						return false
					}
				case *ast.FuncDecl:
					if x.Body != nil {
						id := st.id(fset, x.Pos(), rel)
						nm := x.Name.Name
						if x.Recv != nil && len(x.Recv.List) > 0 {
							var b bytes.Buffer
							printer.Fprint(&b, fset, x.Recv.List[0].Type)
							nm = b.String() + "." + nm
						}
						st.funcNames[id] = pkgName + "." + nm
						if isFiat {
							x.Body.List = append([]ast.Stmt{hit("F", id)}, x.Body.List...)
							return false // fiat routines are straight-line; treated as atomic
						}
						block(x.Body)
						x.Body.List = append([]ast.Stmt{hit("F", id)}, x.Body.List...)
					}
				case *ast.FuncLit:
					block(x.Body)
				case *ast.IfStmt:
					block(x.Body)
					if eb, ok := x.Else.(*ast.BlockStmt); ok {
						block(eb)
					}
				case *ast.ForStmt:
					block(x.Body)
				case *ast.RangeStmt:
					block(x.Body)
				case *ast.CaseClause:
					x.Body = append([]ast.Stmt{hit("B", st.id(fset, x.Pos(), rel))}, x.Body...)
				case *ast.CommClause:
					x.Body = append([]ast.Stmt{hit("B", st.id(fset, x.Pos(), rel))}, x.Body...)
				case *ast.IndexExpr:
					x.Index = wrap(x.Index)
				case *ast.SliceExpr:
					x.Low = wrap(x.Low)
					x.High = wrap(x.High)
					x.Max = wrap(x.Max)
				}
				return true
			})
			if st.next == before {
				continue
			}
			imp := &ast.GenDecl{Tok: token.IMPORT, Specs: []ast.Spec{&ast.ImportSpec{
				Name: ast.NewIdent("verifrt"), Path: &ast.BasicLit{Kind: token.STRING, Value: `"` + rtPath + `"`}}}}
			f.Decls = append([]ast.Decl{imp}, f.Decls...)
			var buf bytes.Buffer
			if err := printer.Fprint(&buf, fset, f); err != nil {
				return nil, err
			}
			dst := filepath.Join(outDir, p, n)
			if err := os.MkdirAll(filepath.Dir(dst), 0o755); err != nil {
				return nil, err
			}
			if err := os.WriteFile(dst, buf.Bytes(), 0o644); err != nil {
				return nil, err
			}
			overlay[src] = dst
		}
	}
	// runtime package + tables
	rtDir := filepath.Join(outDir, "internal", "verifrt")
	os.MkdirAll(rtDir, 0o755)
	if err := os.WriteFile(filepath.Join(rtDir, "rt.go"), []byte(rtSrc), 0o644); err != nil {
		return nil, err
	}
	var tb bytes.Buffer
	fmt.Fprintf(&tb, "package verifrt\n\nconst NumIDs = %d\n\n// HasGo: the instrumented library contains go statements\nconst HasGo = %v\n\nvar FuncNames = map[int]string{\n", st.next, hasGo)
	ids := make([]int, 0, len(st.funcNames))
	for id := range st.funcNames {
		ids = append(ids, id)
	}
	sort.Ints(ids)
	for _, id := range ids {
		fmt.Fprintf(&tb, "\t%d: %q,\n", id, st.funcNames[id])
	}
	fmt.Fprintf(&tb, "}\n\nvar Sites = [NumIDs]string{\n")
	for id := 1; id < st.next; id++ {
		fmt.Fprintf(&tb, "\t%d: %q,\n", id, st.sites[id])
	}
	fmt.Fprintf(&tb, "}\n")
	if err := os.WriteFile(filepath.Join(rtDir, "tables.go"), tb.Bytes(), 0o644); err != nil {
		return nil, err
	}
	overlay[filepath.Join(repo, "internal/verifrt/rt.go")] = filepath.Join(rtDir, "rt.go")
	overlay[filepath.Join(repo, "internal/verifrt/tables.go")] = filepath.Join(rtDir, "tables.go")
	hk := filepath.Join(outDir, "zz_verif_rt.go")
	if err := os.WriteFile(hk, []byte(hookSrc), 0o644); err != nil {
		return nil, err
	}
	overlay[filepath.Join(repo, "zz_verif_rt.go")] = hk
	return overlay, nil
}

// GenLookupRef derives, from the current portable lookup source, a renamed
// copy that is compiled into the assembly build so both can run side by side.
func GenLookupRef(src, dst string) error {
	fset := token.NewFileSet()
	f, err := parser.ParseFile(fset, src, nil, 0) // comments (and the build constraint) dropped
	if err != nil {
		return err
	}
	// Every package-level name the file declares is renamed (declaration and uses), so that the copy can sit next to
	// the assembly build's own declarations whatever else the portable file defines (per-build constants, helpers).
	found := 0
	top := map[*ast.Object]string{}
	if f.Scope != nil {
		for name, obj := range f.Scope.Objects {
			switch name {
			case "lookupProjectivePoint":
				top[obj] = "verifRefLookupProjectivePoint"
				found++
			case "lookupAffinePoint":
				top[obj] = "verifRefLookupAffinePoint"
				found++
			case "init", "_":
			default:
				top[obj] = "verifRef_" + name
			}
		}
	}
	ast.Inspect(f, func(n ast.Node) bool {
		if id, ok := n.(*ast.Ident); ok && id.Obj != nil {
			if nn, ok := top[id.Obj]; ok {
				id.Name = nn
			}
		}
		return true
	})
	if found != 2 {
		return fmt.Errorf("portable lookups not found in %s", src)
	}
	var buf bytes.Buffer
	buf.WriteString("//go:build verif && amd64 && !purego\n\n")
	if err := printer.Fprint(&buf, fset, f); err != nil {
		return err
	}
	buf.WriteString(`

func init() {
	VerifLookupProjectiveRef = verifLookupP(verifRefLookupProjectivePoint)
	VerifLookupAffineRef = verifLookupA(verifRefLookupAffinePoint)
}
`)
	return os.WriteFile(dst, buf.Bytes(), 0o644)
}
