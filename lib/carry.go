package lib

import (
	"fmt"
	"sort"

	secp256k1 "gitlab.com/yawning/secp256k1-voi"

	"verif/mc"
)

// ReportCarryCoverage records, for the field or scalar fiat package, how many carry / borrow / select sites of the
// straight-line arithmetic were driven to BOTH values by this run's alphabets, and lists the (site, value) pairs
// never observed. It is evidence about the alphabet (code-derived: every site is a place where a dropped carry or
// a skipped conditional subtraction would go unnoticed unless some operand sets it); it raises no violation.
func ReportCarryCoverage(R *mc.Report, scalar bool) {
	h := secp256k1.VerifCarryCoverage
	if h == nil {
		R.SkipHook("carry-site coverage (instrumented fiat sources)")
		return
	}
	sites, seen := h(scalar)
	kind := "field"
	if scalar {
		kind = "scalar"
	}
	both, reached := 0, 0
	perFn := map[string][2]int{}
	var never []string
	for i, s := range seen {
		fn := sites[i]
		for j := 0; j < len(fn); j++ {
			if fn[j] == ':' {
				fn = fn[:j]
				break
			}
		}
		c := perFn[fn]
		c[1]++
		if s[0] || s[1] {
			reached++
		}
		if s[0] && s[1] {
			both++
			c[0]++
		} else if s[0] || s[1] { // sites in functions the library never calls (divstep, ...) are not listed
			v := 0
			if s[0] {
				v = 1
			}
			never = append(never, fmt.Sprintf("%s never %d", sites[i], v))
		}
		perFn[fn] = c
	}
	R.Class(fmt.Sprintf("carry sites/%s: reached", kind), int64(reached))
	R.Class(fmt.Sprintf("carry sites/%s: both values observed", kind), int64(both))
	var fns []string
	for fn, c := range perFn {
		if c[0] > 0 || fn == "FromMontgomery" || fn == "Mul" {
			fns = append(fns, fmt.Sprintf("%s %d/%d", fn, c[0], c[1]))
		}
	}
	sort.Strings(fns)
	R.Bound(fmt.Sprintf("carry_sites_%s_both_values_per_function", kind), fns)
	R.Bound(fmt.Sprintf("carry_sites_%s_value_never_observed", kind), never)
}
