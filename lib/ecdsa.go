package lib

import (
	"crypto"
	"math/big"

	"gitlab.com/yawning/secp256k1-voi/secec"

	"verif/ref"
)

// MkPub builds the implementation public key for an abstract point (non-identity).
func MkPub(q ref.Pt) *secec.PublicKey {
	k, err := secec.NewPublicKey(q.Uncompressed())
	if err != nil {
		panic("lib.MkPub: " + err.Error())
	}
	return k
}

// MkPriv builds the implementation private key for d in [1,n).
func MkPriv(d *big.Int) *secec.PrivateKey {
	k, err := secec.NewPrivateKey(ref.B32(d))
	if err != nil {
		panic("lib.MkPriv: " + err.Error())
	}
	return k
}

// VOpts mirrors secec.ECDSAOptions for the reference side (Nil = nil options).
type VOpts struct {
	Nil             bool
	Hash            crypto.Hash // 0 = unspecified (SHA-256 assumed)
	Encoding        int         // 0 ASN.1, 1 compact, 2 compact recoverable, other invalid
	RejectMalleable bool
	SelfVerify      bool
}

func (o VOpts) Impl() *secec.ECDSAOptions {
	if o.Nil {
		return nil
	}
	return &secec.ECDSAOptions{Hash: o.Hash, Encoding: secec.SignatureEncoding(o.Encoding), RejectMalleable: o.RejectMalleable, SelfVerify: o.SelfVerify}
}

func (o VOpts) String() string {
	if o.Nil {
		return "nil"
	}
	s := "{"
	switch o.Hash {
	case 0:
		s += "hash=unset"
	case crypto.SHA256:
		s += "SHA256"
	case crypto.SHA512:
		s += "SHA512"
	case crypto.SHA384:
		s += "SHA384"
	default:
		s += "hash=?"
	}
	s += [...]string{",asn1", ",compact", ",recoverable"}[min(o.Encoding, 2)]
	if o.Encoding > 2 {
		s += "(invalid encoding)"
	}
	if o.RejectMalleable {
		s += ",rejectMalleable"
	}
	if o.SelfVerify {
		s += ",selfVerify"
	}
	return s + "}"
}

// HashSize is the digest length rule for the selected hash.
func (o VOpts) HashSize() int {
	h := o.Hash
	if h == 0 {
		h = crypto.SHA256
	}
	return h.Size()
}

// RefVerifyEncoded is the property's acceptance predicate for
// PublicKey.Verify(digest, sig, opts): strict parse of the selected format,
// digest-length rule when options are given, low-s when requested, SEC 1
// 4.1.4, and for the recoverable format that the id reconstructs Q.
func RefVerifyEncoded(q ref.Pt, digest, sig []byte, o VOpts) bool {
	enc := 0
	if !o.Nil {
		if len(digest) != o.HashSize() {
			return false
		}
		enc = o.Encoding
	}
	var r, s *big.Int
	var v byte
	var ok bool
	switch enc {
	case 0:
		r, s, ok = ref.DERParseSig(sig)
	case 1:
		r, s, ok = ref.CompactParse(sig)
	case 2:
		r, s, v, ok = ref.CompactRecoverableParse(sig)
	default:
		return false
	}
	if !ok {
		return false
	}
	if !o.Nil && o.RejectMalleable && s.Cmp(ref.HalfN) > 0 {
		return false
	}
	if !ref.ECDSAVerify(q, digest, r, s) {
		return false
	}
	if enc == 2 {
		rq, err := ref.ECDSARecover(digest, r, s, int(v))
		if v > 3 || err != nil || !rq.Equal(q) {
			return false
		}
	}
	return true
}

// RefVerifyBitcoin is the predicate for bitcoin.VerifyASN1: BIP-66 envelope
// (with trailing sighash byte), strict DER of the rest, low-s, 32-byte digest.
func RefVerifyBitcoin(q ref.Pt, digest, sig []byte) bool {
	if !ref.BIP66Valid(sig) {
		return false
	}
	return RefVerifyEncoded(q, digest, sig[:len(sig)-1], VOpts{Hash: crypto.SHA256, Encoding: 0, RejectMalleable: true})
}
