// Package lib holds the conversions between the reference model's values and
// the implementation's objects that every property check needs. It imports the
// library with the verif hooks, so it only builds under the driver's overlay.
package lib

import (
	"bytes"
	"encoding/hex"
	"fmt"
	"math/big"
	"sync"

	secp256k1 "gitlab.com/yawning/secp256k1-voi"

	"verif/ref"
)

type (
	FE     = secp256k1.VerifFE
	Scalar = secp256k1.Scalar
	Point  = secp256k1.Point
)

// Try runs f, converting a panic into a string ("" = no panic).
func Try(f func()) (p string) {
	defer func() {
		if x := recover(); x != nil {
			p = fmt.Sprint(x)
			if p == "" {
				p = "panic"
			}
		}
	}()
	f()
	return ""
}

// MkFE builds a field element from a canonical integer.
func MkFE(v *big.Int) *FE {
	e := new(FE)
	if _, err := e.SetCanonicalBytes(ref.A32(ref.ModP(v))); err != nil {
		panic("lib.MkFE: " + err.Error())
	}
	return e
}

func FEVal(e *FE) *big.Int { return ref.OS2IP(e.Bytes()) }

// MkSC builds a scalar from an integer (reduced mod n by the model).
func MkSC(v *big.Int) *Scalar {
	s, err := secp256k1.NewScalarFromCanonicalBytes(ref.A32(ref.ModN(v)))
	if err != nil {
		panic("lib.MkSC: " + err.Error())
	}
	return s
}

func SCVal(s *Scalar) *big.Int { return ref.OS2IP(s.Bytes()) }

// MkPT builds the implementation point for an abstract point through the
// public constructors (Z = 1; identity = (0,1,0)).
func MkPT(p ref.Pt) *Point {
	if p.Inf {
		return secp256k1.NewIdentityPoint()
	}
	q, err := secp256k1.NewPointFromCoords(ref.A32(p.X), ref.A32(p.Y))
	if err != nil {
		panic("lib.MkPT: reference point rejected by NewPointFromCoords: " + err.Error())
	}
	return q
}

// MkPTRep builds the projective representative (x*z, y*z, z) of p through the
// unchecked constructor hook; for the identity the representative is (0, z, 0).
func MkPTRep(p ref.Pt, z *big.Int) *Point {
	z = ref.ModP(z)
	if z.Sign() == 0 {
		panic("lib.MkPTRep: z = 0")
	}
	out := new(Point)
	if p.Inf {
		return secp256k1.VerifPointSetXYZ(out, MkFE(big.NewInt(0)), MkFE(z), MkFE(big.NewInt(0)), true)
	}
	return secp256k1.VerifPointSetXYZ(out, MkFE(ref.FpMul(p.X, z)), MkFE(ref.FpMul(p.Y, z)), MkFE(z), true)
}

// Raw returns the exact stored state of a point (limbs + flag) as a string key.
func Raw(p *Point) string {
	x, y, z, v := secp256k1.VerifPointXYZ(p)
	return fmt.Sprint(secp256k1.VerifFELimbs(x), secp256k1.VerifFELimbs(y), secp256k1.VerifFELimbs(z), v)
}

// RawXYZ returns the projective coordinates as integers and the validity flag.
func RawXYZ(p *Point) (x, y, z *big.Int, valid bool) {
	fx, fy, fz, v := secp256k1.VerifPointXYZ(p)
	return FEVal(fx), FEVal(fy), FEVal(fz), v
}

// PTVal decodes the abstract value of an implementation point from its RAW
// coordinates (never through the library's own Equal / encoders) and checks
// the representation invariant: flag set, not (0,0,0), Y^2 Z = X^3 + 7 Z^3,
// identity exactly as (0, Y != 0, 0).
func PTVal(p *Point) (ref.Pt, string) {
	x, y, z, valid := RawXYZ(p)
	if !valid {
		return ref.Pt{}, "isValid flag not set"
	}
	if z.Sign() == 0 {
		if x.Sign() != 0 || y.Sign() == 0 {
			return ref.Pt{}, fmt.Sprintf("Z = 0 but (X,Y) = (%x,%x) is not an identity representative", x, y)
		}
		return ref.Infinity(), ""
	}
	lhs := ref.FpMul(ref.FpSqr(y), z)
	z3 := ref.FpMul(ref.FpSqr(z), z)
	rhs := ref.FpAdd(ref.FpMul(ref.FpSqr(x), x), ref.FpMul(ref.Sev, z3))
	if lhs.Cmp(rhs) != 0 {
		return ref.Pt{}, fmt.Sprintf("projective coordinates (%x,%x,%x) are not on the curve", x, y, z)
	}
	zi := ref.FpInv(z)
	return ref.Pt{X: ref.FpMul(x, zi), Y: ref.FpMul(y, zi)}, ""
}

// CheckPoint compares an implementation point with the abstract model value:
// raw validity, abstract value, and every observer (IsIdentity, IsYOdd,
// encodings, XBytes) against the reference encodings. Returns "" or a mismatch.
func CheckPoint(p *Point, want ref.Pt) string {
	got, bad := PTVal(p)
	if bad != "" {
		return "invalid result: " + bad
	}
	if !got.Equal(want) {
		return fmt.Sprintf("abstract value %v, model %v", got, want)
	}
	return CheckObservers(p, want)
}

// CheckPointLight is CheckPoint with a single encoding as the only observer.
func CheckPointLight(p *Point, want ref.Pt) string {
	got, bad := PTVal(p)
	if bad != "" {
		return "invalid result: " + bad
	}
	if !got.Equal(want) {
		return fmt.Sprintf("abstract value %v, model %v", got, want)
	}
	if g := p.UncompressedBytes(); !bytes.Equal(g, want.Uncompressed()) {
		return fmt.Sprintf("UncompressedBytes=%x, model %x", g, want.Uncompressed())
	}
	return ""
}

// CheckFreshConstructors: whatever the library was asked to do before (its call history: scratch objects, pools,
// caches), the constructors without arguments return what they promise - NewIdentityPoint() an identity
// representative (0, Y != 0, 0), NewGeneratorPoint() the generator - as valid objects, judged from raw coordinates.
func CheckFreshConstructors() string {
	id := secp256k1.NewIdentityPoint()
	x, y, z, v := secp256k1.VerifPointXYZ(id)
	var zero [4]uint64
	if !v || secp256k1.VerifFELimbs(x) != zero || secp256k1.VerifFELimbs(z) != zero || secp256k1.VerifFELimbs(y) == zero {
		return fmt.Sprintf("NewIdentityPoint() returned %s, not an identity representative (0, Y != 0, 0) marked valid", Raw(id))
	}
	g := secp256k1.NewGeneratorPoint()
	genOnce.Do(func() {
		if got, bad := PTVal(g); bad == "" && got.Equal(ref.G()) {
			genRaw = Raw(g)
		}
	})
	if Raw(g) != genRaw { // another representative than the first time, or something else: decide from the raw coordinates
		got, bad := PTVal(g)
		if bad != "" {
			return "NewGeneratorPoint() returned an invalid object: " + bad
		}
		if !got.Equal(ref.G()) {
			return fmt.Sprintf("NewGeneratorPoint() returned %v", got)
		}
	}
	return ""
}

var (
	genRaw  string
	genOnce sync.Once
)

// CheckObservers checks the observer methods of p against the model value. Directly after every observer call the
// constructors without arguments are checked too (CheckFreshConstructors): an observer leaves nothing behind that the
// very next constructor call could pick up.
func CheckObservers(p *Point, want ref.Pt) string {
	fresh := func(after string) string {
		if m := CheckFreshConstructors(); m != "" {
			return "directly after " + after + " on another point: " + m
		}
		return ""
	}
	wi := uint64(0)
	if want.Inf {
		wi = 1
	}
	if g := p.IsIdentity(); g != wi {
		return fmt.Sprintf("IsIdentity=%d, model %d", g, wi)
	}
	if m := fresh("IsIdentity"); m != "" {
		return m
	}
	odd := p.IsYOdd()
	if m := fresh("IsYOdd"); m != "" {
		return m
	}
	if !want.Inf {
		if odd != uint64(want.Y.Bit(0)) {
			return fmt.Sprintf("IsYOdd=%d, model %d", odd, want.Y.Bit(0))
		}
	} else if c := secp256k1.NewIdentityPoint().IsYOdd(); odd != c {
		// the identity has no y: whatever the test answers, it answers it for every representative of the identity
		return fmt.Sprintf("IsYOdd of this identity representative = %d, of NewIdentityPoint() = %d (depends on the representative)", odd, c)
	}
	if g := p.CompressedBytes(); !bytes.Equal(g, want.Compressed()) {
		return fmt.Sprintf("CompressedBytes=%x, model %x", g, want.Compressed())
	}
	if m := fresh("CompressedBytes"); m != "" {
		return m
	}
	if g := p.UncompressedBytes(); !bytes.Equal(g, want.Uncompressed()) {
		return fmt.Sprintf("UncompressedBytes=%x, model %x", g, want.Uncompressed())
	}
	if m := fresh("UncompressedBytes"); m != "" {
		return m
	}
	xb, err := p.XBytes()
	if want.Inf {
		if err == nil {
			return "XBytes of the identity returned no error"
		}
	} else if err != nil || !bytes.Equal(xb, ref.B32(want.X)) {
		return fmt.Sprintf("XBytes=%x err=%v, model %x", xb, err, ref.B32(want.X))
	}
	return fresh("XBytes")
}

// PtHex / HexPt serialise abstract points for replay descriptors.
func PtHex(p ref.Pt) string {
	return hex.EncodeToString(p.Uncompressed())
}

func HexPt(s string) ref.Pt {
	b, _ := hex.DecodeString(s)
	p, err := ref.DecodePoint(b)
	if err != nil {
		panic("lib.HexPt: bad point " + s)
	}
	return p
}

// ReceiverWithHistory returns a receiver object whose previous contents must not matter to an operation that
// overwrites it: (0) the zero value, (1) a computed point with Z != 1, (2) a point that has since been the receiver of
// decodes that FAILED (well-formed but off-curve uncompressed, non-residue compressed, wrong length - all documented
// to leave the receiver unchanged), (3) the identity. NumReceiverHistories is the number of kinds.
const NumReceiverHistories = 4

func ReceiverWithHistory(h int) *Point {
	switch h % NumReceiverHistories {
	case 1:
		return MkPTRep(ref.G().Mul(big.NewInt(5)), big.NewInt(9))
	case 2:
		v := MkPTRep(ref.G().Mul(big.NewInt(13)), big.NewInt(3))
		g := ref.G()
		off := append([]byte{4}, append(ref.B32(g.X), ref.B32(new(big.Int).Add(g.Y, big.NewInt(1)))...)...)
		x := big.NewInt(1)
		for {
			if _, ok := ref.LiftX(x, 0); !ok {
				break
			}
			x.Add(x, big.NewInt(1))
		}
		for _, b := range [][]byte{off, append([]byte{2}, ref.B32(x)...), off[:64], {}} {
			v.SetBytes(b)
			if len(b) == 65 {
				v.SetUncompressedBytes(b)
			}
			if len(b) == 33 {
				v.SetCompressedBytes(b)
			}
		}
		return v
	case 3:
		return secp256k1.NewIdentityPoint()
	}
	return new(Point)
}
