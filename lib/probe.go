package lib

import (
	"fmt"
	"runtime/debug"
	"syscall"
	"unsafe"

	secp256k1 "gitlab.com/yawning/secp256k1-voi"
)

// Arena is harness-managed memory: rw accessible pages followed by one
// inaccessible (PROT_NONE) page. Placing a lookup table so that some of its
// entries lie in the inaccessible page shows (by a fault) which entries a
// lookup routine reads — also for routines written in assembly, which no
// source instrumentation can see.
type Arena struct {
	mem  []byte
	page int
	rw   int
}

func NewArena(rwPages int) (*Arena, error) {
	page := syscall.Getpagesize()
	mem, err := syscall.Mmap(-1, 0, (rwPages+1)*page, syscall.PROT_READ|syscall.PROT_WRITE, syscall.MAP_ANON|syscall.MAP_PRIVATE)
	if err != nil {
		return nil, err
	}
	if err := syscall.Mprotect(mem[rwPages*page:], syscall.PROT_NONE); err != nil {
		syscall.Munmap(mem)
		return nil, err
	}
	return &Arena{mem: mem, page: page, rw: rwPages * page}, nil
}

func (a *Arena) Close() { syscall.Munmap(a.mem) }

// Before returns the address n bytes before the inaccessible page, and the accessible bytes from there.
func (a *Arena) Before(n int) (unsafe.Pointer, []byte) {
	if n > a.rw {
		panic("arena too small")
	}
	return unsafe.Pointer(&a.mem[a.rw-n]), a.mem[a.rw-n : a.rw]
}

// At returns the address at offset off from the start of the accessible region.
func (a *Arena) At(off int) (unsafe.Pointer, []byte) {
	return unsafe.Pointer(&a.mem[off]), a.mem[off:a.rw]
}

// Faults runs f and reports whether it faulted (memory access violation or alignment trap).
func Faults(f func()) (faulted bool, what string) {
	old := debug.SetPanicOnFault(true)
	defer debug.SetPanicOnFault(old)
	defer func() {
		if x := recover(); x != nil {
			faulted = true
			what = fmt.Sprint(x)
		}
	}()
	f()
	return false, ""
}

func putLimbs(b []byte, l [4]uint64) {
	for i, w := range l {
		for j := 0; j < 8; j++ {
			b[i*8+j] = byte(w >> (8 * j))
		}
	}
}

// ProbeLookupAccess checks, for the affine (stride 64) or projective (stride 0x68) lookup, that for
// every e in 0..14 a table whose entries e..14 are inaccessible makes the lookup fault for EVERY index
// 0..15: the routine reads every entry whatever the (secret) index is. Returns "" or a description.
func ProbeLookupAccess(projective bool) (string, int) {
	stride := 64
	if projective {
		stride = 0x68
		if secp256k1.VerifLookupProjectiveAt == nil {
			return "SKIP", 0
		}
	} else if secp256k1.VerifLookupAffineAt == nil {
		return "SKIP", 0
	}
	a, err := NewArena(2)
	if err != nil {
		return "SKIP (mmap: " + err.Error() + ")", 0
	}
	defer a.Close()
	n := 0
	for e := 0; e <= 15; e++ { // e = 15: the whole table is accessible (control: no fault allowed)
		base, acc := a.Before(e * stride)
		for i := range acc {
			acc[i] = byte(i*7 + 1)
		}
		var pattern []bool
		for idx := uint64(0); idx < 16; idx++ {
			n++
			faulted, _ := Faults(func() {
				if projective {
					secp256k1.VerifLookupProjectiveAt(base, idx)
				} else {
					secp256k1.VerifLookupAffineAt(base, idx)
				}
			})
			pattern = append(pattern, faulted)
		}
		for idx, f := range pattern {
			if e == 15 && f {
				return fmt.Sprintf("lookup faulted on a fully accessible table (idx=%d)", idx), n
			}
			if e < 15 && !f {
				return fmt.Sprintf("with table entries %d..14 inaccessible the lookup for index %d did NOT fault: it does not read entry %d for that index, so the set of entries read depends on the (secret) index; fault pattern over idx 0..15 = %v", e, idx, e, pattern), n
			}
		}
	}
	return "", n
}

// ProbeLookupAlignment runs the lookups on tables placed at every 8-byte alignment class (address mod 16
// in {0, 8}) and at a page end; the result must be the specified entry and no fault may occur.
func ProbeLookupAlignment() (string, int) {
	if secp256k1.VerifLookupAffineAt == nil || secp256k1.VerifLookupProjectiveAt == nil {
		return "SKIP", 0
	}
	a, err := NewArena(2)
	if err != nil {
		return "SKIP (mmap: " + err.Error() + ")", 0
	}
	defer a.Close()
	n := 0
	for _, off := range []int{0, 8, 16, 24, 40, -1} { // -1: the table ends exactly at the inaccessible page
		for _, proj := range []bool{false, true} {
			stride, nl := 64, 2
			if proj {
				stride, nl = 0x68, 3
			}
			base, acc := a.At(off & 0xff)
			if off < 0 {
				base, acc = a.Before(15 * stride)
			}
			// entry s, coordinate c, limb l = tag
			for s := 0; s < 15; s++ {
				for c := 0; c < nl; c++ {
					putLimbs(acc[s*stride+32*c:], [4]uint64{uint64(0xB0000000 | s<<8 | c), 1, 2, uint64(s)})
				}
			}
			for idx := uint64(0); idx < 16; idx++ {
				n++
				var got [3][4]uint64
				faulted, what := Faults(func() {
					if proj {
						got = secp256k1.VerifLookupProjectiveAt(base, idx)
					} else {
						g := secp256k1.VerifLookupAffineAt(base, idx)
						got[0], got[1] = g[0], g[1]
					}
				})
				if faulted {
					return fmt.Sprintf("lookup (projective=%v) faulted on a table at address %%16 = %d, idx %d: %s", proj, (uintptr(base))%16, idx, what), n
				}
				if idx > 0 {
					for c := 0; c < nl; c++ {
						want := [4]uint64{uint64(0xB0000000 | int(idx-1)<<8 | c), 1, 2, uint64(idx - 1)}
						if got[c] != want {
							return fmt.Sprintf("lookup (projective=%v) on a table at address %%16 = %d returned a wrong entry for idx %d", proj, (uintptr(base))%16, idx), n
						}
					}
				}
			}
		}
	}
	return "", n
}
