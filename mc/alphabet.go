package mc

import (
	"fmt"
	"math/big"
	"math/rand"
	"sort"

	"verif/ref"
)

// Val is a labelled alphabet member; the label says which shortcut in the code
// it is there for.
type Val struct {
	Label string
	V     *big.Int
}

var (
	one  = big.NewInt(1)
	r256 = new(big.Int).Lsh(big.NewInt(1), 256)
)

func bi(s string) *big.Int {
	v, ok := new(big.Int).SetString(s, 16)
	if !ok {
		panic("bad hex")
	}
	return v
}

type valSet struct {
	m    *big.Int
	seen map[string]bool
	out  []Val
}

func (s *valSet) add(label string, v *big.Int) {
	v = new(big.Int).Mod(v, s.m)
	k := v.Text(16)
	if s.seen[k] {
		return
	}
	s.seen[k] = true
	s.out = append(s.out, Val{label, v})
}

var limbBoundaryBits = []uint{8, 16, 31, 32, 33, 63, 64, 65, 95, 96, 127, 128, 129, 191, 192, 193, 223, 224, 255}

// ModAlphabet builds the structural alphabet for arithmetic modulo m (p or n):
// every value is there because some carry, borrow, limb boundary, conditional
// subtraction or window in the code treats it specially. extra are
// modulus-specific structured constants. mont adds the Montgomery images
// v*R^-1 (stored limbs equal v) and v*R of every base value.
func ModAlphabet(m *big.Int, extra []Val, seed int64, nSeeded int, mont bool) []Val {
	s := &valSet{m: m, seen: map[string]bool{}}
	for _, v := range []int64{0, 1, 2, 3, 4, 7, 8, 11, 21, 1771} {
		s.add(fmt.Sprintf("small %d", v), big.NewInt(v))
	}
	for _, v := range []int64{1, 2, 3} {
		s.add(fmt.Sprintf("m-%d", v), new(big.Int).Sub(m, big.NewInt(v)))
	}
	half := new(big.Int).Rsh(m, 1) // (m-1)/2
	for d := int64(-2); d <= 2; d++ {
		s.add(fmt.Sprintf("(m-1)/2%+d", d), new(big.Int).Add(half, big.NewInt(d)))
	}
	d := new(big.Int).Sub(r256, m) // 2^256 - m
	s.add("d=2^256-m", d)
	s.add("d-1", new(big.Int).Sub(d, one))
	s.add("d+1", new(big.Int).Add(d, one))
	s.add("d^2", new(big.Int).Mul(d, d))
	s.add("m-d", new(big.Int).Sub(m, d))
	s.add("2^32", new(big.Int).Lsh(one, 32))
	s.add("977", big.NewInt(977))
	for _, k := range limbBoundaryBits {
		p2 := new(big.Int).Lsh(one, k)
		s.add(fmt.Sprintf("2^%d", k), p2)
		s.add(fmt.Sprintf("2^%d-1", k), new(big.Int).Sub(p2, one))
		s.add(fmt.Sprintf("2^%d+1", k), new(big.Int).Add(p2, one))
		s.add(fmt.Sprintf("m-2^%d", k), new(big.Int).Sub(m, p2))
	}
	// limb patterns over {0, 1, 2^63, 2^64-1}^4 restricted to the corner ones
	limbVals := []uint64{0, ^uint64(0)}
	for pat := 0; pat < 16; pat++ {
		v := new(big.Int)
		for l := 3; l >= 0; l-- {
			v.Lsh(v, 64)
			v.Or(v, new(big.Int).SetUint64(limbVals[(pat>>uint(l))&1]))
		}
		if v.Cmp(m) < 0 {
			s.add(fmt.Sprintf("limbs{0,max} pattern %04b", pat), v)
		} else {
			s.add(fmt.Sprintf("limbs{0,max} pattern %04b mod m", pat), v)
		}
	}
	// top limbs all ones, low limb sweeping its own boundaries (sign-bit tricks on the low limb)
	top := new(big.Int).Sub(r256, new(big.Int).Lsh(one, 64))
	for _, lo := range []uint64{0, 1, 1<<63 - 1, 1 << 63, 1<<63 + 1, 1 << 32, 1<<32 - 1, 0x7fffffff00000000, 0xfffffffe00000000} {
		v := new(big.Int).Add(top, new(big.Int).SetUint64(lo))
		if v.Cmp(m) < 0 {
			s.add(fmt.Sprintf("2^256-2^64+%#x", lo), v)
		}
	}
	// each single limb = 2^63 / 2^63-1 with others zero; alternating bit patterns
	for l := uint(0); l < 4; l++ {
		s.add(fmt.Sprintf("limb%d=2^63", l), new(big.Int).Lsh(one, 64*l+63))
		s.add(fmt.Sprintf("limb%d=max", l), new(big.Int).Lsh(new(big.Int).SetUint64(^uint64(0)), 64*l))
	}
	s.add("0x5555..", bi("5555555555555555555555555555555555555555555555555555555555555555"))
	s.add("0xaaaa..", bi("aaaaaaaaaaaaaaaaaaaaaaaaaaaaaaaaaaaaaaaaaaaaaaaaaaaaaaaaaaaaaaaa"))
	s.add("0x0f0f..", bi("0f0f0f0f0f0f0f0f0f0f0f0f0f0f0f0f0f0f0f0f0f0f0f0f0f0f0f0f0f0f0f0f"))
	s.add("0xf0f0..", bi("f0f0f0f0f0f0f0f0f0f0f0f0f0f0f0f0f0f0f0f0f0f0f0f0f0f0f0f0f0f0f0f0"))
	s.add("0x1111..", bi("1111111111111111111111111111111111111111111111111111111111111111"))
	for _, e := range extra {
		s.add(e.Label, e.V)
	}
	rng := rand.New(rand.NewSource(seed*7919 + 17))
	for i := 0; i < nSeeded; i++ {
		v := new(big.Int).Rand(rng, m)
		s.add(fmt.Sprintf("seeded#%d", i), v)
	}
	if mont {
		base := append([]Val{}, s.out...)
		rinv := new(big.Int).ModInverse(r256, m)
		for _, b := range base {
			s.add("stored-limbs = "+b.Label, new(big.Int).Mul(b.V, rinv))
			s.add("R * "+b.Label, new(big.Int).Mul(b.V, r256))
		}
		for _, b := range append(ReductionSteered(m), ModulusLimbPatterns(m)...) {
			s.add("stored-limbs = "+b.Label, new(big.Int).Mul(b.V, rinv))
		}
	}
	return s.out
}

// FieldConstants are the structured constants of the field-level code.
func FieldConstants() []Val {
	negInv11 := ref.FpInv(ref.FpNeg(big.NewInt(11))) // -1/11 ; u^2 = 1/11 makes tv2 = Z^2u^4+Zu^2 = 0
	inv11 := ref.FpInv(big.NewInt(11))
	sq, ok := ref.FpSqrt(inv11)
	out := []Val{
		{"beta", ref.Beta}, {"beta^2", ref.FpSqr(ref.Beta)}, {"Gx", ref.Gx}, {"Gy", ref.Gy},
		{"Z=-11", ref.FpNeg(big.NewInt(11))}, {"1/11", inv11}, {"-1/11", negInv11},
		{"A'", bi("3f8731abdd661adca08a5558f0f5d272e953d363cb6f0e5d405447c01a444533")},
		{"c2=sqrt(11)", bi("31fdf302724013e57ad13fb38f842afeec184f00a74789dd286729c8303c4a59")},
		{"k10", bi("8e38e38e38e38e38e38e38e38e38e38e38e38e38e38e38e38e38e38daaaaa8c7")},
		{"k21", bi("edadc6f64383dc1df7c4b2d51b54225406d36b641f5e41bbc52a56612a8c6d14")},
		{"k40", bi("fffffffffffffffffffffffffffffffffffffffffffffffffffffffefffff93b")},
		{"n (group order as field element)", ref.N},
		{"p-n", new(big.Int).Sub(ref.P, ref.N)},
	}
	if ok {
		out = append(out, Val{"sqrt(1/11) (SWU exceptional u)", sq}, Val{"-sqrt(1/11)", ref.FpNeg(sq)})
	}
	// smallest non-residues / residues
	cnt := 0
	for i := int64(2); cnt < 4 && i < 40; i++ {
		if !ref.FpIsSquare(big.NewInt(i)) {
			out = append(out, Val{fmt.Sprintf("non-residue %d", i), big.NewInt(i)})
			cnt++
		}
	}
	return out
}

// ScalarConstants are the structured constants of the scalar-level code.
func ScalarConstants() []Val {
	return []Val{
		{"lambda", ref.Lambda}, {"-lambda", ref.ZnNeg(ref.Lambda)}, {"lambda^2", ref.ZnMul(ref.Lambda, ref.Lambda)},
		{"g1", bi("3086d221a7d46bcde86c90e49284eb153daa8a1471e8ca7fe893209a45dbb031")},
		{"g2", bi("e4437ed6010e88286f547fa90abfe4c4221208ac9df506c61571b4ae8ac47f71")},
		{"-b1", bi("e4437ed6010e88286f547fa90abfe4c3")},
		{"-b2", bi("fffffffffffffffffffffffffffffffe8a280ac50774346dd765cda83db1562c")},
		{"a1", bi("3086d221a7d46bcde86c90e49284eb15")},
		{"a2", bi("114ca50f7a8e2f3f657c1108d9d44cfd8")},
		{"p mod n", new(big.Int).Mod(ref.P, ref.N)},
	}
}

// Pair is a steered operand pair with the class it realises.
type Pair struct {
	Class string
	A, B  *big.Int
}

// SteeredPairs constructs operand pairs (as abstract values) whose *stored
// Montgomery limbs* drive the unreduced sum / difference / Montgomery product
// exactly onto the boundaries of the conditional final subtraction.
func SteeredPairs(m *big.Int, seed int64) []Pair {
	var out []Pair
	rinv := new(big.Int).ModInverse(r256, m)
	unst := func(stored *big.Int) *big.Int { // abstract value whose stored limbs are `stored`
		return new(big.Int).Mod(new(big.Int).Mul(stored, rinv), m)
	}
	d := new(big.Int).Sub(r256, m)
	rng := rand.New(rand.NewSource(seed*104729 + 3))
	storedAs := []*big.Int{
		new(big.Int).Sub(m, one), new(big.Int).Sub(m, big.NewInt(2)), new(big.Int).Rsh(m, 1),
		new(big.Int).Add(new(big.Int).Rsh(m, 1), one), new(big.Int).Sub(m, d), new(big.Int).Lsh(one, 255),
		new(big.Int).Rand(rng, m), new(big.Int).Rand(rng, m),
	}
	addTargets := map[string]*big.Int{
		"add: stored sum = m-1":     new(big.Int).Sub(m, one),
		"add: stored sum = m":       new(big.Int).Set(m),
		"add: stored sum = m+1":     new(big.Int).Add(m, one),
		"add: stored sum = 2^256-1": new(big.Int).Sub(r256, one),
		"add: stored sum = 2^256":   new(big.Int).Set(r256),
		"add: stored sum = 2^256+1": new(big.Int).Add(r256, one),
		"add: stored sum = 2m-2":    new(big.Int).Sub(new(big.Int).Lsh(m, 1), big.NewInt(2)),
		"add: stored sum = m+d-1":   new(big.Int).Add(m, new(big.Int).Sub(d, one)),
	}
	subTargets := map[string]*big.Int{
		"sub: stored diff = 0":      big.NewInt(0),
		"sub: stored diff = +1":     big.NewInt(1),
		"sub: stored diff = -1":     big.NewInt(-1),
		"sub: stored diff = -d":     new(big.Int).Neg(d),
		"sub: stored diff = -(m-1)": new(big.Int).Neg(new(big.Int).Sub(m, one)),
		"sub: stored diff = -d-1":   new(big.Int).Neg(new(big.Int).Add(d, one)),
	}
	keys := func(mm map[string]*big.Int) []string {
		var k []string
		for s := range mm {
			k = append(k, s)
		}
		sort.Strings(k)
		return k
	}
	for _, cls := range keys(addTargets) {
		t := addTargets[cls]
		for _, sa := range storedAs {
			sb := new(big.Int).Sub(t, sa)
			if sb.Sign() < 0 || sb.Cmp(m) >= 0 {
				continue
			}
			out = append(out, Pair{cls, unst(sa), unst(sb)})
		}
	}
	for _, cls := range keys(subTargets) {
		t := subTargets[cls]
		for _, sa := range storedAs {
			sb := new(big.Int).Sub(sa, t)
			if sb.Sign() < 0 || sb.Cmp(m) >= 0 {
				continue
			}
			out = append(out, Pair{cls, unst(sa), unst(sb)})
		}
	}
	// Montgomery product: T = (sa*sb + q*m)/R = m+delta before the final subtraction.
	deltas := map[string]*big.Int{
		"mul: T = m+1 (in [m,2^256))":   big.NewInt(1),
		"mul: T = m+2":                  big.NewInt(2),
		"mul: T = 2^256-2":              new(big.Int).Sub(d, big.NewInt(2)),
		"mul: T = 2^256-1":              new(big.Int).Sub(d, one),
		"mul: T = 2^256 (carry word)":   new(big.Int).Set(d),
		"mul: T = 2^256+1":              new(big.Int).Add(d, one),
		"mul: T = m (result 0)":         big.NewInt(0),
		"mul: T = m-1 (no subtraction)": big.NewInt(-1),
	}
	mulAs := []*big.Int{
		new(big.Int).Sub(m, one), new(big.Int).Sub(m, big.NewInt(2)), new(big.Int).Sub(m, big.NewInt(3)),
		new(big.Int).Sub(m, big.NewInt(5)), new(big.Int).Sub(m, new(big.Int).Lsh(one, 200)),
	}
	for _, cls := range keys(deltas) {
		dl := deltas[cls]
		tR := new(big.Int).Mul(new(big.Int).Add(m, dl), r256) // (m+delta)*R
		for _, sa := range mulAs {
			if new(big.Int).GCD(nil, nil, sa, m).Cmp(one) != 0 {
				continue
			}
			minv := new(big.Int).ModInverse(new(big.Int).Mod(m, sa), sa)
			if minv == nil {
				continue
			}
			q := new(big.Int).Mod(new(big.Int).Mul(tR, minv), sa)
			num := new(big.Int).Sub(tR, new(big.Int).Mul(q, m))
			sb, rem := new(big.Int).QuoRem(num, sa, new(big.Int))
			if rem.Sign() != 0 || sb.Sign() < 0 || sb.Cmp(m) >= 0 {
				continue
			}
			// verify: (sa*sb + q*m) == (m+delta)*R and q < R
			chk := new(big.Int).Add(new(big.Int).Mul(sa, sb), new(big.Int).Mul(q, m))
			if chk.Cmp(tR) != 0 || q.Cmp(r256) >= 0 {
				continue
			}
			out = append(out, Pair{cls, unst(sa), unst(sb)})
			if sa.Cmp(sb) != 0 {
				out = append(out, Pair{cls + " (swapped)", unst(sb), unst(sa)})
			}
		}
	}
	// Montgomery product / square whose value BEFORE the final conditional subtraction has a structured limb pattern
	// relative to the modulus (each limb one of 0, 2^64-1, m_i-1, m_i, m_i+1): the keep-or-subtract decision read from
	// the wrong limb's borrow, or a comparison that skips a limb, is wrong on some pattern. Products: solve for sb given
	// sa; squares: x = sqrt(T*R) (both roots) - the pre-subtraction value is then T or T+m.
	mask := new(big.Int).Sub(new(big.Int).Lsh(one, 64), one)
	two := new(big.Int).Lsh(m, 1)
	for pat := 0; pat < 625; pat++ {
		t := new(big.Int)
		pp := pat
		for l := 3; l >= 0; l-- {
			ml := new(big.Int).And(new(big.Int).Rsh(m, uint(64*l)), mask)
			var c *big.Int
			switch pp % 5 {
			case 0:
				c = new(big.Int)
			case 1:
				c = new(big.Int).Set(mask)
			case 2:
				c = new(big.Int).And(new(big.Int).Sub(ml, one), mask)
			case 3:
				c = ml
			default:
				c = new(big.Int).And(new(big.Int).Add(ml, one), mask)
			}
			pp /= 5
			t.Lsh(t, 64).Or(t, c)
		}
		if t.Cmp(two) >= 0 {
			continue
		}
		tR := new(big.Int).Mul(t, r256)
		cls := "mul: value before the final subtraction has a modulus-relative limb pattern"
		for _, sa := range mulAs[:2] {
			minv := new(big.Int).ModInverse(new(big.Int).Mod(m, sa), sa)
			if minv == nil {
				continue
			}
			q := new(big.Int).Mod(new(big.Int).Mul(tR, minv), sa)
			num := new(big.Int).Sub(tR, new(big.Int).Mul(q, m))
			sb, rem := new(big.Int).QuoRem(num, sa, new(big.Int))
			if rem.Sign() != 0 || sb.Sign() < 0 || sb.Cmp(m) >= 0 || q.Cmp(r256) >= 0 {
				continue
			}
			out = append(out, Pair{cls, unst(sa), unst(sb)})
		}
		if x := new(big.Int).ModSqrt(new(big.Int).Mod(tR, m), m); x != nil {
			out = append(out, Pair{"square: value before the final subtraction has a modulus-relative limb pattern", unst(x), unst(x)})
			nx := new(big.Int).Sub(m, x)
			nx.Mod(nx, m)
			out = append(out, Pair{"square: value before the final subtraction has a modulus-relative limb pattern", unst(nx), unst(nx)})
		}
	}
	return out
}

// Ctrls are the control words for conditional select / negate ("iff ctrl == 0 ... otherwise").
var Ctrls = []uint64{0, 1, 2, 1 << 32, 1 << 63, ^uint64(0), 0xfffffffffffffffe, 1 << 8}

// Uint64s are the uint64 boundary values.
var Uint64s = []uint64{0, 1, 2, 255, 256, 1<<32 - 1, 1 << 32, 1<<32 + 977, 1<<63 - 1, 1 << 63, ^uint64(0) - 1, ^uint64(0), 0xfffffffefffffc2f, 0xbfd25e8cd0364141}

// Partitions returns all set partitions of {0..k-1} as block-index vectors
// (restricted growth strings), e.g. k=3: 000 001 010 011 012.
func Partitions(k int) [][]int {
	var out [][]int
	cur := make([]int, k)
	var rec func(i, maxb int)
	rec = func(i, maxb int) {
		if i == k {
			out = append(out, append([]int{}, cur...))
			return
		}
		for b := 0; b <= maxb+1; b++ {
			cur[i] = b
			nm := maxb
			if b > maxb {
				nm = b
			}
			rec(i+1, nm)
		}
	}
	if k > 0 {
		cur[0] = 0
		rec(1, 0)
	}
	return out
}

// WordPatternStrings returns the 256-bit values whose four 64-bit words each range over a small word alphabet:
// 0, 1, 2^63, 2^64-1, the alternating masks f0f0.. / 0f0f.. / 5555.. / aaaa.., and the words of the modulus and
// their neighbours. A limb-wise comparison, range check or predicate that combines the words with the wrong
// operator (| for &, a skipped or doubled limb, a truncated word) answers wrongly on some combination.
func WordPatternStrings(m *big.Int) []*big.Int {
	mask := new(big.Int).Sub(new(big.Int).Lsh(one, 64), one)
	base := []uint64{0, 1, 1 << 63, ^uint64(0), 0xf0f0f0f0f0f0f0f0, 0x0f0f0f0f0f0f0f0f, 0x5555555555555555, 0xaaaaaaaaaaaaaaaa}
	var out []*big.Int
	n := len(base) + 3
	idx := make([]int, 4)
	for {
		v := new(big.Int)
		for l := 3; l >= 0; l-- {
			var w *big.Int
			ml := new(big.Int).And(new(big.Int).Rsh(m, uint(64*l)), mask)
			switch k := idx[l]; {
			case k < len(base):
				w = new(big.Int).SetUint64(base[k])
			case k == len(base):
				w = ml
			case k == len(base)+1:
				w = new(big.Int).And(new(big.Int).Sub(ml, one), mask)
			default:
				w = new(big.Int).And(new(big.Int).Add(ml, one), mask)
			}
			v.Lsh(v, 64).Or(v, w)
		}
		out = append(out, v)
		i := 0
		for ; i < 4; i++ {
			idx[i]++
			if idx[i] < n {
				break
			}
			idx[i] = 0
		}
		if i == 4 {
			break
		}
	}
	return out
}
