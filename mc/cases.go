package mc

import (
	"encoding/hex"
	"encoding/json"
	"fmt"
	"math/big"
	"os"
	"sort"
	"strings"
	"sync"
	"time"
)

// D is a replayable case descriptor: JSON-serialisable values only (hex
// strings, numbers, bools, string lists). A Runner re-executes exactly the
// case described by a D on fresh objects.
type D map[string]any

func (d D) S(k string) string {
	s, _ := d[k].(string)
	return s
}

func (d D) I(k string) int {
	switch v := d[k].(type) {
	case int:
		return v
	case int64:
		return int(v)
	case uint64:
		return int(v)
	case float64:
		return int(v)
	case json.Number:
		i, _ := v.Int64()
		return int(i)
	}
	return 0
}

func (d D) U64(k string) uint64 {
	switch v := d[k].(type) {
	case string: // large values are stored as hex strings
		x, _ := new(big.Int).SetString(strings.TrimPrefix(v, "0x"), 16)
		if x == nil {
			return 0
		}
		return x.Uint64()
	}
	return uint64(d.I(k))
}

func (d D) Bool(k string) bool {
	b, _ := d[k].(bool)
	return b
}

// B decodes a hex string field.
func (d D) B(k string) []byte {
	b, err := hex.DecodeString(d.S(k))
	if err != nil {
		return nil
	}
	if b == nil {
		b = []byte{}
	}
	return b
}

// Has reports presence of a key (absent hex fields mean nil slices).
func (d D) Has(k string) bool { _, ok := d[k]; return ok }

// Big decodes a hex string field into an integer.
func (d D) Big(k string) *big.Int {
	x, ok := new(big.Int).SetString(d.S(k), 16)
	if !ok {
		return new(big.Int)
	}
	return x
}

// L returns a list field as []string.
func (d D) L(k string) []string {
	switch v := d[k].(type) {
	case []string:
		return v
	case []any:
		out := make([]string, len(v))
		for i := range v {
			out[i], _ = v[i].(string)
		}
		return out
	}
	return nil
}

// IL returns a list field as []int.
func (d D) IL(k string) []int {
	switch v := d[k].(type) {
	case []int:
		return v
	case []any:
		out := make([]int, len(v))
		for i := range v {
			f, _ := v[i].(float64)
			out[i] = int(f)
		}
		return out
	}
	return nil
}

// Runner executes one case and returns "" or a description of the mismatch.
type Runner func(d D) string

var runners = map[string]Runner{}

// Register installs the single-case runner for a case kind.
func Register(kind string, r Runner) { runners[kind] = r }

func norm(d D) D {
	b, err := json.Marshal(d)
	if err != nil {
		panic("mc: case descriptor not serialisable: " + err.Error())
	}
	var out D
	json.Unmarshal(b, &out)
	return out
}

// Exec runs the registered runner for kind on d, converting panics of the
// harness/implementation into a mismatch string.
func Exec(kind string, d D) (m string) {
	r := runners[kind]
	if r == nil {
		return "no runner registered for kind " + kind
	}
	return Safe(func() string { return r(d) })
}

// CaseTimeout is the watchdog for a single case (cases take micro- to milliseconds; a case that does
// not finish is reported as non-termination instead of hanging the explorer).
var CaseTimeout = func() time.Duration {
	if s := os.Getenv("VERIF_CASE_TIMEOUT_S"); s != "" {
		if v, err := time.ParseDuration(s + "s"); err == nil {
			return v
		}
	}
	return 120 * time.Second
}()

// TimeoutPrefix marks a mismatch produced by the watchdog.
const TimeoutPrefix = "timeout: "

// Run executes one case (one lock-step transition); on a mismatch the case is
// re-run 4 more times from its serialised descriptor (exactly what a replay
// would do) and recorded as a violation under key.
func (r *Report) Run(key, kind string, d D) bool {
	r.T(1)
	m := Exec(kind, d)
	if m == "" {
		return true
	}
	r.Mismatch(key, kind, m, d)
	return false
}

// Mismatch records a violation found by a hot loop that did not go through
// Run: d must describe the case for the registered runner of kind.
func (r *Report) Mismatch(key, kind, mismatch string, d D) {
	nd := norm(d)
	det := map[string]any{}
	for k, v := range nd {
		det[k] = v
	}
	det["mismatch"] = mismatch
	if runners[kind] == nil || strings.HasPrefix(mismatch, TimeoutPrefix) {
		// a non-terminating case is not re-run (each re-run would block for the watchdog period)
		if strings.HasPrefix(mismatch, TimeoutPrefix) {
			r.mu.Lock()
			r.timeouts++
			if r.timeouts >= 3 { // stop exploring: every further hang costs a watchdog period
				r.deadline = time.Now()
				StopAll.Store(true)
				r.caps = append(r.caps, "exploration stopped after 3 non-terminating cases")
				r.notExh = true
			}
			r.mu.Unlock()
		}
		r.Fail(key, kind, det, nil)
		return
	}
	r.Fail(key, kind, det, func() bool { return Exec(kind, nd) != "" })
}

// MaybeReplay handles `-replay <file>`: runs the recorded case once through
// its runner, prints the outcome and exits (1 = still fails).
func MaybeReplay() {
	MaybeCold()
	if len(os.Args) > 2 && os.Args[1] == "-replay" {
		v := LoadReplay(os.Args[2])
		d := D(v.Detail)
		keys := make([]string, 0, len(d))
		for k := range d {
			keys = append(keys, k)
		}
		sort.Strings(keys)
		fmt.Printf("replay %s key=%s kind=%s\n", v.Property, v.Key, v.Kind)
		for _, k := range keys {
			fmt.Printf("  %s = %v\n", k, d[k])
		}
		if runners[v.Kind] == nil {
			fmt.Println("no single-case runner for this kind; re-run the check to reproduce")
			os.Exit(2)
		}
		if cs, _ := d["cold_start"].(bool); cs {
			ReplayResult(v, ColdExec(v.Kind, d))
		}
		if nc, _ := d["needs_concurrency"].(bool); nc {
			// the recorded case only fails while the same call runs on other goroutines
			if solo := Exec(v.Kind, d); solo != "" {
				ReplayResult(v, solo)
			}
			var mu sync.Mutex
			last := ""
			f, total := ConcurrentReruns(func() bool {
				m := Exec(v.Kind, d)
				if m != "" {
					mu.Lock()
					last = m
					mu.Unlock()
				}
				return m != ""
			})
			fmt.Printf("  concurrent re-runs: %d of %d failed\n", f, total)
			ReplayResult(v, last)
		}
		ReplayResult(v, Exec(v.Kind, d))
	}
}

// HexBig formats an integer as 64 hex digits (or more if larger).
func HexBig(v *big.Int) string { return fmt.Sprintf("%064x", v) }

// Safe runs a single-case runner, converting a panic (of the implementation
// or of the harness) into a mismatch string so that it is reported with its
// case descriptor instead of killing the explorer.
func Safe(f func() string) string {
	done := make(chan string, 1)
	go func() {
		defer func() {
			if x := recover(); x != nil {
				done <- fmt.Sprint("panic: ", x)
			}
		}()
		done <- f()
	}()
	t := time.NewTimer(CaseTimeout)
	defer t.Stop()
	select {
	case m := <-done:
		return m
	case <-t.C:
		return TimeoutPrefix + fmt.Sprintf("the case did not finish within %v (non-termination of the library or of the harness on this input)", CaseTimeout)
	}
}
