package mc

import (
	"bytes"
	"encoding/json"
	"fmt"
	"os"
	"os/exec"
	"strings"
)

// Cold start: the same single-case runner, but as the FIRST thing a fresh process does with the library. Whatever the
// library builds lazily (tables unpacked on first use, caches, pools, registered hashes) has not been touched by any
// earlier operation, so "the first call of the process is <this operation>" becomes a dimension of the explored space.
// The child is this very binary started with  -cold <kind> <descriptor JSON> ; it prints one line
// "COLD-RESULT <json string>" with the runner's mismatch text ("" = agrees with the model).

const coldMarker = "COLD-RESULT "

// MaybeCold handles the child side; it is called from MaybeReplay (every check calls that after registering its
// runners and before touching the library).
func MaybeCold() {
	if len(os.Args) == 4 && os.Args[1] == "-cold" {
		var d D
		if err := json.Unmarshal([]byte(os.Args[3]), &d); err != nil {
			fmt.Println("cold: bad descriptor:", err)
			os.Exit(2)
		}
		m := Exec(os.Args[2], d)
		b, _ := json.Marshal(m)
		fmt.Println(coldMarker + string(b))
		os.Exit(0)
	}
}

// ColdExec runs the registered runner of kind on d in a fresh process and returns its mismatch text.
func ColdExec(kind string, d D) string {
	js, err := json.Marshal(norm(d))
	if err != nil {
		return "cold: descriptor not serialisable"
	}
	cmd := exec.Command(os.Args[0], "-cold", kind, string(js))
	cmd.Env = os.Environ()
	var out, errb bytes.Buffer
	cmd.Stdout, cmd.Stderr = &out, &errb
	runErr := cmd.Run()
	for _, l := range strings.Split(out.String(), "\n") {
		if strings.HasPrefix(l, coldMarker) {
			var m string
			if json.Unmarshal([]byte(l[len(coldMarker):]), &m) == nil {
				return m
			}
		}
	}
	tail := errb.String()
	if len(tail) > 600 {
		tail = tail[len(tail)-600:]
	}
	return fmt.Sprintf("the fresh process running this case as its first library operation died without a result (%v): %s", runErr, tail)
}

// Cold executes one case as the first library operation of a fresh process (one lock-step transition); a mismatch is
// re-run in 4 more fresh processes before it is recorded under key.
func (r *Report) Cold(key, kind string, d D) bool {
	r.T(1)
	r.Class("cases executed as the first library operation of a fresh process (cold start)", 1)
	m := ColdExec(kind, d)
	if m == "" {
		return true
	}
	nd := norm(d)
	det := map[string]any{}
	for k, v := range nd {
		det[k] = v
	}
	det["mismatch"] = m
	det["cold_start"] = true
	det["what"] = "the case agrees with the model inside the long-running exploration process or not - here it was run as the FIRST library operation of a fresh process"
	r.Fail(key+"/cold start", kind, det, func() bool { return ColdExec(kind, nd) != "" })
	return false
}
