package mc

// Byte-string deviations: bounded departures from a well-formed skeleton.
// Every enumerator calls fn with a FRESH slice (safe to retain / mutate).

// GrammarBytes is the grammar-aware value alphabet used for 2-deviation enumeration.
var GrammarBytes = []byte{0x00, 0x01, 0x02, 0x03, 0x04, 0x05, 0x06, 0x07, 0x10, 0x20, 0x21, 0x30, 0x31, 0x40, 0x41, 0x42, 0x7f, 0x80, 0x81, 0x82, 0xa0, 0xfe, 0xff}

func allBytes() []byte {
	b := make([]byte, 256)
	for i := range b {
		b[i] = byte(i)
	}
	return b
}

// Subst1 enumerates every single-byte substitution (vals == nil: all 256 values).
func Subst1(base []byte, vals []byte, fn func(b []byte, pos int, val byte)) int {
	if vals == nil {
		vals = allBytes()
	}
	n := 0
	for pos := range base {
		for _, v := range vals {
			if v == base[pos] {
				continue
			}
			b := append([]byte{}, base...)
			b[pos] = v
			fn(b, pos, v)
			n++
		}
	}
	return n
}

// Subst2 enumerates every pair of substitutions at positions i<j over vals.
func Subst2(base []byte, vals []byte, fn func(b []byte)) int {
	n := 0
	for i := 0; i < len(base); i++ {
		for _, vi := range vals {
			if vi == base[i] {
				continue
			}
			for j := i + 1; j < len(base); j++ {
				for _, vj := range vals {
					if vj == base[j] {
						continue
					}
					b := append([]byte{}, base...)
					b[i], b[j] = vi, vj
					fn(b)
					n++
				}
			}
		}
	}
	return n
}

// Truncations enumerates every proper prefix (including the empty string).
func Truncations(base []byte, fn func(b []byte)) int {
	for l := 0; l < len(base); l++ {
		fn(append([]byte{}, base[:l]...))
	}
	return len(base)
}

// Extensions appends every string of length 1..maxExtra over vals.
func Extensions(base []byte, vals []byte, maxExtra int, fn func(b []byte)) int {
	n := 0
	var rec func(cur []byte, left int)
	rec = func(cur []byte, left int) {
		if len(cur) > len(base) {
			fn(append([]byte{}, cur...))
			n++
		}
		if left == 0 {
			return
		}
		for _, v := range vals {
			rec(append(cur, v), left-1)
		}
	}
	rec(append([]byte{}, base...), maxExtra)
	return n
}

// Insert1 inserts one byte from vals at every position (0..len).
func Insert1(base []byte, vals []byte, fn func(b []byte)) int {
	n := 0
	for pos := 0; pos <= len(base); pos++ {
		for _, v := range vals {
			b := make([]byte, 0, len(base)+1)
			b = append(b, base[:pos]...)
			b = append(b, v)
			b = append(b, base[pos:]...)
			fn(b)
			n++
		}
	}
	return n
}

// Delete1 deletes one byte at every position.
func Delete1(base []byte, fn func(b []byte)) int {
	for pos := range base {
		b := make([]byte, 0, len(base)-1)
		b = append(b, base[:pos]...)
		b = append(b, base[pos+1:]...)
		fn(b)
	}
	return len(base)
}

// AllStrings enumerates every string of length 0..maxLen over vals.
func AllStrings(vals []byte, maxLen int, fn func(b []byte)) int {
	n := 0
	var rec func(cur []byte)
	rec = func(cur []byte) {
		fn(append([]byte{}, cur...))
		n++
		if len(cur) == maxLen {
			return
		}
		for _, v := range vals {
			rec(append(cur, v))
		}
	}
	rec(nil)
	return n
}
