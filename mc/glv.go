package mc

import (
	"fmt"
	"math/big"
	"strings"

	"verif/ref"
)

// GLV lattice basis for secp256k1 (v1 = (a1,b1), v2 = (a2,b2), a_i + b_i*lambda = 0 mod n)
// and the rounding constants g_i = round(2^384 * b / n). Verified by GLVSelfTest.
var (
	GlvA1 = bi("3086d221a7d46bcde86c90e49284eb15")
	GlvB1 = new(big.Int).Neg(bi("e4437ed6010e88286f547fa90abfe4c3"))
	GlvA2 = bi("114ca50f7a8e2f3f657c1108d9d44cfd8")
	GlvB2 = bi("3086d221a7d46bcde86c90e49284eb15")
	GlvG1 = bi("3086d221a7d46bcde86c90e49284eb153daa8a1471e8ca7fe893209a45dbb031")
	GlvG2 = bi("e4437ed6010e88286f547fa90abfe4c4221208ac9df506c61571b4ae8ac47f71")
)

func roundDiv(a, b *big.Int) *big.Int { // round(a/b), b > 0, a >= 0
	t := new(big.Int).Lsh(a, 1)
	t.Add(t, b)
	return t.Div(t, new(big.Int).Lsh(b, 1))
}

// GLVSelfTest checks the lattice facts the alphabet construction relies on.
func GLVSelfTest() error {
	for i, v := range [][2]*big.Int{{GlvA1, GlvB1}, {GlvA2, GlvB2}} {
		if ref.ModN(new(big.Int).Add(v[0], new(big.Int).Mul(v[1], ref.Lambda))).Sign() != 0 {
			return fmt.Errorf("a%d + b%d*lambda != 0 mod n", i+1, i+1)
		}
	}
	det := new(big.Int).Sub(new(big.Int).Mul(GlvA1, GlvB2), new(big.Int).Mul(GlvA2, GlvB1))
	if det.Cmp(ref.N) != 0 {
		return fmt.Errorf("lattice determinant != n")
	}
	two384 := new(big.Int).Lsh(big.NewInt(1), 384)
	if roundDiv(new(big.Int).Mul(two384, GlvB2), ref.N).Cmp(GlvG1) != 0 {
		return fmt.Errorf("g1 != round(2^384*b2/n)")
	}
	if roundDiv(new(big.Int).Mul(two384, new(big.Int).Neg(GlvB1)), ref.N).Cmp(GlvG2) != 0 {
		return fmt.Errorf("g2 != round(2^384*(-b1)/n)")
	}
	return nil
}

// GLVRefSplit is Algorithm 3.74 (balanced length-two representation) with exact rounding.
func GLVRefSplit(k *big.Int) (k1, k2 *big.Int) {
	c1 := roundDiv(new(big.Int).Mul(GlvB2, k), ref.N)
	c2 := roundDiv(new(big.Int).Mul(new(big.Int).Neg(GlvB1), k), ref.N)
	k1 = new(big.Int).Sub(k, new(big.Int).Add(new(big.Int).Mul(c1, GlvA1), new(big.Int).Mul(c2, GlvA2)))
	k2 = new(big.Int).Neg(new(big.Int).Add(new(big.Int).Mul(c1, GlvB1), new(big.Int).Mul(c2, GlvB2)))
	return
}

// GLVScalars builds the GLV-steered scalar alphabet: corner scalars (a split
// half at its extreme magnitude), rounding-bit scalars (bit 383 of s*g flips;
// rounded quotient carries across a 64-bit limb) and single-nibble halves.
func GLVScalars(full bool) []Val {
	s := &valSet{m: ref.N, seen: map[string]bool{}}
	comb := func(k1, k2 *big.Int) *big.Int {
		return ref.ModN(new(big.Int).Add(k1, new(big.Int).Mul(k2, ref.Lambda)))
	}
	// (i) corners of the fundamental parallelogram: 1/2(+-v1 +- v2) + (d1,d2)
	for _, s1 := range []int64{1, -1} {
		for _, s2 := range []int64{1, -1} {
			c1 := new(big.Int).Add(new(big.Int).Mul(big.NewInt(s1), GlvA1), new(big.Int).Mul(big.NewInt(s2), GlvA2))
			c2 := new(big.Int).Add(new(big.Int).Mul(big.NewInt(s1), GlvB1), new(big.Int).Mul(big.NewInt(s2), GlvB2))
			c1.Rsh(c1, 1) // arithmetic shift: floor(./2)
			c2.Rsh(c2, 1)
			for d1 := int64(-2); d1 <= 2; d1++ {
				for d2 := int64(-2); d2 <= 2; d2++ {
					if !full && (d1+d2)%2 != 0 {
						continue
					}
					k1 := new(big.Int).Add(c1, big.NewInt(d1))
					k2 := new(big.Int).Add(c2, big.NewInt(d2))
					s.add(fmt.Sprintf("GLV corner (%+d v1 %+d v2)/2 + (%d,%d)", s1, s2, d1, d2), comb(k1, k2))
				}
			}
		}
	}
	// (ii) rounding-bit scalars: s*g crosses (2m+1)*2^383
	one := big.NewInt(1)
	p2 := func(k uint) *big.Int { return new(big.Int).Lsh(one, k) }
	ms := []*big.Int{big.NewInt(0), one, big.NewInt(2), p2(63), new(big.Int).Sub(p2(64), one), p2(64), new(big.Int).Add(p2(64), one), p2(127),
		new(big.Int).Sub(p2(65), one), new(big.Int).Sub(new(big.Int).Mul(big.NewInt(3), p2(64)), one), new(big.Int).Sub(p2(127), one), new(big.Int).Sub(new(big.Int).Mul(big.NewInt(0x1234), p2(64)), one)}
	for gi, g := range []*big.Int{GlvG1, GlvG2} {
		for _, m := range ms {
			t := new(big.Int).Mul(new(big.Int).Add(new(big.Int).Lsh(m, 1), one), p2(383)) // (2m+1) 2^383
			q := new(big.Int).Div(new(big.Int).Add(t, new(big.Int).Sub(g, one)), g)       // ceil(t/g)
			for d := int64(-1); d <= 1; d++ {
				v := new(big.Int).Add(q, big.NewInt(d))
				if v.Sign() >= 0 && v.Cmp(ref.N) < 0 {
					s.add(fmt.Sprintf("rounding bit: s*g%d crosses (2m+1)2^383, m=%x, %+d", gi+1, m, d), v)
				}
			}
			// quotient = m + 1 - epsilon: floor((m+1) 2^384 / g) and neighbours (carry across the limb when m = 2^64-1)
			q2 := new(big.Int).Div(new(big.Int).Mul(new(big.Int).Add(m, one), p2(384)), g)
			for d := int64(-1); d <= 1; d++ {
				v := new(big.Int).Add(q2, big.NewInt(d))
				if v.Sign() >= 0 && v.Cmp(ref.N) < 0 {
					s.add(fmt.Sprintf("quotient boundary: s*g%d ~ (m+1)2^384, m=%x, %+d", gi+1, m, d), v)
				}
			}
		}
	}
	// (iii) halves with one non-zero nibble (every window position of the 16-byte ladder), both signs
	for pos := uint(0); pos < 32; pos++ {
		vals := []int64{1, 8, 15}
		if full {
			vals = []int64{1, 2, 3, 4, 5, 6, 7, 8, 9, 10, 11, 12, 13, 14, 15}
		}
		for _, nv := range vals {
			h := new(big.Int).Lsh(big.NewInt(nv), 4*pos)
			s.add(fmt.Sprintf("k1 = %d*16^%d, k2 = 0", nv, pos), comb(h, big.NewInt(0)))
			s.add(fmt.Sprintf("k1 = 0, k2 = %d*16^%d", nv, pos), comb(big.NewInt(0), h))
			if nv == 15 || full && nv == 1 {
				s.add(fmt.Sprintf("k1 = -%d*16^%d, k2 = 0", nv, pos), comb(new(big.Int).Neg(h), big.NewInt(0)))
				s.add(fmt.Sprintf("k1 = 0, k2 = -%d*16^%d", nv, pos), comb(big.NewInt(0), new(big.Int).Neg(h)))
				s.add(fmt.Sprintf("k1 = k2 = %d*16^%d", nv, pos), comb(h, h))
				s.add(fmt.Sprintf("k1 = -k2 = %d*16^%d", nv, pos), comb(h, new(big.Int).Neg(h)))
			}
		}
	}
	// (iv) both halves non-zero with zero digits at the SAME positions: a window loop that defers, batches or skips work
	// for all-zero positions (of both halves together) takes its special path only here - trailing zero bytes, leading
	// zero bytes, a zero byte / nibble in the middle
	for _, t := range []uint{1, 2, 7, 15} {
		sh := 8 * t
		for _, ab := range [][2]int64{{3, 5}, {0x1ff, 0x101}, {-7, 0xb}, {0x80, -0x11}} {
			if t == 15 && (ab[0] > 255 || ab[0] < -255 || ab[1] > 255) {
				continue
			}
			k1 := new(big.Int).Lsh(big.NewInt(ab[0]), sh)
			k2 := new(big.Int).Lsh(big.NewInt(ab[1]), sh)
			s.add(fmt.Sprintf("shared zero digits: k1 = %d*256^%d, k2 = %d*256^%d (trailing zero bytes in both halves)", ab[0], t, ab[1], t), comb(k1, k2))
		}
	}
	for _, mid := range []uint{1, 8, 14} {
		hi := new(big.Int).Lsh(big.NewInt(0x5), 8*(mid+1))
		k1 := new(big.Int).Add(hi, big.NewInt(0x3))
		k2 := new(big.Int).Add(new(big.Int).Lsh(big.NewInt(0x9), 8*(mid+1)), big.NewInt(0xb))
		s.add(fmt.Sprintf("shared zero digits: bytes 1..%d zero in both halves (k1 = 5*256^%d + 3, k2 = 9*256^%d + 11)", mid, mid+1, mid+1), comb(k1, k2))
		s.add(fmt.Sprintf("shared zero digits: bytes 1..%d zero in both halves, k2 negative", mid), comb(k1, new(big.Int).Neg(k2)))
	}
	s.add("shared zero digits: low nibble zero in both halves (k1 = 0x30, k2 = 0x50)", comb(big.NewInt(0x30), big.NewInt(0x50)))
	s.add("shared zero digits: short halves (k1 = 3, k2 = 5: fifteen leading zero bytes)", comb(big.NewInt(3), big.NewInt(5)))
	// halves just below / at / above 2^127 and 2^128 - 1 (as far as the lattice admits them)
	for _, h := range []*big.Int{new(big.Int).Sub(p2(127), one), p2(127), new(big.Int).Sub(p2(128), one), new(big.Int).Sub(p2(120), one), p2(120)} {
		s.add(fmt.Sprintf("k1 = %x, k2 = 1", h), comb(h, one))
		s.add(fmt.Sprintf("k1 = 1, k2 = %x", h), comb(one, h))
		s.add(fmt.Sprintf("k1 = -%x, k2 = -1", h), comb(new(big.Int).Neg(h), big.NewInt(-1)))
	}
	return s.out
}

// EndoWindowScalars returns the scalars s = S + w*B^i (window width b in {4, 8}, B = 2^b) for which the partial sum S
// accumulated by a windowed fixed-base multiplication before window i is added - the higher windows (top-down
// order) or the lower windows (bottom-up order) - satisfies S = +-lambda^k * (w*B^i) (mod n), k in {1, 2}: the
// accumulator S*G and the table entry (w*B^i)*G are then DISTINCT points with the same y-coordinate (or opposite y),
// because (x, y) -> (beta*x, y) is the endomorphism lambda. An addition formula or a "same point / inverse point"
// shortcut that looks at one coordinate only is wrong exactly there. A handful of scalars exist per window width.
func EndoWindowScalars() []Val {
	var out []Val
	l2 := new(big.Int).Mod(new(big.Int).Mul(ref.Lambda, ref.Lambda), ref.N)
	for _, b := range []uint{4, 8} {
		nw := 256 / b
		for i := uint(0); i < nw; i++ {
			bi := new(big.Int).Lsh(big.NewInt(1), b*i)
			bi1 := new(big.Int).Lsh(big.NewInt(1), b*(i+1))
			for w := int64(1); w < 1<<b; w++ {
				term := new(big.Int).Mul(big.NewInt(w), bi)
				if term.Cmp(ref.N) >= 0 {
					continue
				}
				for k, lk := range []*big.Int{ref.Lambda, l2} {
					for _, neg := range []bool{false, true} {
						t := new(big.Int).Mul(lk, term)
						if neg {
							t.Neg(t)
						}
						t.Mod(t, ref.N)
						s := new(big.Int).Add(t, term)
						if s.Cmp(ref.N) >= 0 || t.Sign() == 0 {
							continue
						}
						if new(big.Int).Mod(t, bi1).Sign() == 0 { // t is a sum of higher windows
							out = append(out, Val{fmt.Sprintf("endomorphism/window: %d-bit windows, top-down, before window %d (digit %d) the partial sum is %slambda^%d times the table entry", b, i, w, map[bool]string{false: "", true: "-"}[neg], k+1), s})
						}
						if t.Cmp(bi) < 0 { // t is a sum of lower windows
							out = append(out, Val{fmt.Sprintf("endomorphism/window: %d-bit windows, bottom-up, before window %d (digit %d) the partial sum is %slambda^%d times the table entry", b, i, w, map[bool]string{false: "", true: "-"}[neg], k+1), s})
						}
					}
				}
			}
		}
	}
	return out
}

// GLVVerifierSubset: the GLV-steered scalars worth constructing whole signatures around (u2 = s/r of a verifier or of
// key recovery): every rounding / quotient boundary scalar that the quick tiers keep, the lattice corners, and the
// splits with an empty half (k1 = 0 or k2 = 0: the scalar is a small multiple of lambda, or short) or equal halves.
func GLVVerifierSubset(th bool) []Val {
	var out []Val
	for gi, gv := range GLVScalars(false) {
		l := gv.Label
		switch {
		case strings.HasPrefix(l, "rounding") || strings.HasPrefix(l, "quotient"):
			if !th && !(strings.Contains(l, "m=ffffffffffffffff,") || strings.Contains(l, "m=0,") || gi%7 == 0) {
				continue
			}
		case strings.HasPrefix(l, "GLV corner"), strings.HasPrefix(l, "shared zero digits"):
		case strings.HasPrefix(l, "k1 = 0, k2 =") || strings.HasSuffix(l, ", k2 = 0") || strings.HasPrefix(l, "k1 = k2") || strings.HasPrefix(l, "k1 = -k2"):
			if !th && !(strings.HasSuffix(l, "16^0") || strings.HasSuffix(l, "16^0, k2 = 0") || strings.Contains(l, "16^31") || strings.Contains(l, "16^16")) {
				continue
			}
		default:
			continue
		}
		out = append(out, gv)
	}
	return out
}
