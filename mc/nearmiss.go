package mc

import (
	"fmt"
	"math/big"

	"verif/ref"
)

// Near misses of an equality test. The library decides "a == b" on 4x64-bit stored (Montgomery) limbs; a test that
// ignores, mis-combines or short-cuts one limb is only visible on a pair of values that differ in that limb ALONE.
// LimbNearMisses(v, m) returns values v' != v below m whose stored representation v'*2^256 mod m differs from that of v
//   - in exactly one limb j (by +1, by the top bit, by all bits), for every j;
//   - in two limbs whose differences cancel under addition (+1 in one, -1 in the other) or under XOR (the same bit),
//
// and the same for the canonical (plain integer) representation. Labels say which.
func LimbNearMisses(v, m *big.Int) []Val {
	R := new(big.Int).Lsh(big.NewInt(1), 256)
	Rinv := new(big.Int).ModInverse(R, m)
	mask := new(big.Int).Sub(new(big.Int).Lsh(big.NewInt(1), 64), big.NewInt(1))
	limb := func(x *big.Int, j int) *big.Int {
		return new(big.Int).And(new(big.Int).Rsh(x, uint(64*j)), mask)
	}
	setLimb := func(x *big.Int, j int, w *big.Int) *big.Int {
		o := new(big.Int).Set(x)
		o.Sub(o, new(big.Int).Lsh(limb(x, j), uint(64*j)))
		return o.Add(o, new(big.Int).Lsh(new(big.Int).And(w, mask), uint(64*j)))
	}
	var out []Val
	seen := map[string]bool{}
	for _, mont := range []bool{true, false} {
		T := new(big.Int).Set(v)
		dom := "canonical"
		if mont {
			T.Mul(T, R).Mod(T, m)
			dom = "stored"
		}
		emit := func(label string, T2 *big.Int) {
			if T2.Cmp(m) >= 0 || T2.Sign() < 0 || T2.Cmp(T) == 0 {
				return
			}
			w := new(big.Int).Set(T2)
			if mont {
				w.Mul(w, Rinv).Mod(w, m)
			}
			if w.Cmp(v) == 0 || seen[w.String()] {
				return
			}
			seen[w.String()] = true
			out = append(out, Val{Label: label, V: w})
		}
		for j := 0; j < 4; j++ {
			l := limb(T, j)
			emit(fmt.Sprintf("%s limb %d + 1", dom, j), setLimb(T, j, new(big.Int).Add(l, big.NewInt(1))))
			emit(fmt.Sprintf("%s limb %d - 1", dom, j), setLimb(T, j, new(big.Int).Add(l, mask))) // -1 mod 2^64
			emit(fmt.Sprintf("%s limb %d top bit flipped", dom, j), setLimb(T, j, new(big.Int).Xor(l, new(big.Int).Lsh(big.NewInt(1), 63))))
			emit(fmt.Sprintf("%s limb %d all bits flipped", dom, j), setLimb(T, j, new(big.Int).Xor(l, mask)))
			for k := j + 1; k < 4; k++ { // the SAME bit flipped in two limbs: the differences cancel under XOR
				for _, bit := range []uint{0, 63} {
					m := new(big.Int).Lsh(big.NewInt(1), bit)
					t2 := setLimb(T, j, new(big.Int).Xor(l, m))
					t2 = setLimb(t2, k, new(big.Int).Xor(limb(T, k), m))
					emit(fmt.Sprintf("%s limbs %d and %d with bit %d flipped in both (differences cancel under XOR)", dom, j, k, bit), t2)
				}
			}
			for k := 0; k < 4; k++ {
				if k == j {
					continue
				}
				t2 := setLimb(T, j, new(big.Int).Add(l, big.NewInt(1)))
				t2 = setLimb(t2, k, new(big.Int).Add(limb(T, k), mask))
				emit(fmt.Sprintf("%s limb %d + 1 and limb %d - 1 (differences cancel under addition)", dom, j, k), t2)
			}
		}
	}
	return out
}

// NearMissOffCurve returns coordinate pairs (x, y) that are NOT on y^2 = x^3 + 7 although y^2 is a limb near miss
// (LimbNearMisses) of x^3 + 7: for every kind of near miss the smallest x = 1, 2, 3 ... for which the altered value is a
// square. An on-curve test whose final comparison mishandles one limb accepts exactly such pairs.
func NearMissOffCurve() []struct {
	Label string
	X, Y  *big.Int
} {
	var out []struct {
		Label string
		X, Y  *big.Int
	}
	want := map[string]bool{}
	for x := int64(1); x < 400; x++ {
		X := big.NewInt(x)
		rhs := new(big.Int).Exp(X, big.NewInt(3), ref.P)
		rhs.Add(rhs, big.NewInt(7)).Mod(rhs, ref.P)
		for _, nm := range LimbNearMisses(rhs, ref.P) {
			if want[nm.Label] {
				continue
			}
			if y, ok := ref.FpSqrt(nm.V); ok {
				want[nm.Label] = true
				out = append(out, struct {
					Label string
					X, Y  *big.Int
				}{fmt.Sprintf("y^2 = x^3+7 except %s (x = %d)", nm.Label, x), X, y})
			}
		}
	}
	return out
}

// SEC1Extras returns 33/65-byte strings that every entry point accepting an encoded public point must get right and
// that no boundary list reaches by itself: (a) the near-miss off-curve pairs of NearMissOffCurve as uncompressed
// encodings; (b) non-canonical aliases spread over the whole window [p, 2^256): for window offsets v in {0, 1, 976, 977,
// 978, 2^k, 2^k +- 1 (k = 8..32), 2^32+975, 2^32+976} the first curve point with x >= v (and with y >= v) whose
// coordinate plus p still fits in 32 bytes, encoded with that coordinate replaced by coordinate + p (compressed with
// both prefixes, uncompressed). All of (b) must be rejected: the coordinate is not canonical.
func SEC1Extras() [][]byte {
	var out [][]byte
	cat := func(parts ...[]byte) []byte {
		var o []byte
		for _, p := range parts {
			o = append(o, p...)
		}
		return o
	}
	for _, nm := range NearMissOffCurve() {
		out = append(out, cat([]byte{4}, ref.B32(nm.X), ref.B32(nm.Y)))
	}
	var offs []*big.Int
	for _, v := range []int64{0, 1, 976, 977, 978} {
		offs = append(offs, big.NewInt(v))
	}
	for k := uint(8); k <= 32; k++ {
		p2 := new(big.Int).Lsh(big.NewInt(1), k)
		offs = append(offs, p2, new(big.Int).Add(p2, big.NewInt(1)), new(big.Int).Sub(p2, big.NewInt(1)))
	}
	offs = append(offs, new(big.Int).Sub(ref.C, big.NewInt(2)), new(big.Int).Sub(ref.C, big.NewInt(1)))
	seen := map[string]bool{}
	for _, v := range offs {
		// x in the window
		for x, n := new(big.Int).Set(v), 0; n < 64 && x.Cmp(ref.C) < 0; x, n = new(big.Int).Add(x, big.NewInt(1)), n+1 {
			pt, ok := ref.LiftX(x, 0)
			if !ok {
				continue
			}
			if !seen["x"+x.String()] {
				seen["x"+x.String()] = true
				xa := ref.B32(new(big.Int).Add(x, ref.P))
				out = append(out, cat([]byte{2}, xa), cat([]byte{3}, xa), cat([]byte{4}, xa, ref.B32(pt.Y)), cat([]byte{4}, xa, ref.B32(ref.FpNeg(pt.Y))))
			}
			break
		}
		// y in the window: x^3 = y^2 - 7 needs a cube root
		for y, n := new(big.Int).Set(v), 0; n < 64 && y.Cmp(ref.C) < 0; y, n = new(big.Int).Add(y, big.NewInt(1)), n+1 {
			t := new(big.Int).Mul(y, y)
			t.Sub(t, big.NewInt(7)).Mod(t, ref.P)
			rs := cubeRoots(t)
			if len(rs) == 0 {
				continue
			}
			if !seen["y"+y.String()] {
				seen["y"+y.String()] = true
				out = append(out, cat([]byte{4}, ref.B32(rs[0]), ref.B32(new(big.Int).Add(y, ref.P))))
			}
			break
		}
	}
	return out
}

// SmallMulOverflowZ: projective scalings Z for which a value the group formulas multiply by a small curve constant
// (b3 = 21; also 3 and 7) sits, in its STORED form m, right at a wrap of c*m past a multiple of 2^256:
// m = floor(k*2^256/c) + {-1, 0, 1} for every k = 1 .. c-1. A multiply-by-constant written by hand (shift-and-add,
// fold the overflow back with 2^256 = 2^32 + 977) is only wrong when the top carry it forgets actually occurs.
// The formulas multiply Z1*Z2 (addition), Z^2 (doubling) and (x1 + x2)*Z1*Z2 (the cross term) by b3, so for each target
// stored value three scalings are produced: Z itself, a square root of it, and it divided by (x1 + x2).
func SmallMulOverflowZ(x1, x2 *big.Int) []Val {
	R := new(big.Int).Lsh(big.NewInt(1), 256)
	Rinv := new(big.Int).ModInverse(R, ref.P)
	sum := ref.ModP(new(big.Int).Add(x1, x2))
	var out []Val
	seen := map[string]bool{}
	add := func(l string, z *big.Int) {
		if z.Sign() == 0 || seen[z.String()] {
			return
		}
		seen[z.String()] = true
		out = append(out, Val{l, z})
	}
	for _, c := range []int64{3, 7, 21} {
		for k := int64(1); k < c; k++ {
			base := new(big.Int).Mul(big.NewInt(k), R)
			base.Div(base, big.NewInt(c))
			for d := int64(-1); d <= 1; d++ {
				m := new(big.Int).Add(base, big.NewInt(d))
				if m.Sign() <= 0 || m.Cmp(ref.P) >= 0 {
					continue
				}
				T := ref.ModP(new(big.Int).Mul(m, Rinv))
				l := fmt.Sprintf("stored value floor(%d*2^256/%d)%+d", k, c, d)
				add("Z: "+l, T)
				if r, ok := ref.FpSqrt(T); ok {
					add("Z^2: "+l, r)
				}
				if sum.Sign() != 0 {
					add("(x1+x2)*Z: "+l, ref.ModP(new(big.Int).Mul(T, new(big.Int).ModInverse(sum, ref.P))))
				}
			}
		}
	}
	return out
}

// HalfWordLimbPatterns: stored-limb patterns built from 64-bit words with HALF-WORD structure - a zero / equality test
// that folds a 64-bit word to 32 bits (truncation, hi+lo, hi^lo, a narrower constant-time primitive) is wrong exactly
// on words such as 2^32 (low half zero), 0x1_ffffffff (halves add up to 2^32), 0x80000000_80000000 (equal halves:
// XOR cancels, ADD wraps). One limb carries such a word, or two limbs carry two of them (the limbs are OR-ed
// before the fold: 2^32 in one limb and 2^32-1 in another make 0x1_ffffffff); the other limbs are zero.
func HalfWordLimbPatterns(mod *big.Int) [][4]uint64 {
	hw := []uint64{1 << 32, 1<<32 - 1, 1<<33 - 1, 0xffffffff00000001, 0x8000000080000000, 0x1234567812345678, 0x0000000100000001, 0xfffffffe00000002}
	var out [][4]uint64
	seen := map[[4]uint64]bool{}
	add := func(l [4]uint64) {
		v := new(big.Int)
		for i := 3; i >= 0; i-- {
			v.Lsh(v, 64)
			v.Or(v, new(big.Int).SetUint64(l[i]))
		}
		if v.Cmp(mod) < 0 && !seen[l] {
			seen[l] = true
			out = append(out, l)
		}
	}
	for j := 0; j < 4; j++ {
		for _, w := range hw {
			var l [4]uint64
			l[j] = w
			add(l)
			for k := j + 1; k < 4; k++ {
				for _, w2 := range hw {
					l2 := l
					l2[k] = w2
					add(l2)
				}
			}
		}
	}
	return out
}
