package mc

import (
	"fmt"
	"math/big"
	"math/rand"

	"verif/ref"
)

// PVal is a labelled abstract point.
type PVal struct {
	Label string
	P     ref.Pt
}

type ptSet struct {
	seen map[string]bool
	out  []PVal
}

func (s *ptSet) add(label string, p ref.Pt) {
	if !p.OnCurve() {
		panic("mc: alphabet point not on curve: " + label)
	}
	k := p.Key()
	if s.seen[k] {
		return
	}
	s.seen[k] = true
	s.out = append(s.out, PVal{label, p})
}

// cubeRoots returns the cube roots of a mod p (p = 1 mod 3; p = 7 mod 9).
func cubeRoots(a *big.Int) []*big.Int {
	a = ref.ModP(a)
	nine := big.NewInt(9)
	var e *big.Int
	switch new(big.Int).Mod(ref.P, nine).Int64() {
	case 7:
		e = new(big.Int).Div(new(big.Int).Add(ref.P, big.NewInt(2)), nine)
	case 4:
		e = new(big.Int).Div(new(big.Int).Add(new(big.Int).Lsh(ref.P, 1), big.NewInt(1)), nine)
	default:
		return nil
	}
	r := new(big.Int).Exp(a, e, ref.P)
	if ref.FpMul(ref.FpSqr(r), r).Cmp(a) != 0 {
		return nil
	}
	// the three roots: r, r*beta, r*beta^2 (beta is a primitive cube root of unity)
	return []*big.Int{r, ref.FpMul(r, ref.Beta), ref.FpMul(r, ref.FpSqr(ref.Beta))}
}

// firstXFrom returns the first `count` on-curve x >= start (both y parities are added by the caller).
func firstXFrom(start *big.Int, count int, limit int) []*big.Int {
	var out []*big.Int
	x := new(big.Int).Set(start)
	for i := 0; i < limit && len(out) < count && x.Cmp(ref.P) < 0; i++ {
		if _, ok := ref.LiftX(x, 0); ok {
			out = append(out, new(big.Int).Set(x))
		}
		x = new(big.Int).Add(x, big.NewInt(1))
	}
	return out
}

// PointAlphabet builds the structural point alphabet. maxK: +-kG for k <= maxK.
func PointAlphabet(maxK int, seed int64, nSeeded int) []PVal {
	s := &ptSet{seen: map[string]bool{}}
	g := ref.G()
	s.add("inf", ref.Infinity())
	for k := 1; k <= maxK; k++ {
		p := g.Mul(big.NewInt(int64(k)))
		s.add(fmt.Sprintf("%dG", k), p)
		s.add(fmt.Sprintf("-%dG", k), p.Neg())
	}
	hn := ref.HalfN // (n-1)/2
	s.add("((n-1)/2)G", g.Mul(hn))
	s.add("((n+1)/2)G", g.Mul(new(big.Int).Add(hn, big.NewInt(1))))
	s.add("lambda*G", g.Mul(ref.Lambda))
	s.add("lambda^2*G", g.Mul(ref.ZnMul(ref.Lambda, ref.Lambda)))
	// small x (both signs): the +p alias of x still fits in 32 bytes
	for _, x := range firstXFrom(big.NewInt(0), 6, 64) {
		for odd := uint(0); odd < 2; odd++ {
			p, _ := ref.LiftX(x, odd)
			s.add(fmt.Sprintf("small x=%d odd=%d", x, odd), p)
		}
	}
	// small y: x = cbrt(y^2-7)
	cnt := 0
	for y := int64(1); y < 64 && cnt < 3; y++ {
		rs := cubeRoots(ref.FpSub(big.NewInt(y*y), ref.Sev))
		if len(rs) == 0 {
			continue
		}
		cnt++
		s.add(fmt.Sprintf("small y=%d", y), ref.Pt{X: rs[0], Y: big.NewInt(y)})
		s.add(fmt.Sprintf("small y=%d (x*beta)", y), ref.Pt{X: rs[1], Y: big.NewInt(y)})
		s.add(fmt.Sprintf("y=p-%d", y), ref.Pt{X: rs[0], Y: ref.FpNeg(big.NewInt(y))})
	}
	// x in [n,p): x mod n is small; the ECDSA "x(R) >= n" region
	for _, x := range firstXFrom(ref.N, 3, 64) {
		for odd := uint(0); odd < 2; odd++ {
			p, _ := ref.LiftX(x, odd)
			s.add(fmt.Sprintf("x=n+%d odd=%d (x in [n,p))", new(big.Int).Sub(x, ref.N), odd), p)
		}
	}
	// largest x
	x := new(big.Int).Sub(ref.P, big.NewInt(1))
	for i := 0; i < 64; i++ {
		if p, ok := ref.LiftX(x, 0); ok {
			s.add(fmt.Sprintf("x=p-%d", new(big.Int).Sub(ref.P, x)), p)
			break
		}
		x.Sub(x, big.NewInt(1))
	}
	// x just below n and x = p-n region (x+n < p boundary for recovery)
	pn := new(big.Int).Sub(ref.P, ref.N)
	for _, st := range []*big.Int{new(big.Int).Sub(pn, big.NewInt(8)), new(big.Int).Sub(ref.N, big.NewInt(8))} {
		for _, x := range firstXFrom(st, 2, 64) {
			p, _ := ref.LiftX(x, 1)
			s.add(fmt.Sprintf("x=%x", x), p)
		}
	}
	rng := rand.New(rand.NewSource(seed*31337 + 5))
	for i := 0; i < nSeeded; i++ {
		k := new(big.Int).Rand(rng, ref.N)
		s.add(fmt.Sprintf("seeded#%d", i), g.Mul(k))
	}
	return s.out
}

// ZReps are the projective scalings used to build representatives.
func ZReps(seed int64, nSeeded int) []Val {
	out := []Val{
		{"Z=1", big.NewInt(1)}, {"Z=2", big.NewInt(2)}, {"Z=p-1", new(big.Int).Sub(ref.P, big.NewInt(1))},
		{"Z=c", new(big.Int).Set(ref.C)}, {"Z=2^255", ref.ModP(new(big.Int).Lsh(big.NewInt(1), 255))},
	}
	rng := rand.New(rand.NewSource(seed*271 + 9))
	for i := 0; i < nSeeded; i++ {
		z := new(big.Int).Rand(rng, ref.P)
		if z.Sign() == 0 {
			z.SetInt64(3)
		}
		out = append(out, Val{fmt.Sprintf("Z=seeded#%d", i), z})
	}
	// representatives whose STORED (Montgomery) Z limbs look like a small value: Z = 2^-256 is stored as {1,0,0,0}
	// (a test for "Z is one" on raw limbs takes it for affine), Z = 2^-192 as {0,1,0,0}
	rinv := new(big.Int).ModInverse(new(big.Int).Lsh(big.NewInt(1), 256), ref.P)
	out = append(out, Val{"Z stored as limbs {1,0,0,0} (2^-256)", rinv}, Val{"Z stored as limbs {0,1,0,0} (2^-192)", ref.ModP(new(big.Int).Mul(rinv, new(big.Int).Lsh(big.NewInt(1), 64)))})
	// ... and the two upper limbs alone (a zero test or comparison that skips a limb sees "Z = 0", i.e. the identity)
	out = append(out, Val{"Z stored as limbs {0,0,1,0} (2^-128)", ref.ModP(new(big.Int).Mul(rinv, new(big.Int).Lsh(big.NewInt(1), 128)))},
		Val{"Z stored as limbs {0,0,0,2} (2^-63)", ref.ModP(new(big.Int).Mul(rinv, new(big.Int).Lsh(big.NewInt(1), 193)))})
	return out
}
