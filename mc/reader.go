package mc

import (
	"errors"
	"fmt"
	"io"
	"math/rand"
)

// Script describes a scripted entropy reader: a byte source, a delivery mode
// (the default answer is "full read, no error"; everything else is a
// deviation) and an optional fault.
type Script struct {
	Src       string // "zero" | "ff" | "counter" | "seeded:<n>" | "hex:<bytes>" (repeated)
	Mode      string // "stall:<k>:<j>" (after j bytes, k calls return (0, nil)) | "full" | "1" (one byte per call) | "split:<j>" (first call j bytes) | "eof:<L>" (finite stream of L bytes, last chunk delivered together with io.EOF) | "chunks:<k>"
	FailAfter int    // -1: never; j >= 0: after j bytes have been delivered every further Read fails
	FailWith  bool   // deliver the bytes that are still available together with the error
	FailErr   string // "" = ErrScripted | "eof" = io.EOF | "unexpected-eof" = io.ErrUnexpectedEOF
}

func (s Script) failErr() error {
	switch s.FailErr {
	case "eof":
		return io.EOF
	case "unexpected-eof":
		return io.ErrUnexpectedEOF
	}
	return ErrScripted
}

func (s Script) String() string {
	f := ""
	if s.FailAfter >= 0 {
		f = fmt.Sprintf(",fail-after=%d:%s", s.FailAfter, s.failErr())
		if s.FailWith {
			f += "(with data)"
		}
	}
	return fmt.Sprintf("%s/%s%s", s.Src, s.Mode, f)
}

// ErrScripted is the injected read error.
var ErrScripted = errors.New("scripted reader fault")

// Reader is the instantiated script; it counts what was consumed.
type Reader struct {
	s        Script
	pos      int
	Consumed int
	Calls    int
	rng      *rand.Rand
	hex      []byte
	stalled  int
}

func (s Script) New() *Reader {
	r := &Reader{s: s}
	var seed int64
	if _, err := fmt.Sscanf(s.Src, "seeded:%d", &seed); err == nil {
		r.rng = rand.New(rand.NewSource(seed))
	}
	var hx string
	if _, err := fmt.Sscanf(s.Src, "hex:%s", &hx); err == nil {
		fmt.Sscanf(hx, "%x", &r.hex)
	}
	return r
}

func (r *Reader) byteAt(i int) byte {
	switch {
	case r.s.Src == "zero":
		return 0
	case r.s.Src == "ff":
		return 0xff
	case r.s.Src == "counter":
		return byte(i + 1)
	case r.rng != nil:
		return byte(r.rng.Intn(256))
	case len(r.hex) > 0:
		return r.hex[i%len(r.hex)]
	}
	return 0x5a
}

func (r *Reader) Read(p []byte) (int, error) {
	r.Calls++
	if len(p) == 0 {
		return 0, nil
	}
	want := len(p)
	var mode string
	var arg, stallK int
	fmt.Sscanf(r.s.Mode, "split:%d", &arg)
	if arg > 0 {
		mode = "split"
	} else if _, err := fmt.Sscanf(r.s.Mode, "eof:%d", &arg); err == nil {
		mode = "eof"
	} else if _, err := fmt.Sscanf(r.s.Mode, "chunks:%d", &arg); err == nil {
		mode = "chunks"
	} else if _, err := fmt.Sscanf(r.s.Mode, "stall:%d:%d", &stallK, &arg); err == nil {
		mode = "stall"
	} else {
		mode = r.s.Mode
	}
	switch mode {
	case "1":
		want = 1
	case "split":
		if r.pos == 0 && arg < want {
			want = arg
		}
	case "chunks":
		if arg > 0 && arg < want {
			want = arg
		}
	case "stall":
		// "stall:<k>:<j>": j bytes are delivered, then k calls return (0, nil) - allowed by io.Reader, discouraged, and
		// completed by io.ReadFull - then the stream goes on
		if r.pos < arg && r.pos+want > arg {
			want = arg - r.pos
		}
		if r.pos == arg && r.stalled < stallK {
			r.stalled++
			return 0, nil
		}
	case "eof":
		if r.pos >= arg {
			return 0, io.EOF
		}
		if r.pos+want > arg {
			want = arg - r.pos
		}
	}
	if r.s.FailAfter >= 0 {
		left := r.s.FailAfter - r.pos
		if left <= 0 {
			return 0, r.s.failErr()
		}
		if want >= left {
			if r.s.FailWith {
				for i := 0; i < left; i++ {
					p[i] = r.byteAt(r.pos + i)
				}
				r.pos += left
				r.Consumed += left
				return left, r.s.failErr()
			}
			want = left
		}
	}
	for i := 0; i < want; i++ {
		p[i] = r.byteAt(r.pos + i)
	}
	r.pos += want
	r.Consumed += want
	if mode == "eof" && r.pos >= arg {
		return want, io.EOF
	}
	return want, nil
}

// Bytes returns the first n bytes the source would deliver (for reference computations).
func (s Script) Bytes(n int) []byte {
	r := Script{Src: s.Src, Mode: "full", FailAfter: -1}.New()
	out := make([]byte, n)
	r.Read(out)
	return out
}

// DeliveryModes are the non-faulting deviations from the default answer for a 32-byte request.
func DeliveryModes() []string {
	m := []string{"full", "1", "eof:32", "chunks:5", "chunks:16", "stall:1:0", "stall:3:16", "stall:60:5", "stall:99:31"}
	for j := 1; j < 32; j++ {
		m = append(m, fmt.Sprintf("split:%d", j))
	}
	return m
}
