package mc

import (
	"encoding/json"
	"fmt"
	"math/big"
	"os"
)

// LoadReplay reads a violation file written by Finalize.
func LoadReplay(path string) Violation {
	b, err := os.ReadFile(path)
	if err != nil {
		fmt.Fprintln(os.Stderr, "replay:", err)
		os.Exit(2)
	}
	var v Violation
	if err := json.Unmarshal(b, &v); err != nil {
		fmt.Fprintln(os.Stderr, "replay:", err)
		os.Exit(2)
	}
	return v
}

// DS / DBig fetch detail fields.
func (v Violation) DS(k string) string {
	s, _ := v.Detail[k].(string)
	return s
}

func (v Violation) DBig(k string) *big.Int {
	x, ok := new(big.Int).SetString(v.DS(k), 16)
	if !ok {
		return new(big.Int)
	}
	return x
}

// ReplayResult prints the outcome of a replay and exits (1 = still fails).
func ReplayResult(v Violation, mismatch string) {
	if mismatch == "" {
		fmt.Printf("replay %s [%s]: case now agrees with the model\n", v.Property, v.Key)
		os.Exit(0)
	}
	fmt.Printf("replay %s [%s]: STILL FAILS: %s\n", v.Property, v.Key, mismatch)
	os.Exit(1)
}
