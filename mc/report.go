// Package mc is the small-scope explorer library: counters and evidence (this
// file), alphabets, alias partitions, byte-string deviations, reader scripts,
// explicit-state BFS and the cooperative scheduler.
package mc

import (
	"crypto/sha256"
	"encoding/hex"
	"encoding/json"
	"fmt"
	"os"
	"path/filepath"
	"runtime"
	"runtime/pprof"
	"sort"
	"strconv"
	"strings"
	"sync"
	"sync/atomic"
	"time"
)

const VerifDir = "/verif"

// outDir is where evidence and replays go: /verif, unless the development aid VERIF_OUT (see cmd/vdriver) is set.
func outDir() string {
	if o := os.Getenv("VERIF_OUT"); o != "" && os.Getenv("VERIF_REPO") != "" {
		return o
	}
	return VerifDir
}

// Violation is one property violation with everything needed to replay it.
type Violation struct {
	Property string         `json:"property"`
	Key      string         `json:"key"`  // stable case key (matched against known_findings.json)
	Kind     string         `json:"kind"` // replay dispatcher kind
	Detail   map[string]any `json:"detail"`
	Reruns   int            `json:"reruns_confirmed"`
}

// Partial is what one process contributes; partials are merged by Finalize.
type Partial struct {
	ID           string           `json:"id"`
	Tier         string           `json:"tier"`
	Seed         int64            `json:"seed"`
	States       int64            `json:"states"`
	Transitions  int64            `json:"transitions"`
	Validated    int64            `json:"validated"`
	Nontrivial   int64            `json:"nontrivial"`
	Classes      map[string]int64 `json:"classes"`
	Samples      []any            `json:"samples"`
	Violations   []Violation      `json:"violations"`
	Flaky        []string         `json:"flaky"`
	Caps         []string         `json:"caps"`
	Bounds       map[string]any   `json:"bounds"`
	SkippedHooks []string         `json:"skipped_hooks"`
	Configs      []string         `json:"configs"`
	Notes        []string         `json:"notes"`
	Assumptions  []string         `json:"assumptions"`
	Rule         string           `json:"rule"`
	Exhaustive   bool             `json:"exhaustive"`
	WallS        float64          `json:"wall_s"`
	Expect       []string         `json:"expect_classes"` // classes that must be populated (vacuity guard)
}

type stateShard struct {
	mu sync.Mutex
	m  map[uint64]struct{}
}

// Report accumulates coverage for one check run. Safe for concurrent use.
type Report struct {
	ID    string
	Tier  string // "quick" | "thorough"
	Seed  int64
	start time.Time

	transitions atomic.Int64
	validated   atomic.Int64
	extraStates atomic.Int64
	extraNT     atomic.Int64
	states      [256]stateShard
	nt          [256]stateShard

	mu           sync.Mutex
	classes      map[string]int64
	samples      []any
	sampleKinds  map[string]int
	violations   map[string]Violation
	flaky        []string
	caps         []string
	bounds       map[string]any
	skippedHooks []string
	configs      []string
	notes        []string
	assumptions  []string
	expect       []string
	rule         string
	notExh       bool
	deadline     time.Time
	timeouts     int
}

// New creates the report from VERIF_TIER / VERIF_SEED.
func New(id string) *Report {
	r := &Report{ID: id, Tier: "quick", start: time.Now()}
	if t := os.Getenv("VERIF_TIER"); t == "thorough" {
		r.Tier = "thorough"
	}
	if s := os.Getenv("VERIF_SEED"); s != "" {
		if v, err := strconv.ParseInt(s, 10, 64); err == nil {
			r.Seed = v
		}
	}
	for i := range r.states {
		r.states[i].m = map[uint64]struct{}{}
		r.nt[i].m = map[uint64]struct{}{}
	}
	r.classes = map[string]int64{}
	r.sampleKinds = map[string]int{}
	r.violations = map[string]Violation{}
	r.bounds = map[string]any{}
	budget := 240.0
	if r.Tier == "thorough" {
		budget = 1500
	}
	if s := os.Getenv("VERIF_BUDGET_S"); s != "" {
		if v, err := strconv.ParseFloat(s, 64); err == nil {
			budget = v
		}
	}
	r.deadline = r.start.Add(time.Duration(budget * float64(time.Second)))
	PanicHook = func(msg string) {
		first := msg
		if i := strings.IndexByte(first, '\n'); i > 0 {
			first = first[:i]
		}
		if len(first) > 160 {
			first = first[:160]
		}
		r.Fail("panic during exploration: "+first, "panic", map[string]any{"panic": msg, "what": "the library (or a constructor the harness relies on) panicked inside an exploration worker"}, nil)
	}
	if pp := os.Getenv("VERIF_PPROF"); pp != "" {
		if f, err := os.Create(pp); err == nil {
			pprof.StartCPUProfile(f)
		}
	}
	return r
}

func (r *Report) Thorough() bool { return r.Tier == "thorough" }

// SetBudget moves the internal deadline to sec seconds after the start of the run
// (VERIF_BUDGET_S, when given, still wins).
func (r *Report) SetBudget(sec float64) {
	if os.Getenv("VERIF_BUDGET_S") != "" {
		return
	}
	r.mu.Lock()
	r.deadline = r.start.Add(time.Duration(sec * float64(time.Second)))
	r.mu.Unlock()
}

// Expired reports whether the internal wall-clock budget is used up. A check
// that stops because of it must call Cap(...) — it then exits 0, exhaustive:false.
func (r *Report) Expired() bool {
	r.mu.Lock()
	d := r.deadline
	r.mu.Unlock()
	return time.Now().After(d)
}

// T adds n lock-step transitions (each executed on model and implementation).
func (r *Report) T(n int64) { r.transitions.Add(n); r.validated.Add(n) }

// TOnly adds transitions without counting them as validated traces.
func (r *Report) TOnly(n int64) { r.transitions.Add(n) }
func (r *Report) V(n int64)     { r.validated.Add(n) }

// States adds n states known to be distinct by construction (enumerated ranges).
func (r *Report) States(n int64) { r.extraStates.Add(n) }
func (r *Report) NTs(n int64)    { r.extraNT.Add(n) }

// State records a state by 64-bit hash in the global distinct set.
func (r *Report) State(h uint64) {
	s := &r.states[h&255]
	s.mu.Lock()
	s.m[h] = struct{}{}
	s.mu.Unlock()
}

// NT records a distinct non-trivial case by hash.
func (r *Report) NT(h uint64) {
	s := &r.nt[h&255]
	s.mu.Lock()
	s.m[h] = struct{}{}
	s.mu.Unlock()
}

// Class adds n members to a named case class (vacuity visibility).
func (r *Report) Class(name string, n int64) {
	r.mu.Lock()
	r.classes[name] += n
	r.mu.Unlock()
}

// Expect declares classes that must be non-empty at the end (reported as a
// warning note, never as a violation).
func (r *Report) Expect(names ...string) {
	r.mu.Lock()
	r.expect = append(r.expect, names...)
	r.mu.Unlock()
}

// Sample keeps the first few cases of each kind, written out in the evidence.
func (r *Report) Sample(kind string, v any) {
	r.mu.Lock()
	if r.sampleKinds[kind] < 2 && len(r.samples) < 40 {
		r.sampleKinds[kind]++
		r.samples = append(r.samples, map[string]any{"kind": kind, "case": v})
	}
	r.mu.Unlock()
}

// WantSample is a cheap pre-check so hot loops do not build sample values.
func (r *Report) WantSample(kind string) bool {
	r.mu.Lock()
	ok := r.sampleKinds[kind] < 2 && len(r.samples) < 40
	r.mu.Unlock()
	return ok
}

func (r *Report) Cap(s string) {
	r.mu.Lock()
	r.caps = append(r.caps, s)
	r.notExh = true
	r.mu.Unlock()
}
func (r *Report) Bound(k string, v any) { r.mu.Lock(); r.bounds[k] = v; r.mu.Unlock() }
func (r *Report) Note(s string)         { r.mu.Lock(); r.notes = append(r.notes, s); r.mu.Unlock() }
func (r *Report) Assume(s string) {
	r.mu.Lock()
	r.assumptions = append(r.assumptions, s)
	r.mu.Unlock()
}
func (r *Report) Config(s string) { r.mu.Lock(); r.configs = append(r.configs, s); r.mu.Unlock() }
func (r *Report) Rule(s string)   { r.mu.Lock(); r.rule = s; r.mu.Unlock() }
func (r *Report) SkipHook(s string) {
	r.mu.Lock()
	r.skippedHooks = append(r.skippedHooks, s)
	r.mu.Unlock()
}

// NumViolations returns how many distinct violations have been recorded.
func (r *Report) NumViolations() int { r.mu.Lock(); defer r.mu.Unlock(); return len(r.violations) }

// Fail records a violation. rerun (may be nil) re-executes exactly this case on
// fresh objects and returns true if it fails again; the case is re-run 4 more
// times and reported as harness nondeterminism (not a violation) unless it
// fails every time.
func (r *Report) Fail(key, kind string, detail map[string]any, rerun func() bool) {
	r.mu.Lock()
	if _, dup := r.violations[key]; dup || len(r.violations) >= 64 {
		r.mu.Unlock()
		return
	}
	r.violations[key] = Violation{} // reserve
	r.mu.Unlock()
	n := 1
	if rerun != nil {
		for i := 0; i < 4; i++ {
			if rerun() {
				n++
			}
		}
		if n != 5 {
			// The case failed inside the (parallel) exploration but not when run alone. Single-case runners are pure
			// functions of their descriptor, so either the harness is nondeterministic or the library's answer depends
			// on what other goroutines are doing. Decide by running the same descriptor on several goroutines at once:
			// a failure there, with every solo run passing, is a verdict ("not a function of its inputs").
			if n == 1 && parActive.Load() > 0 {
				if f, total := ConcurrentReruns(rerun); f > 0 {
					detail["needs_concurrency"] = true
					detail["concurrency"] = fmt.Sprintf("the case passes when it runs alone (4 of 4 re-runs) and fails in %d of %d re-runs when the same call is in progress on other goroutines: the result is not a function of the inputs", f, total)
					r.mu.Lock()
					r.violations[key] = Violation{Property: r.ID, Key: key, Kind: kind, Detail: detail, Reruns: f}
					r.mu.Unlock()
					return
				}
			}
			r.mu.Lock()
			delete(r.violations, key)
			r.flaky = append(r.flaky, fmt.Sprintf("%s: failed %d of 5 runs", key, n))
			r.mu.Unlock()
			return
		}
	}
	r.mu.Lock()
	r.violations[key] = Violation{Property: r.ID, Key: key, Kind: kind, Detail: detail, Reruns: n}
	r.mu.Unlock()
}

// ConcurrentReruns runs a single-case re-run function on 8 goroutines, 40 times each, and returns how many of the
// runs failed.
func ConcurrentReruns(rerun func() bool) (failed, total int) {
	var wg sync.WaitGroup
	var f atomic.Int64
	const G, N = 8, 40
	for g := 0; g < G; g++ {
		wg.Add(1)
		go func() {
			defer wg.Done()
			for i := 0; i < N; i++ {
				if rerun() {
					f.Add(1)
				}
			}
		}()
	}
	wg.Wait()
	return int(f.Load()), G * N
}

func (r *Report) partial() Partial {
	r.mu.Lock()
	defer r.mu.Unlock()
	var ns, nn int64
	for i := range r.states {
		ns += int64(len(r.states[i].m))
		nn += int64(len(r.nt[i].m))
	}
	p := Partial{
		ID: r.ID, Tier: r.Tier, Seed: r.Seed,
		States:      ns + r.extraStates.Load(),
		Nontrivial:  nn + r.extraNT.Load(),
		Transitions: r.transitions.Load(), Validated: r.validated.Load(),
		Classes: r.classes, Samples: r.samples, Flaky: r.flaky, Caps: r.caps, Bounds: r.bounds,
		SkippedHooks: r.skippedHooks, Configs: r.configs, Notes: r.notes, Assumptions: r.assumptions,
		Rule: r.rule, Exhaustive: !r.notExh, WallS: time.Since(r.start).Seconds(), Expect: r.expect,
	}
	keys := make([]string, 0, len(r.violations))
	for k := range r.violations {
		keys = append(keys, k)
	}
	sort.Strings(keys)
	for _, k := range keys {
		if r.violations[k].Key != "" {
			p.Violations = append(p.Violations, r.violations[k])
		}
	}
	return p
}

// Finish writes the evidence (or a partial when VERIF_PARTIAL is set) and exits.
func (r *Report) Finish() {
	pprof.StopCPUProfile()
	p := r.partial()
	if path := os.Getenv("VERIF_PARTIAL"); path != "" {
		b, _ := json.Marshal(p)
		if err := os.WriteFile(path, b, 0o644); err != nil {
			fmt.Fprintln(os.Stderr, "cannot write partial:", err)
			os.Exit(2)
		}
		os.Exit(0)
	}
	os.Exit(Finalize([]Partial{p}))
}

type knownFinding struct {
	Property string `json:"property"`
	Key      string `json:"key"`
	Status   string `json:"status"` // open | fixed
	Commit   string `json:"commit,omitempty"`
	What     string `json:"what"`
}

func loadKnown() []knownFinding {
	b, err := os.ReadFile(filepath.Join(VerifDir, "known_findings.json"))
	if err != nil {
		return nil
	}
	var k struct {
		Findings []knownFinding `json:"findings"`
	}
	if json.Unmarshal(b, &k) != nil {
		return nil
	}
	return k.Findings
}

// Finalize merges partials, writes /verif/evidence/<ID>.json and replay files,
// prints KNOWN-FINDING / VIOLATION lines and returns the exit code.
func Finalize(ps []Partial) int {
	if len(ps) == 0 {
		fmt.Fprintln(os.Stderr, "no results")
		return 2
	}
	m := ps[0]
	if m.Classes == nil {
		m.Classes = map[string]int64{}
	}
	if m.Bounds == nil {
		m.Bounds = map[string]any{}
	}
	seenV := map[string]bool{}
	for _, v := range m.Violations {
		seenV[v.Key] = true
	}
	uniq := func(a []string) []string {
		s := map[string]bool{}
		var o []string
		for _, x := range a {
			if !s[x] {
				s[x] = true
				o = append(o, x)
			}
		}
		return o
	}
	for _, p := range ps[1:] {
		m.States += p.States
		m.Transitions += p.Transitions
		m.Validated += p.Validated
		m.Nontrivial += p.Nontrivial
		for k, v := range p.Classes {
			m.Classes[k] += v
		}
		for _, s := range p.Samples {
			if len(m.Samples) < 40 {
				m.Samples = append(m.Samples, s)
			}
		}
		for _, v := range p.Violations {
			if !seenV[v.Key] {
				seenV[v.Key] = true
				m.Violations = append(m.Violations, v)
			}
		}
		m.Flaky = append(m.Flaky, p.Flaky...)
		m.Caps = append(m.Caps, p.Caps...)
		for k, v := range p.Bounds {
			m.Bounds[k] = v
		}
		m.SkippedHooks = append(m.SkippedHooks, p.SkippedHooks...)
		m.Configs = append(m.Configs, p.Configs...)
		m.Notes = append(m.Notes, p.Notes...)
		m.Assumptions = append(m.Assumptions, p.Assumptions...)
		m.Expect = append(m.Expect, p.Expect...)
		m.Exhaustive = m.Exhaustive && p.Exhaustive
		if p.WallS > m.WallS {
			m.WallS = p.WallS
		}
		if m.Rule == "" {
			m.Rule = p.Rule
		}
	}
	m.Caps, m.SkippedHooks, m.Configs, m.Notes, m.Assumptions = uniq(m.Caps), uniq(m.SkippedHooks), uniq(m.Configs), uniq(m.Notes), uniq(m.Assumptions)
	var empty []string
	for _, c := range uniq(m.Expect) {
		if m.Classes[c] == 0 {
			empty = append(empty, c)
		}
	}
	if len(empty) > 0 {
		m.Notes = append(m.Notes, fmt.Sprintf("WARNING: expected classes with zero members: %v", empty))
		fmt.Fprintf(os.Stderr, "warning: empty classes %v\n", empty)
	}

	known := loadKnown()
	isKnown := func(v Violation) *knownFinding {
		for i := range known {
			k := &known[i]
			if k.Property == v.Property && k.Key == v.Key && k.Status == "open" {
				return k
			}
		}
		return nil
	}
	exit := 0
	nviol := 0
	var lines []string
	os.MkdirAll(filepath.Join(outDir(), "replays"), 0o755)
	for _, v := range m.Violations {
		if k := isKnown(v); k != nil {
			lines = append(lines, fmt.Sprintf("KNOWN-FINDING: property=%s %s", v.Property, k.What))
			continue
		}
		nviol++
		b, _ := json.MarshalIndent(v, "", " ")
		sum := sha256.Sum256([]byte(v.Key))
		path := filepath.Join(outDir(), "replays", fmt.Sprintf("%s-%s.json", m.ID, hex.EncodeToString(sum[:4])))
		os.WriteFile(path, b, 0o644)
		lines = append(lines, fmt.Sprintf("VIOLATION property=%s replay=%s", m.ID, path))
		exit = 1
	}
	if len(m.Flaky) > 0 && exit == 0 {
		fmt.Fprintf(os.Stderr, "harness nondeterminism (not a violation): %v\n", m.Flaky)
		m.Notes = append(m.Notes, fmt.Sprintf("harness nondeterminism: %v", m.Flaky))
	}

	if m.States < 1 {
		m.States = 1
	}
	if len(m.Samples) == 0 {
		m.Samples = []any{"(no samples recorded)"}
	}
	cov := map[string]any{
		"states":                        m.States,
		"transitions":                   m.Transitions,
		"traces_validated_against_impl": m.Validated,
		"evaluations":                   m.Transitions,
		"distinct_nontrivial":           m.Nontrivial,
		"rule":                          m.Rule,
		"samples":                       m.Samples,
		"exhaustive":                    m.Exhaustive,
		"classes":                       m.Classes,
		"caps":                          m.Caps,
		"bounds":                        m.Bounds,
		"skipped_hooks":                 m.SkippedHooks,
		"configs":                       m.Configs,
		"notes":                         m.Notes,
		"processes":                     len(ps),
		"cpus":                          runtime.NumCPU(),
	}
	ev := map[string]any{
		"property_id": m.ID, "tier": m.Tier, "seed": m.Seed, "level": "model_checking",
		"coverage": cov, "assumptions": m.Assumptions, "wall_s": m.WallS, "violations": nviol,
	}
	b, _ := json.MarshalIndent(ev, "", " ")
	os.MkdirAll(filepath.Join(outDir(), "evidence"), 0o755)
	if err := os.WriteFile(filepath.Join(outDir(), "evidence", m.ID+".json"), b, 0o644); err != nil {
		fmt.Fprintln(os.Stderr, "cannot write evidence:", err)
		return 2
	}
	for _, l := range lines {
		fmt.Println(l)
	}
	fmt.Printf("%s %s: states=%d transitions=%d nontrivial=%d classes=%d exhaustive=%v violations=%d wall=%.1fs\n",
		m.ID, m.Tier, m.States, m.Transitions, m.Nontrivial, len(m.Classes), m.Exhaustive, nviol, m.WallS)
	return exit
}

// H hashes byte strings into a 64-bit state key (FNV-1a with separators).
func H(parts ...[]byte) uint64 {
	h := uint64(0xcbf29ce484222325)
	for _, p := range parts {
		for _, b := range p {
			h ^= uint64(b)
			h *= 0x100000001b3
		}
		h ^= 0xff
		h *= 0x100000001b3
	}
	return h
}

// HS hashes strings.
func HS(parts ...string) uint64 {
	h := uint64(0xcbf29ce484222325)
	for _, p := range parts {
		for i := 0; i < len(p); i++ {
			h ^= uint64(p[i])
			h *= 0x100000001b3
		}
		h ^= 0xff
		h *= 0x100000001b3
	}
	return h
}

// PanicHook receives panics that escape a Par worker (a library panic outside a Safe-wrapped runner). The
// Report installs a hook that records them as violations; without a hook the panic propagates.
var PanicHook func(msg string)

func safeCall(fn func(int), i int) {
	if PanicHook == nil {
		fn(i)
		return
	}
	defer func() {
		if x := recover(); x != nil {
			PanicHook(fmt.Sprint(x))
		}
	}()
	fn(i)
}

// StopAll makes every Par loop stop handing out work (set after repeated non-terminating cases).
var StopAll atomic.Bool

// Par runs fn(i) for i in [0,n) on all CPUs (deterministic partition by index).
// parActive counts the parallel sections in progress. The concurrent re-run verdict (Fail) applies only to cases that
// failed INSIDE one: there the check itself runs its single-case code on many goroutines, so that code is known to be
// safe to run concurrently and a parallel-only failure is the library's. Sequential sections (process-global readers,
// the trace monitor, child processes) never get it.
var parActive atomic.Int64

func Par(n int, fn func(i int)) {
	w := runtime.GOMAXPROCS(0)
	if w > n {
		w = n
	}
	if w <= 1 {
		for i := 0; i < n; i++ {
			safeCall(fn, i)
		}
		return
	}
	parActive.Add(1)
	defer parActive.Add(-1)
	var wg sync.WaitGroup
	var next atomic.Int64
	for k := 0; k < w; k++ {
		wg.Add(1)
		go func() {
			defer wg.Done()
			for {
				i := int(next.Add(1) - 1)
				if i >= n || StopAll.Load() {
					return
				}
				safeCall(fn, i)
			}
		}()
	}
	wg.Wait()
}

// Hex is a short helper for evidence output.
func Hex(b []byte) string { return hex.EncodeToString(b) }
