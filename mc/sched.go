package mc

import (
	"fmt"
	"runtime"
	"time"
)

// Cooperative, deviation(=preemption)-bounded stateless scheduler.
//
// Thread bodies run real (instrumented) code; the instrumentation calls
// (*Sched).Point at every basic block. Exactly one thread runs at a time; at
// a point the scheduler either lets the running thread continue (choice 0,
// the default) or hands control to another thread. Enabled threads are listed
// in canonical order: the running thread first (if still enabled), then the
// others by ascending id. Starting the first thread and continuing after a
// thread has finished are points too (switching there is not a preemption).

type spoint struct {
	nEnabled       int
	runningEnabled bool
	choice         int
}

// Execution is one complete execution.
type Execution struct {
	Choices     []int
	points      []spoint
	Results     [][]byte // per thread; a panic is recorded as "panic: ..."
	Preemptions int
	Switches    int
}

type sthread struct {
	id     int
	resume chan struct{}
	done   bool
	goid   uint64
}

// SchedCheckGoroutine makes Point / Blocked ignore calls that do not come from the goroutine of the running scheduler
// thread. Needed when the library under test starts goroutines of its own: their instrumented code reaches the hooks
// too, but they are part of the environment (free-running), not threads of the schedule. Costs a goroutine-id lookup
// per scheduling point, so it is switched on only when the instrumenter saw a go statement in the library.
var SchedCheckGoroutine bool

func curGoid() uint64 {
	var buf [64]byte
	n := runtime.Stack(buf[:], false)
	// "goroutine 123 [running]:..."
	var id uint64
	for _, c := range buf[10:n] {
		if c < '0' || c > '9' {
			break
		}
		id = id*10 + uint64(c-'0')
	}
	return id
}

func (s *Sched) foreign() bool {
	return SchedCheckGoroutine && (s.cur < 0 || curGoid() != s.threads[s.cur].goid)
}

type Sched struct {
	threads  []*sthread
	cur      int // running thread (-1 before start)
	prefix   []int
	exec     *Execution
	finish   chan struct{}
	finished bool
	diverge  string
	on       bool
	spin     int // consecutive Blocked() calls without a scheduling point in between
}

// enabledOrder returns the canonical order of enabled threads.
func (s *Sched) enabledOrder() []int {
	var out []int
	if s.cur >= 0 && !s.threads[s.cur].done {
		out = append(out, s.cur)
	}
	for _, t := range s.threads {
		if !t.done && t.id != s.cur {
			out = append(out, t.id)
		}
	}
	return out
}

// decide records a point and returns the thread to run next (-1: none left).
func (s *Sched) decide() int {
	en := s.enabledOrder()
	if len(en) == 0 {
		return -1
	}
	i := len(s.exec.points)
	choice := 0
	if i < len(s.prefix) {
		choice = s.prefix[i]
		if choice >= len(en) {
			s.diverge = fmt.Sprintf("replay divergence at point %d: choice %d but only %d enabled threads", i, choice, len(en))
			choice = 0
		}
	}
	running := s.cur >= 0 && !s.threads[s.cur].done
	s.exec.points = append(s.exec.points, spoint{len(en), running, choice})
	s.exec.Choices = append(s.exec.Choices, choice)
	if choice != 0 {
		s.exec.Switches++
		if running {
			s.exec.Preemptions++
		}
	}
	return en[choice]
}

// Point is the scheduling point called from instrumented code (only while a
// scheduled thread is running).
func (s *Sched) Point() {
	if !s.on || s.foreign() {
		return
	}
	s.spin = 0
	me := s.cur
	next := s.decide()
	if next == me {
		return
	}
	s.cur = next
	s.threads[next].resume <- struct{}{}
	<-s.threads[me].resume
}

// Blocked is called by the running thread when it cannot take a lock (the instrumented retry loop around TryLock):
// control goes to the next unfinished thread in round-robin order. This is a forced switch, not a choice - no point is
// recorded and it costs no preemption. When every unfinished thread has reported Blocked in turn, several times over,
// without any of them reaching a scheduling point, the execution is deadlocked: it is ended and reported.
func (s *Sched) Blocked() {
	if !s.on {
		return
	}
	if s.foreign() {
		runtime.Gosched()
		return
	}
	me := s.cur
	s.spin++
	next := -1
	for k := 1; k <= len(s.threads); k++ {
		t := s.threads[(me+k)%len(s.threads)]
		if !t.done && t.id != me {
			next = t.id
			break
		}
	}
	if next < 0 || s.spin > 4*len(s.threads) {
		s.diverge = "deadlock: every unfinished thread is waiting for a lock that no runnable thread holds (lock order, or a lock that is never released on some path)"
		if !s.finished {
			s.finished = true
			close(s.finish)
		}
		select {} // this goroutine is abandoned
	}
	s.cur = next
	s.threads[next].resume <- struct{}{}
	<-s.threads[me].resume
}

// Run executes the bodies under the schedule given by prefix (default choice
// 0 afterwards). setOn toggles the instrumentation's scheduling hook.
func (s *Sched) Run(bodies []func() []byte, prefix []int, setOn func(bool)) (*Execution, string) {
	s.threads = s.threads[:0]
	s.prefix = prefix
	s.exec = &Execution{Results: make([][]byte, len(bodies))}
	s.cur = -1
	s.diverge = ""
	s.spin = 0
	s.finished = false
	s.finish = make(chan struct{})
	for i := range bodies {
		t := &sthread{id: i, resume: make(chan struct{})}
		s.threads = append(s.threads, t)
	}
	for i := range bodies {
		t := s.threads[i]
		body := bodies[i]
		go func() {
			if SchedCheckGoroutine {
				t.goid = curGoid()
			}
			<-t.resume
			func() {
				defer func() {
					if x := recover(); x != nil {
						s.exec.Results[t.id] = []byte(fmt.Sprint("panic: ", x))
					}
				}()
				s.exec.Results[t.id] = body()
			}()
			t.done = true
			next := s.decide()
			if next < 0 {
				if !s.finished {
					s.finished = true
					close(s.finish)
				}
				return
			}
			s.cur = next
			s.threads[next].resume <- struct{}{}
		}()
	}
	s.on = true
	setOn(true)
	first := s.decide()
	s.cur = first
	s.threads[first].resume <- struct{}{}
	select {
	case <-s.finish:
	case <-time.After(CaseTimeout):
		s.on = false
		setOn(false)
		return s.exec, TimeoutPrefix + "the scheduled execution did not finish (a thread never terminates under this schedule)"
	}
	setOn(false)
	s.on = false
	return s.exec, s.diverge
}

// SchedStats summarises an exploration.
type SchedStats struct {
	Executions int64
	MaxPoints  int
	Capped     bool
	Outcomes   map[string]int
}

// Explore enumerates every schedule of bodies() with at most `bound`
// preemptions (switches at thread start / end are free). mk must build fresh
// bodies for each execution. check is called for every complete execution and
// returns "" or a mismatch. shard/nshard partition the level-1 subtrees.
// budget limits the number of executions (0 = unlimited).
func Explore(mk func() []func() []byte, bound int, setOn func(bool), shard, nshard int, budget int64,
	check func(x *Execution) string, fail func(x *Execution, m string)) SchedStats {
	st := SchedStats{Outcomes: map[string]int{}}
	s := &Sched{}
	SchedHook = s.Point
	SchedBlockedHook = s.Blocked
	seq := 0
	var explore func(prefix []int, depth int)
	explore = func(prefix []int, depth int) {
		if budget > 0 && st.Executions >= budget {
			st.Capped = true
			return
		}
		own := depth > 0 || shard == 0
		var x *Execution
		var div string
		// the root execution is needed by every shard to enumerate its subtrees, but only shard 0 counts/checks it
		x, div = s.Run(mk(), prefix, setOn)
		if own {
			st.Executions++
			if len(x.points) > st.MaxPoints {
				st.MaxPoints = len(x.points)
			}
			if div != "" {
				fail(x, div)
			} else if m := check(x); m != "" {
				fail(x, m)
			}
			key := ""
			for _, r := range x.Results {
				key += fmt.Sprintf("%x|", H(r))
			}
			st.Outcomes[key]++
		}
		pre := 0
		for i := 0; i < len(x.points); i++ {
			p := x.points[i]
			if i < len(prefix) {
				if p.choice != 0 && p.runningEnabled {
					pre++
				}
				continue
			}
			cost := pre
			if p.runningEnabled {
				cost++
			}
			if cost > bound {
				continue
			}
			for alt := 1; alt < p.nEnabled; alt++ {
				if depth == 0 {
					seq++
					if (seq-1)%nshard != shard {
						continue
					}
				}
				np := append(append([]int{}, x.Choices[:i]...), alt)
				explore(np, depth+1)
			}
		}
	}
	// The choice of the thread that starts is a free (non-preempting) point whose subtrees are as large
	// as the rest of the tree: enumerate it here so that sharding happens one level below it.
	n := len(mk())
	for first := 0; first < n; first++ {
		explore([]int{first}, 0)
	}
	return st
}

// SchedHook is what the instrumentation's PointFn should call; SchedBlockedHook what its BlockedFn should call.
var (
	SchedHook        func()
	SchedBlockedHook func()
)
