package mc

import (
	"fmt"
	"math/big"
)

// firstHit returns the smallest x >= 0 with l <= a*x mod m <= r (0 <= l <= r < m), or nil if there is none.
// Euclid-like descent (O(log m) steps); validated against brute force in ReductionSelfTest.
func firstHit(a, m, l, r *big.Int) *big.Int {
	if l.Sign() == 0 {
		return new(big.Int)
	}
	a = new(big.Int).Mod(a, m)
	if a.Sign() == 0 {
		return nil
	}
	if new(big.Int).Lsh(a, 1).Cmp(m) > 0 {
		return firstHit(new(big.Int).Sub(m, a), m, new(big.Int).Sub(m, r), new(big.Int).Sub(m, l))
	}
	k := new(big.Int).Add(l, a)
	k.Sub(k, one).Div(k, a) // ceil(l/a)
	if new(big.Int).Mul(k, a).Cmp(r) <= 0 {
		return k
	}
	ma := new(big.Int).Mod(m, a)
	na := new(big.Int).Sub(a, ma)
	na.Mod(na, a)
	y := firstHit(na, a, new(big.Int).Mod(l, a), new(big.Int).Mod(r, a))
	if y == nil {
		return nil
	}
	x := new(big.Int).Mul(m, y)
	x.Add(x, l).Add(x, a).Sub(x, one).Div(x, a)
	return x
}

// ReductionSelfTest checks firstHit against brute force on every (a, m, l, r) with m <= 24.
func ReductionSelfTest() error {
	for m := int64(2); m <= 24; m++ {
		for a := int64(0); a < m; a++ {
			for l := int64(0); l < m; l++ {
				for r := l; r < m; r++ {
					want := int64(-1)
					for x := int64(0); x <= m; x++ {
						if v := a * x % m; l <= v && v <= r {
							want = x
							break
						}
					}
					got := firstHit(big.NewInt(a), big.NewInt(m), big.NewInt(l), big.NewInt(r))
					if (got == nil) != (want < 0) || got != nil && got.Int64() != want {
						return fmt.Errorf("firstHit(%d,%d,%d,%d) = %v, brute force %d", a, m, l, r, got, want)
					}
				}
			}
		}
	}
	return nil
}

// ReductionSteered returns stored-limb operands A < m (as integers; the abstract value is A*R^-1) that steer the
// word-by-word Montgomery reduction used by FromMontgomery / Mul / Square into its rare carry propagations.
//
// After i reduction rounds the accumulator is exactly S_i = (A_i + M_i*m) / 2^(64i), with A_i = A mod 2^(64i) and
// M_i = -A_i/m mod 2^(64i) the concatenated per-round multipliers: the multiplier is a free 64i-bit parameter, and
// "limbs j..j+k-1 of M*m are all ones" (a carry entering below then ripples through k whole limbs - a 2^(-64k)
// event for random operands) is an interval condition on M*m mod 2^(64(j+k)), solved exactly by firstHit.
// The next limb of A is set to 2^64-1 / to all ones above so that the carry that ripples is actually produced.
func ReductionSteered(m *big.Int) []Val {
	var out []Val
	w := new(big.Int).Lsh(one, 64)
	wm1 := new(big.Int).Sub(w, one)
	for i := uint(1); i <= 4; i++ {
		for j := i; j < i+4; j++ {
			for k := uint(1); k <= 2; k++ {
				for _, low := range []int64{1, 2} { // lowest limb of the run: 2^64-1 or 2^64-2 (becomes all ones after the carry from below)
					v := new(big.Int).Lsh(one, 64*k) // run value: k limbs, all ones, lowest = 2^64-low
					v.Sub(v, big.NewInt(low))
					mod := new(big.Int).Lsh(one, 64*(j+k))
					lo := new(big.Int).Lsh(v, 64*j)
					hi := new(big.Int).Add(lo, new(big.Int).Sub(new(big.Int).Lsh(one, 64*j), one))
					M := firstHit(m, mod, lo, hi)
					if M == nil || M.BitLen() > int(64*i) {
						continue
					}
					A := new(big.Int).Mul(M, m)
					A.Neg(A).Mod(A, new(big.Int).Lsh(one, 64*i))
					for hn, h := range []*big.Int{new(big.Int), wm1, new(big.Int).Sub(new(big.Int).Lsh(one, 64*(4-i)), one)} {
						if i == 4 && hn > 0 {
							continue
						}
						s := new(big.Int).Add(A, new(big.Int).Lsh(h, 64*i))
						if s.Cmp(m) < 0 {
							out = append(out, Val{fmt.Sprintf("reduction-steered: multiplier of %d round(s) makes limb(s) %d..%d of M*m = all ones (lowest 2^64-%d), upper limbs variant %d", i, j, j+k-1, low, hn), s})
						}
					}
				}
			}
		}
	}
	return out
}

// ModulusLimbPatterns returns the values < m whose limbs are each one of {0, 2^64-1, m_i - 1} (m_i the same limb of
// the modulus): operands at the corner of the "a < m" precondition, which make top-of-chain carries happen in
// Mul / Square (e.g. hi(a_1*a_3) = 2^64-2 needs both limbs near 2^64 while a < m).
func ModulusLimbPatterns(m *big.Int) []Val {
	var out []Val
	mask := new(big.Int).Sub(new(big.Int).Lsh(one, 64), one)
	for pat := 0; pat < 81; pat++ {
		v := new(big.Int)
		p := pat
		for l := 3; l >= 0; l-- {
			ml := new(big.Int).And(new(big.Int).Rsh(m, uint(64*l)), mask)
			var c *big.Int
			switch p % 3 {
			case 0:
				c = new(big.Int)
			case 1:
				c = mask
			default:
				c = new(big.Int).Sub(ml, one)
				c.And(c, mask)
			}
			p /= 3
			v.Lsh(v, 64).Or(v, c)
		}
		if v.Cmp(m) < 0 {
			out = append(out, Val{fmt.Sprintf("limbs over {0, max, m_i-1}: pattern %d", pat), v})
		}
	}
	return out
}
