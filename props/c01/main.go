// C01 — field-element operations are exact arithmetic modulo p.
//
// Explicit-state exploration of the transition system whose states are
// integers mod p and whose transitions are the field.Element operations,
// executed on the real implementation in lock-step with the math/big model.
package main

import (
	"bytes"
	"encoding/binary"
	"fmt"
	"math/big"
	"math/bits"
	"os"
	"sort"
	"sync"
	"sync/atomic"

	secp256k1 "gitlab.com/yawning/secp256k1-voi"

	"verif/lib"
	"verif/mc"
	"verif/ref"
)

type FE = secp256k1.VerifFE

var (
	R      *mc.Report
	poison = ref.ModP(new(big.Int).SetBytes(bytes.Repeat([]byte{0xd7}, 32)))
)

func mk(v *big.Int) *FE {
	e := new(FE)
	if _, err := e.SetCanonicalBytes(ref.A32(v)); err != nil {
		// the decoder rejects a canonical value: that is itself a violation; keep exploring with an
		// object built through the limb hook (stored limbs = v * 2^256 mod p)
		R.Fail("field/SetCanonicalBytes rejects a canonical value", "decode", map[string]any{"bytes": hexv(v), "mismatch": "canonical value in [0,p) rejected: " + err.Error()}, nil)
		e = new(FE)
		secp256k1.VerifFESetLimbs(e, bigToLimbs(ref.FpMul(v, ref.R256)))
	}
	return e
}

func bigToLimbs(v *big.Int) (l [4]uint64) {
	m := new(big.Int).SetUint64(^uint64(0))
	t := new(big.Int).Set(v)
	for i := 0; i < 4; i++ {
		l[i] = new(big.Int).And(t, m).Uint64()
		t.Rsh(t, 64)
	}
	return
}

func hexv(v *big.Int) string { return fmt.Sprintf("%064x", v) }

// try runs f and converts a panic into an error string.
func try(f func()) (perr string) {
	defer func() {
		if x := recover(); x != nil {
			perr = fmt.Sprint(x)
		}
	}()
	f()
	return ""
}

// ---------------------------------------------------------------- ops

type unop struct {
	name string
	f    func(z, a *FE) *FE
	ref  func(a *big.Int) *big.Int
	slow bool
}

type binop struct {
	name string
	f    func(z, a, b *FE) *FE
	ref  func(a, b *big.Int) *big.Int
}

var pow2ks = []uint{1, 2, 3, 4, 5, 6, 7, 8, 31, 32, 33, 64, 255, 256, 257}

func unops() []unop {
	ops := []unop{
		{"Negate", func(z, a *FE) *FE { return z.Negate(a) }, ref.FpNeg, false},
		{"Square", func(z, a *FE) *FE { return z.Square(a) }, ref.FpSqr, false},
		{"Set", func(z, a *FE) *FE { return z.Set(a) }, ref.ModP, false},
		{"Invert", func(z, a *FE) *FE { return z.Invert(a) }, ref.FpInv, true},
	}
	for _, c := range mc.Ctrls {
		c := c
		ops = append(ops, unop{fmt.Sprintf("ConditionalNegate(ctrl=%#x)", c), func(z, a *FE) *FE { return z.ConditionalNegate(a, c) },
			func(a *big.Int) *big.Int {
				if c == 0 {
					return ref.ModP(a)
				}
				return ref.FpNeg(a)
			}, false})
	}
	for _, k := range pow2ks {
		k := k
		ops = append(ops, unop{fmt.Sprintf("Pow2k(%d)", k), func(z, a *FE) *FE { return z.Pow2k(a, k) },
			func(a *big.Int) *big.Int { return ref.FpPow2k(a, k) }, k > 8})
	}
	if h := secp256k1.VerifFieldPow3mod4(); h != nil {
		e := new(big.Int).Rsh(new(big.Int).Sub(ref.P, big.NewInt(3)), 2)
		ops = append(ops, unop{"pow3mod4(hook)", func(z, a *FE) *FE { return h(z, a) },
			func(a *big.Int) *big.Int { return new(big.Int).Exp(a, e, ref.P) }, true})
	} else {
		R.SkipHook("pow3mod4")
	}
	return ops
}

func binops() []binop {
	ops := []binop{
		{"Add", func(z, a, b *FE) *FE { return z.Add(a, b) }, ref.FpAdd},
		{"Subtract", func(z, a, b *FE) *FE { return z.Subtract(a, b) }, ref.FpSub},
		{"Multiply", func(z, a, b *FE) *FE { return z.Multiply(a, b) }, ref.FpMul},
	}
	for _, c := range mc.Ctrls {
		c := c
		ops = append(ops, binop{fmt.Sprintf("ConditionalSelect(ctrl=%#x)", c), func(z, a, b *FE) *FE { return z.ConditionalSelect(a, b, c) },
			func(a, b *big.Int) *big.Int {
				if c == 0 {
					return ref.ModP(a)
				}
				return ref.ModP(b)
			}})
	}
	return ops
}

// alias patterns for z = op(a,b): which of z,a,b are the same object.
type alias struct {
	name       string
	zA, zB, aB bool
}

var binAliases = []alias{
	{"z|a|b", false, false, false},
	{"z=a|b", true, false, false},
	{"z=b|a", false, true, false},
	{"a=b|z", false, false, true},
	{"z=a=b", true, true, true},
}

// checkResult compares a result object with the model value: canonical bytes,
// the representation invariant (stored limbs < p, through the limb hook) and
// the public observers Equal / IsZero, which read the stored limbs directly.
func checkResult(z *FE, exp *big.Int) string {
	if got := z.Bytes(); !bytes.Equal(got, ref.B32(exp)) {
		return fmt.Sprintf("result %x, model %x", got, ref.B32(exp))
	}
	if l := limbsBig(secp256k1.VerifFELimbs(z)); l.Cmp(ref.P) >= 0 {
		return fmt.Sprintf("result stored unreduced: limbs %x >= p (model %x)", l, exp)
	}
	e := mk(exp)
	if z.Equal(e) != 1 || e.Equal(z) != 1 {
		return fmt.Sprintf("result encodes as the model value %x but Equal(model) = 0", exp)
	}
	wz := uint64(0)
	if exp.Sign() == 0 {
		wz = 1
	}
	if z.IsZero() != wz {
		return fmt.Sprintf("IsZero of result = %d, model %d", z.IsZero(), wz)
	}
	// the encoding handed out belongs to the caller: writing into it changes no later encoding
	got := z.Bytes()
	for i := range got {
		got[i] ^= 0x5a
	}
	if again := z.Bytes(); !bytes.Equal(again, ref.B32(exp)) {
		return fmt.Sprintf("after the caller wrote into a returned encoding, Bytes() = %x, model %x (the encoder hands out shared memory)", again, ref.B32(exp))
	}
	return ""
}

// runBin executes one binary transition under one alias pattern; returns a
// description of the mismatch or "".
func runBin(op *binop, va, vb *big.Int, al alias) string {
	if al.aB && va.Cmp(vb) != 0 {
		return ""
	}
	a := mk(va)
	b := a
	if !al.aB {
		b = mk(vb)
	}
	var z *FE
	switch {
	case al.zA:
		z = a
	case al.zB:
		z = b
	default:
		z = mk(poison)
	}
	var ret *FE
	if p := try(func() { ret = op.f(z, a, b) }); p != "" {
		return "panic: " + p
	}
	exp := op.ref(va, vb)
	if ret != z {
		return "did not return the receiver"
	}
	if m := checkResult(z, exp); m != "" {
		return m
	}
	if a != z && !bytes.Equal(a.Bytes(), ref.B32(va)) {
		return "operand a modified"
	}
	if b != z && !bytes.Equal(b.Bytes(), ref.B32(vb)) {
		return "operand b modified"
	}
	return ""
}

func runUn(op *unop, va *big.Int, aliased bool) string {
	a := mk(va)
	z := a
	if !aliased {
		z = mk(poison)
	}
	var ret *FE
	if p := try(func() { ret = op.f(z, a) }); p != "" {
		return "panic: " + p
	}
	exp := op.ref(va)
	if ret != z {
		return "did not return the receiver"
	}
	if m := checkResult(z, exp); m != "" {
		return m
	}
	if !aliased && !bytes.Equal(a.Bytes(), ref.B32(va)) {
		return "operand modified"
	}
	return ""
}

// ---------------------------------------------------------------- value set

type vset struct {
	mu sync.Mutex
	m  map[string]*big.Int
}

func (s *vset) add(v *big.Int) {
	k := string(ref.B32(v))
	s.mu.Lock()
	if _, ok := s.m[k]; !ok {
		s.m[k] = v
	}
	s.mu.Unlock()
}

func (s *vset) sorted() []*big.Int {
	out := make([]*big.Int, 0, len(s.m))
	for _, v := range s.m {
		out = append(out, v)
	}
	sort.Slice(out, func(i, j int) bool { return out[i].Cmp(out[j]) < 0 })
	return out
}

func st(v *big.Int) { R.State(mc.H(ref.B32(v))) }

// ---------------------------------------------------------------- level 1 / 2

func exploreArith(fe []mc.Val, pairs []mc.Pair) {
	uops, bops := unops(), binops()
	level1 := &vset{m: map[string]*big.Int{}}
	for _, v := range fe {
		st(v.V)
	}
	R.Class("alphabet/FE", int64(len(fe)))

	// unary, complete over FE, both alias patterns
	mc.Par(len(fe), func(i int) {
		va := fe[i].V
		for oi := range uops {
			op := &uops[oi]
			for _, aliased := range []bool{false, true} {
				R.T(1)
				if m := mc.Safe(func() string { return runUn(op, va, aliased) }); m != "" {
					al := "z|a"
					if aliased {
						al = "z=a"
					}
					R.Fail("field/"+op.name+"/"+al, "unary", map[string]any{"op": op.name, "alias": al, "a": hexv(va), "label": fe[i].Label, "mismatch": m},
						func() bool { return runUn(op, va, aliased) != "" })
				}
			}
			level1.add(op.ref(va))
		}
		if R.WantSample("unary") {
			R.Sample("unary", map[string]any{"op": "Invert", "a": hexv(va), "label": fe[i].Label, "result": hexv(ref.FpInv(va))})
		}
	})

	// binary, complete over FE x FE, every alias pattern
	var nBoundary atomic.Int64
	mc.Par(len(fe), func(i int) {
		va := fe[i].V
		var t int64
		for j := range fe {
			vb := fe[j].V
			for oi := range bops {
				op := &bops[oi]
				for _, al := range binAliases {
					if al.aB && i != j {
						continue
					}
					t++
					if m := mc.Safe(func() string { return runBin(op, va, vb, al) }); m != "" {
						R.Fail("field/"+op.name+"/"+al.name, "binary", map[string]any{"op": op.name, "alias": al.name, "a": hexv(va), "b": hexv(vb),
							"label_a": fe[i].Label, "label_b": fe[j].Label, "mismatch": m}, func() bool { return runBin(op, va, vb, al) != "" })
					}
				}
				if oi < 3 {
					level1.add(op.ref(va, vb))
				}
			}
			// Equal
			t++
			a, b := mk(va), mk(vb)
			want := uint64(0)
			if va.Cmp(vb) == 0 {
				want = 1
			}
			if a.Equal(b) != want || b.Equal(a) != want || a.Equal(a) != 1 {
				R.Fail("field/Equal", "equal", map[string]any{"a": hexv(va), "b": hexv(vb)}, nil)
			}
		}
		R.T(t)
		nBoundary.Add(1)
	})
	R.Sample("binary", map[string]any{"op": "Multiply", "alias": "z=a|b", "a": hexv(fe[len(fe)/2].V), "b": hexv(fe[len(fe)/3].V),
		"result": hexv(ref.FpMul(fe[len(fe)/2].V, fe[len(fe)/3].V))})

	// steered pairs: stored limbs put the unreduced result on the boundaries
	for _, p := range pairs {
		R.Class("steered/"+p.Class, 1)
		R.NT(mc.HS("steer", p.Class, hexv(p.A), hexv(p.B)))
		for oi := range bops[:3] {
			op := &bops[oi]
			for _, al := range binAliases {
				R.T(1)
				if m := mc.Safe(func() string { return runBin(op, p.A, p.B, al) }); m != "" {
					p := p
					R.Fail("field/"+op.name+"/"+al.name+"/steered", "binary", map[string]any{"op": op.name, "alias": al.name, "a": hexv(p.A), "b": hexv(p.B),
						"class": p.Class, "mismatch": m}, func() bool { return runBin(op, p.A, p.B, al) != "" })
				}
			}
			level1.add(op.ref(p.A, p.B))
		}
		// squares of steered mul pairs with a == b are covered by Square over FE; also square both
		for _, v := range []*big.Int{p.A, p.B} {
			R.T(1)
			if m := mc.Safe(func() string { return runUn(&uops[1], v, false) }); m != "" {
				R.Fail("field/Square/steered", "unary", map[string]any{"a": hexv(v), "mismatch": m}, nil)
			}
		}
	}
	if len(pairs) > 0 {
		R.Sample("steered", map[string]any{"class": pairs[len(pairs)-1].Class, "a": hexv(pairs[len(pairs)-1].A), "b": hexv(pairs[len(pairs)-1].B)})
	}
	// verify through the hook that the steering really happened: stored limbs sum/diff as claimed
	checkSteering(pairs)

	// level 2: closure under one more step
	l1 := level1.sorted()
	R.Class("level1/distinct results", int64(len(l1)))
	for _, v := range l1 {
		st(v)
	}
	capL1 := 3000
	sub := fe
	if !R.Thorough() {
		if len(l1) > capL1 {
			R.Cap(fmt.Sprintf("level 2 (quick): %d of %d level-1 results (evenly spaced) x a 64-value sub-alphabet; thorough tier covers all", capL1, len(l1)))
			step := len(l1) / capL1
			var s []*big.Int
			for i := 0; i < len(l1); i += step {
				s = append(s, l1[i])
			}
			l1 = s
		}
		sub = subAlphabet(fe, 64)
	} else {
		sub = subAlphabet(fe, 160)
		R.Bound("level2_sub_alphabet", len(sub))
	}
	R.Bound("closure_depth", 2)
	var l2 atomic.Int64
	mc.Par(len(l1), func(i int) {
		if R.Expired() {
			return
		}
		va := l1[i]
		var t int64
		for oi := range uops {
			op := &uops[oi]
			if op.slow && i%8 != 0 && !R.Thorough() {
				continue
			}
			t++
			if m := mc.Safe(func() string { return runUn(op, va, i%2 == 0) }); m != "" {
				R.Fail("field/"+op.name+"/level2", "unary", map[string]any{"op": op.name, "a": hexv(va), "mismatch": m}, func() bool { return runUn(op, va, i%2 == 0) != "" })
			}
		}
		for j := range sub {
			vb := sub[j].V
			for oi := range bops[:3] {
				op := &bops[oi]
				al := binAliases[(i+j+oi)%3]
				t += 2
				if m := mc.Safe(func() string { return runBin(op, va, vb, al) }); m != "" {
					R.Fail("field/"+op.name+"/"+al.name+"/level2", "binary", map[string]any{"op": op.name, "alias": al.name, "a": hexv(va), "b": hexv(vb), "mismatch": m},
						func() bool { return runBin(op, va, vb, al) != "" })
				}
				if m := mc.Safe(func() string { return runBin(op, vb, va, al) }); m != "" {
					R.Fail("field/"+op.name+"/"+al.name+"/level2", "binary", map[string]any{"op": op.name, "alias": al.name, "a": hexv(vb), "b": hexv(va), "mismatch": m},
						func() bool { return runBin(op, vb, va, al) != "" })
				}
				st(op.ref(va, vb))
			}
		}
		R.T(t)
		l2.Add(t)
	})
	if R.Expired() {
		R.Cap("level 2 stopped by the internal time budget")
	}
	R.Class("level2/transitions", l2.Load())
}

func subAlphabet(fe []mc.Val, n int) []mc.Val {
	if len(fe) <= n {
		return fe
	}
	var out []mc.Val
	step := float64(len(fe)) / float64(n)
	for i := 0; i < n; i++ {
		out = append(out, fe[int(float64(i)*step)])
	}
	return out
}

func limbsBig(l [4]uint64) *big.Int {
	v := new(big.Int)
	for i := 3; i >= 0; i-- {
		v.Lsh(v, 64)
		v.Or(v, new(big.Int).SetUint64(l[i]))
	}
	return v
}

func checkSteering(pairs []mc.Pair) {
	for _, p := range pairs {
		sa, sb := limbsBig(secp256k1.VerifFELimbs(mk(p.A))), limbsBig(secp256k1.VerifFELimbs(mk(p.B)))
		// stored limbs must be the Montgomery images
		if sa.Cmp(ref.FpMul(p.A, ref.R256)) != 0 || sb.Cmp(ref.FpMul(p.B, ref.R256)) != 0 {
			R.Note("representation is not the plain Montgomery form a*2^256 mod p: steered classes are not guaranteed to hit their windows")
			R.Class("steering/representation differs", 1)
			return
		}
	}
	R.Class("steering/stored limbs verified Montgomery images", int64(len(pairs)))
}

// ---------------------------------------------------------------- predicates, sqrt

// limbPatterns: all stored-limb patterns over {0, 1, 2^63, 2^64-1}^4 below the modulus. Equality / zero tests
// combine the four limbs; a wrong combination (XOR or ADD instead of OR, an ignored limb) only shows on
// operands whose limb differences cancel, which no value alphabet contains by accident.
func limbPatterns(mod *big.Int) [][4]uint64 {
	lv := []uint64{0, 1, 1 << 63, ^uint64(0)}
	var out [][4]uint64
	for a := 0; a < 4; a++ {
		for b := 0; b < 4; b++ {
			for c := 0; c < 4; c++ {
				for d := 0; d < 4; d++ {
					l := [4]uint64{lv[a], lv[b], lv[c], lv[d]}
					if limbsBig(l).Cmp(mod) < 0 {
						out = append(out, l)
					}
				}
			}
		}
	}
	return out
}

// explorePredicateMatrix: Equal / IsZero over all PAIRS of stored-limb patterns (objects built through the limb hook).
func explorePredicateMatrix() {
	pats := append(limbPatterns(ref.P), mc.HalfWordLimbPatterns(ref.P)...) // + words with half-word structure (32-bit folds)
	mc.Par(len(pats), func(i int) {
		a := new(FE)
		secp256k1.VerifFESetLimbs(a, pats[i])
		wz := uint64(0)
		if pats[i] == [4]uint64{} {
			wz = 1
		}
		if a.IsZero() != wz {
			R.Fail("field/IsZero/limb pattern", "limbpred", map[string]any{"stored_limbs": fmt.Sprint(pats[i]), "got": a.IsZero()}, nil)
		}
		for j := range pats {
			b := new(FE)
			secp256k1.VerifFESetLimbs(b, pats[j])
			want := uint64(0)
			if pats[i] == pats[j] {
				want = 1
			}
			if a.Equal(b) != want {
				R.Fail("field/Equal/limb patterns", "limbpred", map[string]any{"stored_limbs_a": fmt.Sprint(pats[i]), "stored_limbs_b": fmt.Sprint(pats[j]), "Equal": a.Equal(b), "want": want}, nil)
			}
		}
		R.T(int64(len(pats) + 1))
	})
	R.Class("predicates/pairs of stored-limb patterns {0,1,2^63,2^64-1}^4", int64(len(pats)*len(pats)))
}

func explorePredicates(fe []mc.Val) {
	mc.Par(len(fe), func(i int) {
		v := fe[i].V
		e := mk(v)
		R.T(4)
		wz, wo := uint64(0), uint64(v.Bit(0))
		if v.Sign() == 0 {
			wz = 1
		}
		if e.IsZero() != wz {
			R.Fail("field/IsZero", "pred", map[string]any{"a": hexv(v)}, nil)
		}
		if e.IsOdd() != wo {
			R.Fail("field/IsOdd", "pred", map[string]any{"a": hexv(v), "got": e.IsOdd()}, nil)
		}
		if e.String() != hexv(v) {
			R.Fail("field/String", "pred", map[string]any{"a": hexv(v), "got": e.String()}, nil)
		}
		// Sqrt: flag iff a square; result^2 = a; otherwise 0 and flag 0. Both alias patterns.
		for _, aliased := range []bool{false, true} {
			a := mk(v)
			z := a
			if !aliased {
				z = mk(poison)
			}
			ret, flag := z.Sqrt(a)
			isSq := ref.FpIsSquare(v)
			got := ref.OS2IP(z.Bytes())
			bad := ret != z
			if isSq {
				R.Class("sqrt/square", 1)
				bad = bad || flag != 1 || ref.FpSqr(got).Cmp(v) != 0
			} else {
				R.Class("sqrt/non-square", 1)
				bad = bad || flag != 0 || got.Sign() != 0
			}
			if !aliased && !bytes.Equal(a.Bytes(), ref.B32(v)) {
				bad = true
			}
			if bad {
				R.Fail(fmt.Sprintf("field/Sqrt/aliased=%v", aliased), "sqrt", map[string]any{"a": hexv(v), "flag": flag, "got": hexv(got), "is_square": isSq}, nil)
			}
		}
	})
}

// SqrtRatio(u,v): RFC 9380 F.2.1: (true, sqrt(u/v)) if u/v is square, else (false, sqrt(Z*u/v)), Z=-11; v != 0.
func exploreSqrtRatio(sub []mc.Val) {
	zc := ref.FpNeg(big.NewInt(11))
	type pat struct {
		name   string
		zU, zV bool
		uV     bool
	}
	pats := []pat{{"z|u|v", false, false, false}, {"z=u|v", true, false, false}, {"z=v|u", false, true, false}, {"u=v|z", false, false, true}, {"z=u=v", true, true, true}}
	run := func(vu, vv *big.Int, p pat) string {
		if p.uV && vu.Cmp(vv) != 0 {
			return ""
		}
		u := mk(vu)
		v := u
		if !p.uV {
			v = mk(vv)
		}
		var z *FE
		switch {
		case p.zU:
			z = u
		case p.zV:
			z = v
		default:
			z = mk(poison)
		}
		ret, flag := z.SqrtRatio(u, v)
		if ret != z {
			return "did not return the receiver"
		}
		got := ref.OS2IP(z.Bytes())
		if got.Cmp(ref.P) >= 0 {
			return "non-canonical"
		}
		ratio := ref.FpMul(vu, ref.FpInv(vv))
		if ref.FpIsSquare(ratio) {
			if flag != 1 || ref.FpSqr(got).Cmp(ratio) != 0 {
				return fmt.Sprintf("u/v square: flag=%d result=%x", flag, got)
			}
		} else {
			if flag != 0 || ref.FpSqr(got).Cmp(ref.FpMul(zc, ratio)) != 0 {
				return fmt.Sprintf("u/v non-square: flag=%d result=%x", flag, got)
			}
		}
		if u != z && !bytes.Equal(u.Bytes(), ref.B32(vu)) {
			return "u modified"
		}
		if v != z && !bytes.Equal(v.Bytes(), ref.B32(vv)) {
			return "v modified"
		}
		return ""
	}
	mc.Par(len(sub), func(i int) {
		vu := sub[i].V
		for j := range sub {
			vv := sub[j].V
			if vv.Sign() == 0 {
				continue // the RFC requires v != 0
			}
			for _, p := range pats {
				if p.uV && i != j {
					continue
				}
				R.T(1)
				if m := run(vu, vv, p); m != "" {
					R.Fail("field/SqrtRatio/"+p.name, "sqrtratio", map[string]any{"u": hexv(vu), "v": hexv(vv), "alias": p.name, "mismatch": m},
						func() bool { return run(vu, vv, p) != "" })
				}
			}
			if ref.FpIsSquare(ref.FpMul(vu, ref.FpInv(vv))) {
				R.Class("sqrt_ratio/square", 1)
			} else {
				R.Class("sqrt_ratio/non-square", 1)
			}
		}
	})
}

// ---------------------------------------------------------------- decode / encode

// decodeOne checks every decode entry point on one 32-byte string given as big value x in [0,2^256).
func decodeOne(x *big.Int, hot bool) string {
	var b [32]byte
	x.FillBytes(b[:])
	return decodeBytes(&b, x)
}

func decodeBytes(b *[32]byte, x *big.Int) string {
	canonical := x.Cmp(ref.P) < 0
	want := x
	if !canonical {
		want = new(big.Int).Sub(x, ref.P)
	}
	wantB := ref.B32(want)
	// SetBytes: reduce + flag
	e := mk(poison)
	ret, flag := e.SetBytes(b)
	if ret != e || (flag != 0) == canonical || (flag != 0 && flag != 1) || !bytes.Equal(e.Bytes(), wantB) {
		return fmt.Sprintf("SetBytes: flag=%d value=%x", flag, e.Bytes())
	}
	// SetCanonicalBytes: error + receiver untouched
	e2 := mk(poison)
	before := secp256k1.VerifFELimbs(e2)
	r2, err := e2.SetCanonicalBytes(b)
	if canonical {
		if err != nil || r2 != e2 || !bytes.Equal(e2.Bytes(), wantB) {
			return fmt.Sprintf("SetCanonicalBytes rejected/mis-decoded a canonical value: err=%v", err)
		}
	} else {
		if err == nil || r2 != nil {
			return "SetCanonicalBytes accepted a non-canonical value"
		}
		if secp256k1.VerifFELimbs(e2) != before {
			return "SetCanonicalBytes modified the receiver on failure"
		}
	}
	if secp256k1.VerifFEBytesAreCanonical(b) != canonical {
		return "BytesAreCanonical wrong"
	}
	n3, err3 := secp256k1.VerifFENewFromCanonicalBytes(b)
	if canonical != (err3 == nil) || (err3 != nil && n3 != nil) || (err3 == nil && !bytes.Equal(n3.Bytes(), wantB)) {
		return "NewElementFromCanonicalBytes wrong"
	}
	// MustSetCanonicalBytes panics iff non-canonical
	e4 := mk(poison)
	p := try(func() { e4.MustSetCanonicalBytes(b) })
	if canonical != (p == "") || (canonical && !bytes.Equal(e4.Bytes(), wantB)) {
		return "MustSetCanonicalBytes wrong"
	}
	return ""
}

func exploreDecode(fe []mc.Val) {
	// (a) alphabet values, their +p aliases, and every boundary string around p and 2^256
	var xs []*big.Int
	for _, v := range fe {
		xs = append(xs, v.V)
		if al := new(big.Int).Add(v.V, ref.P); al.Cmp(ref.R256) < 0 {
			xs = append(xs, al)
			R.Class("decode/+p alias of alphabet value", 1)
		}
	}
	for d := int64(-40); d <= 40; d++ {
		xs = append(xs, new(big.Int).Add(ref.P, big.NewInt(d)))
	}
	for d := int64(1); d <= 40; d++ {
		xs = append(xs, new(big.Int).Sub(ref.R256, big.NewInt(d)))
	}
	// p +/- 2^k, every single-bit flip of p and of p-1
	for k := uint(0); k < 256; k++ {
		for _, base := range []*big.Int{ref.P, new(big.Int).Sub(ref.P, big.NewInt(1)), new(big.Int).Sub(ref.R256, big.NewInt(1)), big.NewInt(0)} {
			x := new(big.Int).Xor(base, new(big.Int).Lsh(big.NewInt(1), k))
			xs = append(xs, x)
		}
	}
	// every limb-aligned prefix of p followed by 00.. / ff.. (early-exit comparisons on limbs)
	pb := ref.B32(ref.P)
	for cut := 0; cut <= 32; cut++ {
		for _, fill := range []byte{0x00, 0xff, 0x80, 0x7f} {
			b := append([]byte{}, pb[:cut]...)
			for len(b) < 32 {
				b = append(b, fill)
			}
			xs = append(xs, ref.OS2IP(b))
		}
	}
	// every combination of structured 64-bit words (limb-wise comparisons with a wrong operator, a skipped limb, a truncated word)
	wp := mc.WordPatternStrings(ref.P)
	xs = append(xs, wp...)
	R.Class("decode/word-pattern strings (11^4)", int64(len(wp)))
	mc.Par(len(xs), func(i int) {
		R.T(6)
		st(xs[i])
		if xs[i].Cmp(ref.P) >= 0 {
			R.Class("decode/non-canonical string", 1)
			R.NT(mc.H(ref.B32(xs[i])))
		}
		if m := decodeOne(xs[i], false); m != "" {
			x := xs[i]
			R.Fail("field/decode", "decode", map[string]any{"bytes": hexv(x), "mismatch": m}, func() bool { return decodeOne(x, false) != "" })
		}
	})
	R.Sample("decode", map[string]any{"bytes": hexv(new(big.Int).Add(ref.P, big.NewInt(1))), "expect": "SetBytes -> (1, flag 1); SetCanonicalBytes -> error, receiver untouched"})

	// (b) the whole non-canonical space [p, 2^256) and its canonical partners [0, 2^32+977)
	c := ref.C.Uint64() // 2^32+977
	var lo, hi uint64 = 1 << 20, c - (1 << 20)
	exhaustive := R.Thorough()
	if exhaustive {
		lo, hi = c, c
		R.Bound("noncanonical_space", "all 2^32+977 strings in [p,2^256) and all partners in [0,2^32+977): complete")
	} else {
		R.Cap("non-canonical space (quick): delta < 2^20, delta > c-2^20 and all delta of Hamming weight <= 2; thorough enumerates all 2^32+977")
	}
	ranges := [][2]uint64{{0, lo}, {hi, c}}
	if exhaustive {
		ranges = [][2]uint64{{0, c}}
	}
	const chunk = 1 << 18
	type job struct{ a, b uint64 }
	var jobs []job
	for _, rg := range ranges {
		for a := rg[0]; a < rg[1]; a += chunk {
			b := a + chunk
			if b > rg[1] {
				b = rg[1]
			}
			jobs = append(jobs, job{a, b})
		}
	}
	var bad atomic.Int64
	mc.Par(len(jobs), func(ji int) {
		if R.Expired() {
			return
		}
		j := jobs[ji]
		var nc, ca [32]byte // p+delta, delta
		e := new(FE)
		for d := j.a; d < j.b; d++ {
			// non-canonical: p + d  (p = 2^256 - c  =>  p + d = 2^256 - (c-d)), bytes = ff..ff minus (c-d-1)
			k := c - d - 1 // 2^256-1-k
			for i := 0; i < 24; i++ {
				nc[i] = 0xff
			}
			binary.BigEndian.PutUint64(nc[24:], ^k)
			binary.BigEndian.PutUint64(ca[24:], d)
			ok := true
			_, flag := e.SetBytes(&nc)
			if flag != 1 || !bytes.Equal(e.Bytes(), ca[:]) {
				ok = false
			}
			lim := secp256k1.VerifFELimbs(e)
			if r, err := e.SetCanonicalBytes(&nc); err == nil || r != nil || secp256k1.VerifFELimbs(e) != lim {
				ok = false
			}
			if secp256k1.VerifFEBytesAreCanonical(&nc) {
				ok = false
			}
			_, flag = e.SetBytes(&ca)
			if flag != 0 || !bytes.Equal(e.Bytes(), ca[:]) {
				ok = false
			}
			if _, err := e.SetCanonicalBytes(&ca); err != nil || !secp256k1.VerifFEBytesAreCanonical(&ca) {
				ok = false
			}
			if !ok && bad.Add(1) < 4 {
				x := new(big.Int).Add(ref.P, new(big.Int).SetUint64(d))
				R.Fail("field/decode/exhaustive", "decode", map[string]any{"bytes": hexv(x), "partner": d, "mismatch": decodeOne(x, true) + " | partner: " + decodeOne(new(big.Int).SetUint64(d), true)}, nil)
			}
		}
		n := int64(j.b - j.a)
		R.T(7 * n)
		R.States(2 * n)
		R.NTs(n)
	})
	if R.Expired() {
		R.Cap("exhaustive decode stopped by the internal time budget")
	}
	// all delta of Hamming weight <= 2 (quick and thorough)
	var hw []uint64
	for i := 0; i < 33; i++ {
		for j := i; j < 33; j++ {
			d := uint64(1)<<uint(i) | uint64(1)<<uint(j)
			if d < c {
				hw = append(hw, d)
			}
		}
	}
	for _, d := range hw {
		R.T(6)
		x := new(big.Int).Add(ref.P, new(big.Int).SetUint64(d))
		if m := decodeOne(x, false); m != "" {
			R.Fail("field/decode", "decode", map[string]any{"bytes": hexv(x), "mismatch": m}, nil)
		}
	}
	R.Class("decode/hamming-weight<=2 deltas", int64(len(hw)))
}

// ---------------------------------------------------------------- wide reduction

func exploreWide() {
	type wcase struct {
		b   []byte
		cls string
	}
	var cases []wcase
	for L := 32; L <= 64; L++ {
		z := make([]byte, L)
		cases = append(cases, wcase{z, "zeros"})
		o := bytes.Repeat([]byte{0xff}, L)
		cases = append(cases, wcase{o, "ones"})
		for bit := 0; bit < 8*L; bit++ {
			b := make([]byte, L)
			b[bit/8] = 1 << uint(7-bit%8)
			cases = append(cases, wcase{b, "single bit"})
		}
		// segment patterns for the 16/24/24 split (counted from the right): c | b | a
		for pat := 0; pat < 27; pat++ {
			b := make([]byte, 64)
			segs := [][2]int{{0, 16}, {16, 40}, {40, 64}}
			pp := pat
			for _, s := range segs {
				switch pp % 3 {
				case 1:
					b[s[1]-1] = 1
				case 2:
					for i := s[0]; i < s[1]; i++ {
						b[i] = 0xff
					}
				}
				pp /= 3
			}
			cases = append(cases, wcase{b[64-L:], "segment pattern"})
		}
		// k*p + {-1,0,1} for k that fit: k = 2^j and 2^j - 1, and the largest k
		maxv := new(big.Int).Sub(new(big.Int).Lsh(big.NewInt(1), uint(8*L)), big.NewInt(1))
		kmax := new(big.Int).Div(maxv, ref.P)
		ks := []*big.Int{big.NewInt(1), big.NewInt(2), big.NewInt(3), kmax, new(big.Int).Sub(kmax, big.NewInt(1))}
		for j := uint(8); j < uint(8*L-256); j += 24 {
			ks = append(ks, new(big.Int).Lsh(big.NewInt(1), j), new(big.Int).Sub(new(big.Int).Lsh(big.NewInt(1), j), big.NewInt(1)))
		}
		for _, k := range ks {
			if k.Sign() <= 0 || k.Cmp(kmax) > 0 {
				continue
			}
			for d := int64(-1); d <= 1; d++ {
				v := new(big.Int).Add(new(big.Int).Mul(k, ref.P), big.NewInt(d))
				if v.Sign() < 0 || v.Cmp(maxv) > 0 {
					continue
				}
				b := make([]byte, L)
				v.FillBytes(b)
				cases = append(cases, wcase{b, "k*p+d"})
			}
		}
		// counter bytes
		cb := make([]byte, L)
		for i := range cb {
			cb[i] = byte(i*37 + L)
		}
		cases = append(cases, wcase{cb, "counter"})
	}
	run := func(b []byte) string {
		in := append([]byte{}, b...)
		e := mk(poison)
		var ret *FE
		if p := try(func() { ret = e.SetWideBytes(in) }); p != "" {
			return "panic: " + p
		}
		want := ref.ModP(ref.OS2IP(b))
		if ret != e || !bytes.Equal(e.Bytes(), ref.B32(want)) {
			return fmt.Sprintf("got %x want %x", e.Bytes(), ref.B32(want))
		}
		if !bytes.Equal(in, b) {
			return "input modified"
		}
		return ""
	}
	mc.Par(len(cases), func(i int) {
		R.T(1)
		R.State(mc.H(cases[i].b))
		R.NT(mc.H(cases[i].b))
		if m := run(cases[i].b); m != "" {
			b := cases[i].b
			R.Fail(fmt.Sprintf("field/SetWideBytes/len=%d", len(b)), "wide", map[string]any{"bytes": mc.Hex(b), "class": cases[i].cls, "mismatch": m}, func() bool { return run(b) != "" })
		}
	})
	R.Class("wide/cases (every length 32..64)", int64(len(cases)))
	// call history: every ordered pair of lengths (a reduction of length l1 with all-ones content, immediately
	// followed by one of length l2) must give the same result as the second call alone. Run sequentially in
	// one goroutine so that the history is exactly the one described.
	nseq := 0
	for l1 := 32; l1 <= 64; l1++ {
		for l2 := 32; l2 <= 64; l2++ {
			a := bytes.Repeat([]byte{0xff}, l1)
			b := make([]byte, l2)
			for i := range b {
				b[i] = byte(i*37 + l2)
			}
			mk(poison).SetWideBytes(a)
			nseq++
			if m := run(b); m != "" {
				R.Fail(fmt.Sprintf("field/SetWideBytes/history/len %d after len %d", l2, l1), "wideseq", map[string]any{"first_len": l1, "bytes": mc.Hex(b), "mismatch": "after a call of length " + fmt.Sprint(l1) + ": " + m}, nil)
			}
		}
	}
	R.T(int64(nseq))
	R.Class("wide/ordered pairs of lengths (call history)", int64(nseq))
	R.Sample("wide", map[string]any{"len": 48, "bytes": "ff*48", "expect": hexv(ref.ModP(ref.OS2IP(bytes.Repeat([]byte{0xff}, 48))))})
	// out-of-range lengths: recorded, not judged (the statement is silent)
	for _, L := range []int{0, 1, 31, 65, 70} {
		p := try(func() { new(FE).SetWideBytes(make([]byte, L)) })
		R.Class(fmt.Sprintf("wide/observed(not judged): len %d panics=%v", L, p != ""), 1)
	}
	// setShortBytes hook: every length 0..31
	if h := secp256k1.VerifFieldSetShortBytes(); h != nil {
		for L := 0; L < 32; L++ {
			for _, fill := range []byte{0x00, 0xff, 0x01, 0x80} {
				b := bytes.Repeat([]byte{fill}, L)
				e := mk(poison)
				R.T(1)
				h(e, b)
				if !bytes.Equal(e.Bytes(), ref.B32(ref.OS2IP(b))) {
					R.Fail(fmt.Sprintf("field/setShortBytes/len=%d", L), "short", map[string]any{"bytes": mc.Hex(b)}, nil)
				}
			}
		}
	} else {
		R.SkipHook("setShortBytes")
	}
	// reduceSaturated hook on limb patterns
	if h := secp256k1.VerifFieldReduceSaturated(); h != nil {
		lv := []uint64{0, 1, 1 << 63, 1<<63 - 1, ^uint64(0), ^uint64(0) - 1, 0xfffffffefffffc2f, 0xfffffffefffffc2e, 0xfffffffefffffc30, 0x7ffffffefffffc2f}
		n := 0
		for _, l3 := range lv {
			for _, l2 := range lv {
				for _, l1 := range lv {
					for _, l0 := range lv {
						src := [4]uint64{l0, l1, l2, l3}
						x := limbsBig(src)
						var dst [4]uint64
						// distinct dst, then aliased dst==src (how the library calls it)
						for _, aliased := range []bool{false, true} {
							s := src
							var flag uint64
							if aliased {
								flag = h(&s, &s)
								dst = s
							} else {
								flag = h(&dst, &s)
							}
							want := x
							wf := uint64(0)
							if x.Cmp(ref.P) >= 0 {
								want = new(big.Int).Sub(x, ref.P)
								wf = 1
							}
							n++
							if flag != wf || limbsBig(dst).Cmp(want) != 0 {
								R.Fail("field/reduceSaturated", "reduce", map[string]any{"src": hexv(x), "flag": flag, "dst": hexv(limbsBig(dst)), "aliased": aliased}, nil)
							}
						}
					}
				}
			}
		}
		R.T(int64(n))
		R.Class("reduceSaturated/limb patterns", int64(n))
	} else {
		R.SkipHook("reduceSaturated")
	}
}

func exploreUint64() {
	for _, u := range mc.Uint64s {
		R.T(1)
		e := secp256k1.VerifFENewFromUint64(u)
		if !bytes.Equal(e.Bytes(), ref.B32(new(big.Int).SetUint64(u))) {
			R.Fail("field/NewElementFromUint64", "u64", map[string]any{"v": u}, nil)
		}
		// what a constructor returns belongs to the caller: using it as an accumulator changes neither the next
		// object the constructor returns nor any constant the library works with (square roots use 1 internally)
		e.Add(e, mk(big.NewInt(6)))
		e.Multiply(e, e)
		e2 := secp256k1.VerifFENewFromUint64(u)
		four, ok := new(FE).Sqrt(mk(big.NewInt(16)))
		if !bytes.Equal(e2.Bytes(), ref.B32(new(big.Int).SetUint64(u))) || ok != 1 || !(bytes.Equal(four.Bytes(), ref.B32(big.NewInt(4))) || bytes.Equal(four.Bytes(), ref.B32(new(big.Int).Sub(ref.P, big.NewInt(4))))) {
			R.Fail("field/NewElementFromUint64 result is caller-owned", "u64", map[string]any{"v": u, "what": "after the caller modified an element returned by the constructor, the constructor (or Sqrt(16)) answers differently: the constructor hands out a shared object"}, nil)
		}
	}
	// Zero / One
	e := mk(poison)
	if !bytes.Equal(e.Zero().Bytes(), ref.B32(big.NewInt(0))) || !bytes.Equal(mk(poison).One().Bytes(), ref.B32(big.NewInt(1))) {
		R.Fail("field/ZeroOne", "u64", nil, nil)
	}
	// zero value is a valid zero element
	var z FE
	if z.IsZero() != 1 || !bytes.Equal(z.Bytes(), make([]byte, 32)) {
		R.Fail("field/zero-value", "u64", nil, nil)
	}
	_ = bits.Len
}

func main() {
	R = mc.New("C01")
	if len(os.Args) > 2 && os.Args[1] == "-replay" {
		replay(os.Args[2])
		return
	}
	if err := ref.SelfTestCurve(); err != nil {
		fmt.Fprintln(os.Stderr, "reference self-test failed:", err)
		os.Exit(2)
	}
	if err := mc.ReductionSelfTest(); err != nil {
		fmt.Fprintln(os.Stderr, "alphabet generator self-test failed:", err)
		os.Exit(2)
	}
	R.Rule("states = distinct field values / byte strings visited; a transition is one operation application under one alias pattern, run on the implementation and the math/big model; non-trivial = steered boundary pairs, non-canonical strings, wide-reduction strings")
	R.Assume("math/big and the Go toolchain are correct; the reference model in /verif/ref")
	R.Config("amd64 default build")
	nSeed := 16
	if R.Thorough() {
		nSeed = 64
	}
	fe := mc.ModAlphabet(ref.P, mc.FieldConstants(), R.Seed, nSeed, true)
	pairs := mc.SteeredPairs(ref.P, R.Seed)
	R.Bound("FE_alphabet", len(fe))
	R.Bound("steered_pairs", len(pairs))
	R.Bound("alias_patterns", "all set partitions of {receiver,a,b} (5) / {receiver,a} (2)")
	exploreUint64()
	explorePredicates(fe)
	explorePredicateMatrix()
	exploreSqrtRatio(subAlphabet(fe, map[bool]int{false: 48, true: 110}[R.Thorough()]))
	exploreWide()
	exploreDecode(fe)
	exploreArith(fe, pairs)
	R.Expect("sqrt/square", "sqrt/non-square", "sqrt_ratio/square", "sqrt_ratio/non-square", "decode/non-canonical string", "steering/stored limbs verified Montgomery images")
	lib.ReportCarryCoverage(R, false)
	R.Finish()
}
