package main

import (
	"encoding/hex"
	"fmt"

	"verif/mc"
)

// replay re-executes exactly one recorded case without the explorer.
func replay(path string) {
	v := mc.LoadReplay(path)
	fmt.Printf("recorded: %v\n", v.Detail)
	switch v.Kind {
	case "unary":
		for _, op := range unops() {
			if op.name == v.DS("op") {
				op := op
				mc.ReplayResult(v, runUn(&op, v.DBig("a"), v.DS("alias") == "z=a"))
			}
		}
	case "binary":
		for _, op := range binops() {
			if op.name == v.DS("op") {
				for _, al := range binAliases {
					if al.name == v.DS("alias") {
						op := op
						mc.ReplayResult(v, runBin(&op, v.DBig("a"), v.DBig("b"), al))
					}
				}
			}
		}
	case "decode":
		mc.ReplayResult(v, decodeOne(v.DBig("bytes"), false))
	case "wide":
		b, _ := hex.DecodeString(v.DS("bytes"))
		e := mk(poison)
		e.SetWideBytes(b)
		fmt.Printf("SetWideBytes -> %x\n", e.Bytes())
	}
	fmt.Println("replay: this case kind has no single-case runner; re-run the check to reproduce")
}
