// C02 — scalar operations are exact arithmetic modulo the group order n.
//
// Explicit-state exploration of the transition system whose states are
// integers mod n and whose transitions are the Scalar operations, executed on
// the real implementation in lock-step with the math/big model.
package main

import (
	"bytes"
	"fmt"
	"math/big"
	"sort"
	"sync"

	secp256k1 "gitlab.com/yawning/secp256k1-voi"

	"verif/lib"
	"verif/mc"
	"verif/ref"
)

type SC = secp256k1.Scalar

var (
	R      *mc.Report
	poison = ref.ModN(new(big.Int).SetBytes(bytes.Repeat([]byte{0xd7}, 32)))
)

func mk(v *big.Int) *SC {
	s, err := secp256k1.NewScalarFromCanonicalBytes(ref.A32(v))
	if err != nil {
		R.Fail("scalar/SetCanonicalBytes rejects a canonical value", "decode", map[string]any{"bytes": mc.HexBig(v), "mismatch": "canonical value in [0,n) rejected: " + err.Error()}, nil)
		s = secp256k1.NewScalar()
		secp256k1.VerifScalarSetLimbs(s, bigLimbs(ref.ZnMul(v, ref.R256)))
	}
	return s
}

func hexv(v *big.Int) string { return mc.HexBig(v) }

func val(s *SC) *big.Int { return ref.OS2IP(s.Bytes()) }

// ---------------------------------------------------------------- operations

type unop struct {
	name string
	f    func(z, a *SC) *SC
	ref  func(a *big.Int) *big.Int
	slow bool
}

type binop struct {
	name string
	f    func(z, a, b *SC) *SC
	ref  func(a, b *big.Int) *big.Int
}

var pow2ks = []uint{1, 2, 3, 4, 7, 8, 32, 64, 127, 128, 255, 256}

func unops() []unop {
	ops := []unop{
		{"Negate", func(z, a *SC) *SC { return z.Negate(a) }, ref.ZnNeg, false},
		{"Square", func(z, a *SC) *SC { return z.Square(a) }, func(a *big.Int) *big.Int { return ref.ZnMul(a, a) }, false},
		{"Set", func(z, a *SC) *SC { return z.Set(a) }, ref.ModN, false},
		{"Invert", func(z, a *SC) *SC { return z.Invert(a) }, ref.ZnInv, true},
		{"Sum(a)", func(z, a *SC) *SC { return z.Sum(a) }, ref.ModN, false},
		{"Product(a)", func(z, a *SC) *SC { return z.Product(a) }, ref.ModN, false},
	}
	for _, c := range mc.Ctrls {
		c := c
		ops = append(ops, unop{fmt.Sprintf("ConditionalNegate(ctrl=%#x)", c), func(z, a *SC) *SC { return z.ConditionalNegate(a, c) },
			func(a *big.Int) *big.Int {
				if c == 0 {
					return ref.ModN(a)
				}
				return ref.ZnNeg(a)
			}, false})
	}
	if h := secp256k1.VerifScalarPow2k; h != nil {
		for _, k := range pow2ks {
			k := k
			ops = append(ops, unop{fmt.Sprintf("pow2k(%d)(hook)", k), func(z, a *SC) *SC { return h(z, a, k) },
				func(a *big.Int) *big.Int {
					r := ref.ModN(a)
					for i := uint(0); i < k; i++ {
						r = ref.ZnMul(r, r)
					}
					return r
				}, k > 8})
		}
	}
	return ops
}

func binops() []binop {
	ops := []binop{
		{"Add", func(z, a, b *SC) *SC { return z.Add(a, b) }, ref.ZnAdd},
		{"Subtract", func(z, a, b *SC) *SC { return z.Subtract(a, b) }, ref.ZnSub},
		{"Multiply", func(z, a, b *SC) *SC { return z.Multiply(a, b) }, ref.ZnMul},
		{"Sum(a,b)", func(z, a, b *SC) *SC { return z.Sum(a, b) }, ref.ZnAdd},
		{"Product(a,b)", func(z, a, b *SC) *SC { return z.Product(a, b) }, ref.ZnMul},
	}
	for _, c := range mc.Ctrls {
		c := c
		ops = append(ops, binop{fmt.Sprintf("ConditionalSelect(ctrl=%#x)", c), func(z, a, b *SC) *SC { return z.ConditionalSelect(a, b, c) },
			func(a, b *big.Int) *big.Int {
				if c == 0 {
					return ref.ModN(a)
				}
				return ref.ModN(b)
			}})
	}
	return ops
}

var (
	uops []unop
	bops []binop
)

// alias patterns for z = op(a,b): the 5 set partitions of {z,a,b}.
var binAliases = []string{"z|a|b", "z=a|b", "z=b|a", "a=b|z", "z=a=b"}

// checkResult compares a result object with the model value: canonical bytes,
// the representation invariant (stored limbs < n, through the limb hook) and
// the public observers Equal / IsZero, which read the stored limbs directly.
func checkResult(z *SC, exp *big.Int) string {
	if got := z.Bytes(); !bytes.Equal(got, ref.B32(exp)) {
		return fmt.Sprintf("result %x, model %x", got, ref.B32(exp))
	}
	if l := limbsBig(secp256k1.VerifScalarLimbs(z)); l.Cmp(ref.N) >= 0 {
		return fmt.Sprintf("result stored unreduced: limbs %x >= n (model %x)", l, exp)
	}
	e := mk(exp)
	if z.Equal(e) != 1 || e.Equal(z) != 1 {
		return fmt.Sprintf("result encodes as the model value %x but Equal(model) = 0", exp)
	}
	wz := uint64(0)
	if exp.Sign() == 0 {
		wz = 1
	}
	if z.IsZero() != wz {
		return fmt.Sprintf("IsZero of result = %d, model %d", z.IsZero(), wz)
	}
	// the encoding handed out belongs to the caller: writing into it changes no later encoding
	got := z.Bytes()
	for i := range got {
		got[i] ^= 0x5a
	}
	if again := z.Bytes(); !bytes.Equal(again, ref.B32(exp)) {
		return fmt.Sprintf("after the caller wrote into a returned encoding, Bytes() = %x, model %x (the encoder hands out shared memory)", again, ref.B32(exp))
	}
	return ""
}

func runBin(op *binop, va, vb *big.Int, al int) string {
	if al >= 3 && va.Cmp(vb) != 0 {
		return ""
	}
	a := mk(va)
	b := a
	if al < 3 {
		b = mk(vb)
	}
	var z *SC
	switch al {
	case 1, 4:
		z = a
	case 2:
		z = b
	default:
		z = mk(poison)
	}
	ret := op.f(z, a, b)
	exp := op.ref(va, vb)
	if ret != z {
		return "did not return the receiver"
	}
	if m := checkResult(z, exp); m != "" {
		return m
	}
	if a != z && !bytes.Equal(a.Bytes(), ref.B32(va)) {
		return "operand a modified"
	}
	if b != z && !bytes.Equal(b.Bytes(), ref.B32(vb)) {
		return "operand b modified"
	}
	return ""
}

func runUn(op *unop, va *big.Int, aliased bool) string {
	a := mk(va)
	z := a
	if !aliased {
		z = mk(poison)
	}
	ret := op.f(z, a)
	exp := op.ref(va)
	if ret != z {
		return "did not return the receiver"
	}
	if m := checkResult(z, exp); m != "" {
		return m
	}
	if !aliased && !bytes.Equal(a.Bytes(), ref.B32(va)) {
		return "operand modified"
	}
	return ""
}

func findUn(name string) *unop {
	for i := range uops {
		if uops[i].name == name {
			return &uops[i]
		}
	}
	return nil
}

func findBin(name string) *binop {
	for i := range bops {
		if bops[i].name == name {
			return &bops[i]
		}
	}
	return nil
}

// runPred: IsZero, IsGreaterThanHalfN, Equal(self), Bytes round trip.
func runPred(v *big.Int) string {
	s := mk(v)
	wz, wh := uint64(0), uint64(0)
	if v.Sign() == 0 {
		wz = 1
	}
	if v.Cmp(ref.HalfN) > 0 {
		wh = 1
	}
	if g := s.IsZero(); g != wz {
		return fmt.Sprintf("IsZero=%d want %d", g, wz)
	}
	if g := s.IsGreaterThanHalfN(); g != wh {
		return fmt.Sprintf("IsGreaterThanHalfN=%d want %d", g, wh)
	}
	if s.Equal(s) != 1 || s.Equal(mk(v)) != 1 {
		return "Equal(self) != 1"
	}
	if !bytes.Equal(s.Bytes(), ref.B32(v)) {
		return "Bytes not canonical"
	}
	if c := secp256k1.NewScalarFrom(s); !bytes.Equal(c.Bytes(), ref.B32(v)) || c == s {
		return "NewScalarFrom"
	}
	return ""
}

func runEqual(va, vb *big.Int) string {
	a, b := mk(va), mk(vb)
	want := uint64(0)
	if va.Cmp(vb) == 0 {
		want = 1
	}
	if a.Equal(b) != want || b.Equal(a) != want {
		return fmt.Sprintf("Equal=%d/%d want %d", a.Equal(b), b.Equal(a), want)
	}
	return ""
}

// runDecode checks every decoder on one 32-byte string x in [0,2^256).
func runDecode(x *big.Int) string {
	b := ref.A32(x)
	canonical := x.Cmp(ref.N) < 0
	want := ref.ModN(x)
	wf := uint64(1)
	if canonical {
		wf = 0
	}
	// SetBytes (receiver pre-loaded)
	z := mk(poison)
	ret, flag := z.SetBytes(b)
	if ret != z || flag != wf || !bytes.Equal(z.Bytes(), ref.B32(want)) {
		return fmt.Sprintf("SetBytes: flag=%d (want %d) value=%x (want %x)", flag, wf, z.Bytes(), ref.B32(want))
	}
	n, flag2 := secp256k1.NewScalarFromBytes(b)
	if flag2 != wf || !bytes.Equal(n.Bytes(), ref.B32(want)) {
		return "NewScalarFromBytes disagrees"
	}
	// SetCanonicalBytes: reject => nil,error, receiver bit-identical
	z2 := mk(poison)
	before := secp256k1.VerifScalarLimbs(z2)
	ret2, err := z2.SetCanonicalBytes(b)
	if canonical {
		if err != nil || ret2 != z2 || !bytes.Equal(z2.Bytes(), ref.B32(x)) {
			return fmt.Sprintf("SetCanonicalBytes rejected/mis-decoded canonical input: err=%v", err)
		}
	} else {
		if err == nil || ret2 != nil {
			return "SetCanonicalBytes accepted a non-canonical encoding"
		}
		if secp256k1.VerifScalarLimbs(z2) != before {
			return "SetCanonicalBytes modified the receiver on failure"
		}
	}
	n2, err2 := secp256k1.NewScalarFromCanonicalBytes(b)
	if canonical != (err2 == nil) || (err2 != nil && n2 != nil) || (err2 == nil && !bytes.Equal(n2.Bytes(), ref.B32(x))) {
		return "NewScalarFromCanonicalBytes disagrees"
	}
	if !bytes.Equal(b[:], ref.B32(x)) {
		return "input buffer modified"
	}
	return ""
}

// runVec: Sum / Product over a vector with an explicit pointer pattern.
// objs: distinct objects (values); slots: indices into objs per vector entry;
// recv: -1 = fresh receiver, else index into objs.
func runVec(product bool, objs []*big.Int, slots []int, recv int) string {
	os := make([]*SC, len(objs))
	for i, v := range objs {
		os[i] = mk(v)
	}
	vec := make([]*SC, len(slots))
	exp := big.NewInt(0)
	if product {
		exp = big.NewInt(1)
	}
	for i, s := range slots {
		vec[i] = os[s]
		if product {
			exp = ref.ZnMul(exp, objs[s])
		} else {
			exp = ref.ZnAdd(exp, objs[s])
		}
	}
	z := mk(poison)
	if recv >= 0 {
		z = os[recv]
	}
	var ret *SC
	if product {
		ret = z.Product(vec...)
	} else {
		ret = z.Sum(vec...)
	}
	if ret != z {
		return "did not return the receiver"
	}
	if m := checkResult(z, exp); m != "" {
		return m
	}
	for i, o := range os {
		if o != z && !bytes.Equal(o.Bytes(), ref.B32(objs[i])) {
			return fmt.Sprintf("operand %d modified", i)
		}
	}
	return ""
}

func limbsBig(l [4]uint64) *big.Int {
	v := new(big.Int)
	for i := 3; i >= 0; i-- {
		v.Lsh(v, 64)
		v.Or(v, new(big.Int).SetUint64(l[i]))
	}
	return v
}

func bigLimbs(v *big.Int) (l [4]uint64) {
	m := new(big.Int).SetUint64(^uint64(0))
	t := new(big.Int).Set(v)
	for i := 0; i < 4; i++ {
		l[i] = new(big.Int).And(t, m).Uint64()
		t.Rsh(t, 64)
	}
	return
}

func runReduce(x *big.Int, aliased bool) string {
	h := secp256k1.VerifScalarReduceSaturated
	if h == nil {
		return ""
	}
	src := bigLimbs(x)
	var dst [4]uint64
	var flag uint64
	if aliased {
		s := src
		flag = h(&s, &s)
		dst = s
	} else {
		flag = h(&dst, &src)
	}
	want, wf := x, uint64(0)
	if x.Cmp(ref.N) >= 0 {
		want, wf = new(big.Int).Sub(x, ref.N), 1
	}
	if flag != wf || limbsBig(dst).Cmp(want) != 0 {
		return fmt.Sprintf("reduceSaturated: flag=%d dst=%x, want flag=%d dst=%x", flag, limbsBig(dst), wf, want)
	}
	return ""
}

func register() {
	mc.Register("un", func(d mc.D) string {
		op := findUn(d.S("op"))
		if op == nil {
			return "unknown op (hook missing?)"
		}
		return runUn(op, d.Big("a"), d.Bool("aliased"))
	})
	mc.Register("bin", func(d mc.D) string {
		op := findBin(d.S("op"))
		if op == nil {
			return "unknown op"
		}
		return runBin(op, d.Big("a"), d.Big("b"), d.I("alias"))
	})
	mc.Register("pred", func(d mc.D) string { return runPred(d.Big("a")) })
	mc.Register("equal", func(d mc.D) string { return runEqual(d.Big("a"), d.Big("b")) })
	mc.Register("decode", func(d mc.D) string { return runDecode(d.Big("bytes")) })
	mc.Register("reduce", func(d mc.D) string { return runReduce(d.Big("src"), d.Bool("aliased")) })
	mc.Register("vec", func(d mc.D) string {
		var objs []*big.Int
		for _, s := range d.L("objs") {
			v, _ := new(big.Int).SetString(s, 16)
			objs = append(objs, v)
		}
		return runVec(d.Bool("product"), objs, d.IL("slots"), d.I("recv"))
	})
	mc.Register("u64", func(d mc.D) string {
		u := d.U64("v")
		x := secp256k1.NewScalarFromUint64(u)
		if !bytes.Equal(x.Bytes(), ref.B32(new(big.Int).SetUint64(u))) {
			return "NewScalarFromUint64 wrong"
		}
		// the result is the caller's: used as an accumulator it changes no later result of the constructors
		x.Add(x, mk(big.NewInt(6)))
		x.Multiply(x, x)
		if !bytes.Equal(secp256k1.NewScalarFromUint64(u).Bytes(), ref.B32(new(big.Int).SetUint64(u))) || secp256k1.NewScalar().IsZero() != 1 {
			return "after the caller modified a scalar returned by NewScalarFromUint64, the constructors answer differently (shared object handed out)"
		}
		return ""
	})
}

// ---------------------------------------------------------------- exploration

type vset struct {
	mu sync.Mutex
	m  map[string]*big.Int
}

func (s *vset) add(v *big.Int) {
	k := string(ref.B32(v))
	s.mu.Lock()
	if _, ok := s.m[k]; !ok {
		s.m[k] = v
	}
	s.mu.Unlock()
}

func (s *vset) sorted() []*big.Int {
	out := make([]*big.Int, 0, len(s.m))
	for _, v := range s.m {
		out = append(out, v)
	}
	sort.Slice(out, func(i, j int) bool { return out[i].Cmp(out[j]) < 0 })
	return out
}

func st(v *big.Int) { R.State(mc.H(ref.B32(v))) }

func failUn(tag string, op *unop, va *big.Int, aliased bool, m string) {
	R.Mismatch("scalar/"+op.name+"/aliased="+fmt.Sprint(aliased)+tag, "un", m, mc.D{"op": op.name, "a": hexv(va), "aliased": aliased})
}

func failBin(tag string, op *binop, va, vb *big.Int, al int, m string) {
	R.Mismatch("scalar/"+op.name+"/"+binAliases[al]+tag, "bin", m, mc.D{"op": op.name, "a": hexv(va), "b": hexv(vb), "alias": al, "alias_name": binAliases[al]})
}

func subAlphabet(a []mc.Val, n int) []mc.Val {
	if len(a) <= n {
		return a
	}
	var out []mc.Val
	step := float64(len(a)) / float64(n)
	for i := 0; i < n; i++ {
		out = append(out, a[int(float64(i)*step)])
	}
	return out
}

func exploreArith(sc []mc.Val, pairs []mc.Pair) {
	level1 := &vset{m: map[string]*big.Int{}}
	for _, v := range sc {
		st(v.V)
	}
	R.Class("alphabet/SC", int64(len(sc)))
	// unary + predicates, complete over SC
	mc.Par(len(sc), func(i int) {
		va := sc[i].V
		for oi := range uops {
			op := &uops[oi]
			for _, aliased := range []bool{false, true} {
				R.T(1)
				if m := mc.Safe(func() string { return runUn(op, va, aliased) }); m != "" {
					failUn("", op, va, aliased, m)
				}
			}
			level1.add(op.ref(va))
		}
		R.T(1)
		if m := mc.Safe(func() string { return runPred(va) }); m != "" {
			R.Mismatch("scalar/predicates", "pred", m, mc.D{"a": hexv(va), "label": sc[i].Label})
		}
		if va.Cmp(ref.HalfN) > 0 {
			R.Class("IsGreaterThanHalfN/true", 1)
		} else {
			R.Class("IsGreaterThanHalfN/false", 1)
		}
	})
	R.Sample("unary", map[string]any{"op": "Invert", "alias": "z=a", "a": hexv(sc[len(sc)/2].V), "result": hexv(ref.ZnInv(sc[len(sc)/2].V))})

	// binary, complete over SC x SC, every alias pattern
	mc.Par(len(sc), func(i int) {
		va := sc[i].V
		var t int64
		for j := range sc {
			vb := sc[j].V
			for oi := range bops {
				op := &bops[oi]
				for al := range binAliases {
					if al >= 3 && i != j {
						continue
					}
					t++
					if m := mc.Safe(func() string { return runBin(op, va, vb, al) }); m != "" {
						failBin("", op, va, vb, al, m)
					}
				}
				if oi < 3 {
					level1.add(op.ref(va, vb))
				}
			}
			t++
			if m := mc.Safe(func() string { return runEqual(va, vb) }); m != "" {
				R.Mismatch("scalar/Equal", "equal", m, mc.D{"a": hexv(va), "b": hexv(vb)})
			}
		}
		R.T(t)
	})
	R.Sample("binary", map[string]any{"op": "Multiply", "alias": "z=b|a", "a": hexv(sc[len(sc)/2].V), "b": hexv(sc[len(sc)/3].V),
		"result": hexv(ref.ZnMul(sc[len(sc)/2].V, sc[len(sc)/3].V))})

	// steered pairs
	okRep := true
	for _, p := range pairs {
		sa, sb := limbsBig(secp256k1.VerifScalarLimbs(mk(p.A))), limbsBig(secp256k1.VerifScalarLimbs(mk(p.B)))
		if sa.Cmp(ref.ZnMul(p.A, ref.R256)) != 0 || sb.Cmp(ref.ZnMul(p.B, ref.R256)) != 0 {
			okRep = false
		}
	}
	if okRep {
		R.Class("steering/stored limbs verified Montgomery images", int64(len(pairs)))
	} else {
		R.Note("representation is not the plain Montgomery form a*2^256 mod n: steered classes are not guaranteed to hit their windows")
	}
	for _, p := range pairs {
		R.Class("steered/"+p.Class, 1)
		R.NT(mc.HS("steer", p.Class, hexv(p.A), hexv(p.B)))
		for oi := range bops[:5] {
			op := &bops[oi]
			for al := range binAliases {
				R.T(1)
				if m := mc.Safe(func() string { return runBin(op, p.A, p.B, al) }); m != "" {
					failBin("/steered:"+p.Class, op, p.A, p.B, al, m)
				}
			}
			level1.add(op.ref(p.A, p.B))
		}
		for _, v := range []*big.Int{p.A, p.B} {
			R.T(1)
			if m := mc.Safe(func() string { return runUn(&uops[1], v, false) }); m != "" {
				failUn("/steered", &uops[1], v, false, m)
			}
		}
	}
	if len(pairs) > 0 {
		p := pairs[len(pairs)-1]
		R.Sample("steered", map[string]any{"class": p.Class, "a": hexv(p.A), "b": hexv(p.B)})
	}

	// level 2 closure
	l1 := level1.sorted()
	R.Class("level1/distinct results", int64(len(l1)))
	for _, v := range l1 {
		st(v)
	}
	capL1, nsub := 2500, 48
	if R.Thorough() {
		capL1, nsub = 1<<30, 128
	}
	if len(l1) > capL1 {
		R.Cap(fmt.Sprintf("level 2 (quick): %d of %d level-1 results (evenly spaced) x a %d-value sub-alphabet; thorough covers all level-1 results", capL1, len(l1), nsub))
		step := len(l1) / capL1
		var s []*big.Int
		for i := 0; i < len(l1); i += step {
			s = append(s, l1[i])
		}
		l1 = s
	}
	sub := subAlphabet(sc, nsub)
	R.Bound("closure_depth", 2)
	R.Bound("level2_sub_alphabet", len(sub))
	mc.Par(len(l1), func(i int) {
		if R.Expired() {
			return
		}
		va := l1[i]
		var t int64
		for oi := range uops {
			op := &uops[oi]
			if op.slow && i%8 != 0 && !R.Thorough() {
				continue
			}
			t++
			if m := mc.Safe(func() string { return runUn(op, va, i%2 == 0) }); m != "" {
				failUn("/level2", op, va, i%2 == 0, m)
			}
		}
		t++
		if m := mc.Safe(func() string { return runPred(va) }); m != "" {
			R.Mismatch("scalar/predicates/level2", "pred", m, mc.D{"a": hexv(va)})
		}
		for j := range sub {
			vb := sub[j].V
			for oi := range bops[:3] {
				op := &bops[oi]
				al := (i + j + oi) % 3
				t += 2
				if m := mc.Safe(func() string { return runBin(op, va, vb, al) }); m != "" {
					failBin("/level2", op, va, vb, al, m)
				}
				if m := mc.Safe(func() string { return runBin(op, vb, va, al) }); m != "" {
					failBin("/level2", op, vb, va, al, m)
				}
				st(op.ref(va, vb))
			}
		}
		R.T(t)
	})
	if R.Expired() {
		R.Cap("level 2 stopped by the internal time budget")
	}
}

// all vectors of length 0..maxLen over a small value alphabet, with every
// pointer pattern: slots are restricted-growth strings over objects, so the
// same *Scalar appears in several entries; the receiver is fresh or any object.
func exploreVectors() {
	vals := []*big.Int{big.NewInt(0), big.NewInt(1), big.NewInt(2), new(big.Int).Sub(ref.N, big.NewInt(1)), ref.HalfN,
		ref.ModN(new(big.Int).Lsh(big.NewInt(1), 255)), ref.Lambda}
	maxLen := 4
	var n int64
	type job struct {
		objs  []*big.Int
		slots []int
	}
	var jobs []job
	for L := 0; L <= maxLen; L++ {
		for _, part := range mc.Partitions(L) {
			nobj := 0
			for _, b := range part {
				if b+1 > nobj {
					nobj = b + 1
				}
			}
			// every assignment of alphabet values to the nobj objects
			idx := make([]int, nobj)
			for {
				objs := make([]*big.Int, nobj)
				for i := range idx {
					objs[i] = vals[idx[i]]
				}
				jobs = append(jobs, job{objs, append([]int{}, part...)})
				k := 0
				for k < nobj {
					idx[k]++
					if idx[k] < len(vals) {
						break
					}
					idx[k] = 0
					k++
				}
				if k == nobj {
					break
				}
			}
		}
		if L == 0 {
			jobs = append(jobs, job{nil, nil})
		}
	}
	mc.Par(len(jobs), func(i int) {
		j := jobs[i]
		var t int64
		for recv := -1; recv < len(j.objs); recv++ {
			for _, product := range []bool{false, true} {
				t++
				if m := mc.Safe(func() string { return runVec(product, j.objs, j.slots, recv) }); m != "" {
					var hs []string
					for _, o := range j.objs {
						hs = append(hs, hexv(o))
					}
					R.Mismatch(fmt.Sprintf("scalar/vec/product=%v/len=%d/recv-in-vec=%v", product, len(j.slots), recv >= 0), "vec", m,
						mc.D{"product": product, "objs": hs, "slots": j.slots, "recv": recv})
				}
			}
		}
		R.T(t)
		R.NT(mc.HS("vec", fmt.Sprint(j.slots), fmt.Sprint(j.objs)))
	})
	n = int64(len(jobs))
	R.Class("vectors/(values x pointer patterns), lengths 0..4", n)
	R.Bound("vector_len_max", maxLen)
	R.Sample("vector", map[string]any{"op": "Product", "objs": []string{"n-1", "2"}, "slots": []int{0, 1, 0}, "recv": 0, "meaning": "z=objs[0]; z.Product(objs[0],objs[1],objs[0])"})
	// the empty vectors explicitly
	if m := mc.Safe(func() string { return runVec(true, nil, nil, -1) }); m != "" {
		R.Mismatch("scalar/vec/Product()", "vec", m, mc.D{"product": true, "objs": []string{}, "slots": []int{}, "recv": -1})
	}
	if m := mc.Safe(func() string { return runVec(false, nil, nil, -1) }); m != "" {
		R.Mismatch("scalar/vec/Sum()", "vec", m, mc.D{"product": false, "objs": []string{}, "slots": []int{}, "recv": -1})
	}
}

func exploreDecode(sc []mc.Val) {
	d := new(big.Int).Sub(ref.R256, ref.N) // size of the non-canonical window
	var xs []*big.Int
	add := func(x *big.Int) {
		if x.Sign() >= 0 && x.Cmp(ref.R256) < 0 {
			xs = append(xs, x)
		}
	}
	for _, v := range sc {
		add(v.V)
		add(new(big.Int).Add(v.V, ref.N)) // alias +n where it fits
	}
	// both ends of [n, 2^256) and both ends of [0, n): bands
	band := int64(1 << 14)
	if R.Thorough() {
		band = 1 << 20
	}
	R.Bound("noncanonical_band", band)
	R.Cap(fmt.Sprintf("the non-canonical window [n,2^256) has 2^128.4 members and cannot be exhausted: covered are bands of %d at each end, all delta of Hamming weight <= 2, and structured values", band))
	for _, dl := range hw2(d) {
		add(new(big.Int).Add(ref.N, dl))
	}
	// limb-structured values: n - 2^k, 2^256-1-2^k, 2^k, 2^k-1, n + 2^k for every k (the range check is a
	// multi-limb borrow chain)
	for k := uint(0); k < 256; k++ {
		p2 := new(big.Int).Lsh(big.NewInt(1), k)
		add(new(big.Int).Sub(ref.N, p2))
		add(new(big.Int).Sub(new(big.Int).Sub(ref.R256, big.NewInt(1)), p2))
		add(p2)
		add(new(big.Int).Sub(p2, big.NewInt(1)))
		add(new(big.Int).Add(ref.N, p2))
	}
	top := new(big.Int).Sub(ref.R256, big.NewInt(1))
	var n int64
	check := func(x *big.Int) {
		if m := mc.Safe(func() string { return runDecode(x) }); m != "" {
			R.Mismatch("scalar/decode", "decode", m, mc.D{"bytes": hexv(x)})
		}
	}
	// every combination of structured 64-bit words (limb-wise comparisons with a wrong operator, a skipped limb, a truncated word)
	wp := mc.WordPatternStrings(ref.N)
	xs = append(xs, wp...)
	R.Class("decode/word-pattern strings (11^4)", int64(len(wp)))
	mc.Par(len(xs), func(i int) { check(xs[i]); st(xs[i]) })
	n += int64(len(xs))
	nshard := 64
	mc.Par(nshard, func(s int) {
		x := new(big.Int)
		for k := int64(s); k < band; k += int64(nshard) {
			bk := big.NewInt(k)
			check(x.Add(ref.N, bk)) // n + k      (non-canonical)
			check(x.Sub(ref.N, bk)) // n - k      (canonical for k>0)
			check(x.Sub(top, bk))   // 2^256-1-k  (non-canonical)
			check(x.Set(bk))        // k
			check(x.Add(ref.HalfN, bk))
		}
	})
	n += band * 5
	R.States(band * 5)
	R.NTs(band * 2)
	R.T(n)
	R.Class("decode/non-canonical string", band*2+int64(len(hw2(d))))
	R.Class("decode/canonical string", band*3)
	R.Sample("decode", map[string]any{"bytes": hexv(new(big.Int).Add(ref.N, big.NewInt(5))), "expect": "SetBytes -> (5, flag 1); SetCanonicalBytes -> nil, error, receiver untouched"})

	// reduceSaturated hook on limb patterns
	if secp256k1.VerifScalarReduceSaturated != nil {
		nl := bigLimbs(ref.N)
		lv := func(k int) []uint64 {
			return []uint64{0, 1, 1 << 63, ^uint64(0), ^uint64(0) - 1, nl[k], nl[k] - 1, nl[k] + 1}
		}
		var cnt int64
		for _, l3 := range lv(3) {
			for _, l2 := range lv(2) {
				for _, l1 := range lv(1) {
					for _, l0 := range lv(0) {
						x := limbsBig([4]uint64{l0, l1, l2, l3})
						if x.Cmp(new(big.Int).Lsh(ref.N, 1)) >= 0 {
							continue
						}
						for _, al := range []bool{false, true} {
							cnt++
							if m := mc.Safe(func() string { return runReduce(x, al) }); m != "" {
								R.Mismatch("scalar/reduceSaturated", "reduce", m, mc.D{"src": hexv(x), "aliased": al})
							}
						}
					}
				}
			}
		}
		R.T(cnt)
		R.Class("reduceSaturated/limb patterns", cnt)
	} else {
		R.SkipHook("scalar reduceSaturated")
	}
}

// hw2 returns all values < bound of Hamming weight 1 or 2.
func hw2(bound *big.Int) []*big.Int {
	var out []*big.Int
	for i := 0; i < 256; i++ {
		a := new(big.Int).Lsh(big.NewInt(1), uint(i))
		if a.Cmp(bound) < 0 {
			out = append(out, a)
		}
		for j := 0; j < i; j++ {
			b := new(big.Int).Or(a, new(big.Int).Lsh(big.NewInt(1), uint(j)))
			if b.Cmp(bound) < 0 {
				out = append(out, b)
			}
		}
	}
	return out
}

// limbPatterns: all stored-limb patterns over {0, 1, 2^63, 2^64-1}^4 below the modulus. Equality / zero tests
// combine the four limbs; a wrong combination (XOR or ADD instead of OR, an ignored limb) only shows on
// operands whose limb differences cancel, which no value alphabet contains by accident.
func limbPatterns(mod *big.Int) [][4]uint64 {
	lv := []uint64{0, 1, 1 << 63, ^uint64(0)}
	var out [][4]uint64
	for a := 0; a < 4; a++ {
		for b := 0; b < 4; b++ {
			for c := 0; c < 4; c++ {
				for d := 0; d < 4; d++ {
					l := [4]uint64{lv[a], lv[b], lv[c], lv[d]}
					if limbsBig(l).Cmp(mod) < 0 {
						out = append(out, l)
					}
				}
			}
		}
	}
	return out
}

func explorePredicateMatrix() {
	pats := append(limbPatterns(ref.N), mc.HalfWordLimbPatterns(ref.N)...) // + words with half-word structure (32-bit folds)
	mc.Par(len(pats), func(i int) {
		a := secp256k1.NewScalar()
		secp256k1.VerifScalarSetLimbs(a, pats[i])
		wz := uint64(0)
		if pats[i] == [4]uint64{} {
			wz = 1
		}
		if a.IsZero() != wz {
			R.Fail("scalar/IsZero/limb pattern", "limbpred", map[string]any{"stored_limbs": fmt.Sprint(pats[i]), "got": a.IsZero()}, nil)
		}
		// the half-order test on the value these limbs represent
		v := lib2val(a)
		wh := uint64(0)
		if v.Cmp(ref.HalfN) > 0 {
			wh = 1
		}
		if a.IsGreaterThanHalfN() != wh {
			R.Fail("scalar/IsGreaterThanHalfN/limb pattern", "limbpred", map[string]any{"stored_limbs": fmt.Sprint(pats[i]), "value": hexv(v), "got": a.IsGreaterThanHalfN()}, nil)
		}
		for j := range pats {
			b := secp256k1.NewScalar()
			secp256k1.VerifScalarSetLimbs(b, pats[j])
			want := uint64(0)
			if pats[i] == pats[j] {
				want = 1
			}
			if a.Equal(b) != want {
				R.Fail("scalar/Equal/limb patterns", "limbpred", map[string]any{"stored_limbs_a": fmt.Sprint(pats[i]), "stored_limbs_b": fmt.Sprint(pats[j]), "Equal": a.Equal(b), "want": want}, nil)
			}
		}
		R.T(int64(len(pats) + 2))
	})
	R.Class("predicates/pairs of stored-limb patterns {0,1,2^63,2^64-1}^4", int64(len(pats)*len(pats)))
	// half-order test on NON-Montgomery limb patterns too: value = (n-1)/2 + delta for delta in single-limb patterns
	for l := 0; l < 4; l++ {
		for _, w := range []uint64{1, 1 << 63, ^uint64(0), 1 << 32} {
			var dl [4]uint64
			dl[l] = w
			for _, sign := range []int{1, -1} {
				v := new(big.Int).Add(ref.HalfN, new(big.Int).Mul(big.NewInt(int64(sign)), limbsBig(dl)))
				if v.Sign() < 0 || v.Cmp(ref.N) >= 0 {
					continue
				}
				R.Run("scalar/predicates/half order +- single-limb delta", "pred", mc.D{"a": hexv(v)})
			}
		}
	}
}

func lib2val(s *SC) *big.Int { return ref.OS2IP(s.Bytes()) }

func exploreMisc() {
	for _, u := range mc.Uint64s {
		R.Run("scalar/NewScalarFromUint64", "u64", mc.D{"v": fmt.Sprintf("%x", u)})
	}
	z := mk(poison)
	if !bytes.Equal(z.Zero().Bytes(), make([]byte, 32)) || !bytes.Equal(mk(poison).One().Bytes(), ref.B32(big.NewInt(1))) {
		R.Fail("scalar/ZeroOne", "misc", nil, nil)
	}
	var zv SC
	if zv.IsZero() != 1 || !bytes.Equal(zv.Bytes(), make([]byte, 32)) || secp256k1.NewScalar().IsZero() != 1 {
		R.Fail("scalar/zero-value", "misc", nil, nil)
	}
	R.T(3)
	if h := secp256k1.VerifHalfNSat; h != nil {
		R.T(1)
		if limbsBig(h()).Cmp(ref.HalfN) != 0 {
			R.Fail("scalar/halfNSat", "misc", map[string]any{"halfNSat": hexv(limbsBig(h())), "want": hexv(ref.HalfN)}, nil)
		}
	} else {
		R.SkipHook("halfNSat")
	}
	// the half-order boundary explicitly
	for dlt := int64(-3); dlt <= 3; dlt++ {
		v := new(big.Int).Add(ref.HalfN, big.NewInt(dlt))
		R.Run("scalar/predicates/half-order boundary", "pred", mc.D{"a": hexv(v)})
		R.NT(mc.HS("half", fmt.Sprint(dlt)))
	}
}

func main() {
	R = mc.New("C02")
	uops, bops = unops(), binops()
	register()
	mc.MaybeReplay()
	if err := ref.SelfTestCurve(); err != nil {
		fmt.Println("reference self-test failed:", err)
		R.Fail("selftest", "misc", nil, nil)
	}
	if err := mc.ReductionSelfTest(); err != nil {
		fmt.Println("alphabet generator self-test failed:", err)
		R.Fail("selftest", "misc", nil, nil)
	}
	R.Rule("states = distinct scalar values / byte strings visited; a transition is one operation application under one alias (pointer) pattern, run on the implementation and the math/big model; non-trivial = steered boundary pairs, non-canonical strings, aliased vectors, half-order boundary values")
	R.Assume("math/big and the Go toolchain are correct; the reference model in /verif/ref")
	R.Config("amd64 default build")
	if secp256k1.VerifScalarPow2k == nil {
		R.SkipHook("pow2k")
	}
	nSeed := 16
	if R.Thorough() {
		nSeed = 64
	}
	sc := mc.ModAlphabet(ref.N, mc.ScalarConstants(), R.Seed, nSeed, true)
	pairs := mc.SteeredPairs(ref.N, R.Seed)
	R.Bound("SC_alphabet", len(sc))
	R.Bound("steered_pairs", len(pairs))
	R.Bound("alias_patterns", "all set partitions of {receiver,a,b} (5) / {receiver,a} (2); vectors: all restricted-growth pointer patterns x receiver in/out of the vector")
	exploreMisc()
	explorePredicateMatrix()
	exploreVectors()
	exploreDecode(sc)
	exploreArith(sc, pairs)
	R.Expect("IsGreaterThanHalfN/true", "IsGreaterThanHalfN/false", "decode/non-canonical string", "steering/stored limbs verified Montgomery images")
	lib.ReportCarryCoverage(R, true)
	R.Finish()
}
