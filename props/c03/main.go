// C03 — the group law is complete: explicit-state search over
// (abstract point, projective representative) states under Add / Subtract /
// Double / Negate / conditional ops, all ordered pairs, all alias patterns,
// with representation drift (results become new states).
package main

import (
	"fmt"
	"math/big"
	"sort"
	"strings"
	"sync"

	secp256k1 "gitlab.com/yawning/secp256k1-voi"

	"verif/lib"
	"verif/mc"
	"verif/ref"
)

type Point = secp256k1.Point

var R *mc.Report

// St is a state: an abstract point plus a recipe that rebuilds one exact
// projective representative of it on fresh objects.
type St struct {
	abs  ref.Pt
	desc string // R:<point hex>:<z hex> | Add(d,d) | Sub(d,d) | Dbl(d) | Neg(d)
}

func rep(p ref.Pt, z *big.Int) St {
	return St{p, fmt.Sprintf("R:%s:%x", lib.PtHex(p), z)}
}

// build parses a recipe and constructs the implementation point.
func build(desc string) (*Point, ref.Pt) {
	p, abs, rest := parse(desc)
	if rest != "" {
		panic("trailing recipe text: " + rest)
	}
	return p, abs
}

func parse(s string) (*Point, ref.Pt, string) {
	switch {
	case strings.HasPrefix(s, "R:"):
		end := strings.IndexAny(s, ",)")
		if end < 0 {
			end = len(s)
		}
		f := strings.Split(s[2:end], ":")
		abs := lib.HexPt(f[0])
		z, _ := new(big.Int).SetString(f[1], 16)
		if z.Cmp(big.NewInt(1)) == 0 {
			return lib.MkPT(abs), abs, s[end:]
		}
		return lib.MkPTRep(abs, z), abs, s[end:]
	case strings.HasPrefix(s, "Add("), strings.HasPrefix(s, "Sub("):
		a, aa, rest := parse(s[4:])
		b, ba, rest := parse(rest[1:])
		if s[0] == 'A' {
			return new(Point).Add(a, b), aa.Add(ba), rest[1:]
		}
		return new(Point).Subtract(a, b), aa.Sub(ba), rest[1:]
	case strings.HasPrefix(s, "Fail("):
		// object history: the point was the receiver of a series of REJECTED decodes; it must still be the same operand
		a, aa, rest := parse(s[5:])
		return afterFailedDecodes(a, aa), aa, rest[1:]
	case strings.HasPrefix(s, "Dbl("), strings.HasPrefix(s, "Neg("):
		a, aa, rest := parse(s[4:])
		if s[0] == 'D' {
			return new(Point).Double(a), aa.Double(), rest[1:]
		}
		return new(Point).Negate(a), aa.Neg(), rest[1:]
	}
	panic("bad recipe: " + s)
}

// failing encodings (every one is rejected by a strict SEC 1 decoder): compressed x with x^3+7 a non-residue (both
// prefixes), uncompressed with y off by one, x >= p, a hybrid prefix, wrong lengths, the empty string
var failEncs = func() [][]byte {
	x := big.NewInt(1)
	for {
		if _, ok := ref.LiftX(x, 0); !ok {
			break
		}
		x.Add(x, big.NewInt(1))
	}
	g := ref.G()
	bad := append([]byte{4}, append(ref.B32(g.X), ref.B32(new(big.Int).Add(g.Y, big.NewInt(1)))...)...)
	return [][]byte{
		append([]byte{2}, ref.B32(x)...), append([]byte{3}, ref.B32(x)...), bad,
		append([]byte{2}, ref.B32(ref.P)...), append([]byte{6}, bad[1:]...), bad[:64], append([]byte{2}, ref.B32(g.X)[:31]...), {}, {0, 0},
	}
}()

func afterFailedDecodes(a *Point, abs ref.Pt) *Point {
	for _, e := range failEncs {
		var err error
		switch {
		case len(e) == 33:
			_, err = a.SetCompressedBytes(e)
			if err != nil {
				_, err = a.SetBytes(e)
			}
		case len(e) == 65:
			_, err = a.SetUncompressedBytes(e)
			if err != nil {
				_, err = a.SetBytes(e)
			}
		default:
			_, err = a.SetBytes(e)
		}
		if err == nil { // an invalid encoding was accepted: that is C06's finding, not a group-law one; keep this state well-defined
			return lib.MkPT(abs)
		}
	}
	return a
}

// ---------------------------------------------------------------- operations

type binop struct {
	name string
	f    func(v, p, q *Point) *Point
	ref  func(p, q ref.Pt) ref.Pt
	hook bool
}

type unop struct {
	name string
	f    func(v, p *Point) *Point
	ref  func(p ref.Pt) ref.Pt
}

var (
	bops []binop
	uops []unop
)

func initOps() {
	bops = []binop{
		{"Add", func(v, p, q *Point) *Point { return v.Add(p, q) }, ref.Pt.Add, false},
		{"Subtract", func(v, p, q *Point) *Point { return v.Subtract(p, q) }, ref.Pt.Sub, false},
	}
	for _, c := range []uint64{0, 1, 1 << 63} {
		c := c
		bops = append(bops, binop{fmt.Sprintf("ConditionalSelect(ctrl=%#x)", c), func(v, p, q *Point) *Point { return v.ConditionalSelect(p, q, c) },
			func(p, q ref.Pt) ref.Pt {
				if c == 0 {
					return p
				}
				return q
			}, false})
	}
	if h := secp256k1.VerifAddComplete; h != nil {
		// the raw formula does not set the flag; wrap so the result is comparable
		bops = append(bops, binop{"addComplete(hook)", func(v, p, q *Point) *Point {
			h(v, p, q)
			x, y, z, _ := secp256k1.VerifPointXYZ(v)
			return secp256k1.VerifPointSetXYZ(v, x, y, z, true)
		}, ref.Pt.Add, true})
	} else {
		R.SkipHook("addComplete")
	}
	uops = []unop{
		{"Double", func(v, p *Point) *Point { return v.Double(p) }, ref.Pt.Double},
		{"Negate", func(v, p *Point) *Point { return v.Negate(p) }, ref.Pt.Neg},
		{"Set", func(v, p *Point) *Point { return v.Set(p) }, func(p ref.Pt) ref.Pt { return p }},
		{"Add(p,p)", func(v, p *Point) *Point { return v.Add(p, p) }, ref.Pt.Double},
		{"Subtract(p,p)", func(v, p *Point) *Point { return v.Subtract(p, p) }, func(p ref.Pt) ref.Pt { return ref.Infinity() }},
	}
	for _, c := range mc.Ctrls {
		c := c
		uops = append(uops, unop{fmt.Sprintf("ConditionalNegate(ctrl=%#x)", c), func(v, p *Point) *Point { return v.ConditionalNegate(p, c) },
			func(p ref.Pt) ref.Pt {
				if c == 0 {
					return p
				}
				return p.Neg()
			}})
	}
	if h := secp256k1.VerifDoubleComplete; h != nil {
		uops = append(uops, unop{"doubleComplete(hook)", func(v, p *Point) *Point {
			h(v, p)
			x, y, z, _ := secp256k1.VerifPointXYZ(v)
			return secp256k1.VerifPointSetXYZ(v, x, y, z, true)
		}, ref.Pt.Double})
	} else {
		R.SkipHook("doubleComplete")
	}
	if h := secp256k1.VerifRescale; h != nil {
		uops = append(uops, unop{"rescale(hook)", func(v, p *Point) *Point { return h(v, p) }, func(p ref.Pt) ref.Pt { return p }})
	} else {
		R.SkipHook("rescale")
	}
}

var binAliases = []string{"v|p|q", "v=p|q", "v=q|p", "p=q|v", "v=p=q"}

// runBin: one binary transition under one alias pattern. Patterns 3,4 (p and q
// the same object) only apply when both operands are the same state.
// freshReceiver: a receiver distinct from every operand. Its previous contents are the receiver's HISTORY and must not
// matter: a zero-value object (write-only use), a decoded point (Z = 1) or a computed one (Z != 1), chosen by a
// stable hash of the case so that replays rebuild the same receiver.
func freshReceiver(parts ...string) *Point {
	switch mc.HS(parts...) % 3 {
	case 1:
		return lib.MkPT(ref.G())
	case 2:
		return lib.MkPTRep(ref.G().Mul(big.NewInt(5)), big.NewInt(0x1d))
	}
	return new(Point)
}

func runBin(op *binop, da, db string, al int) string {
	if al >= 3 && da != db {
		return ""
	}
	p, pa := build(da)
	q, qa := p, pa
	if al < 3 {
		q, qa = build(db)
	}
	rawP, rawQ := lib.Raw(p), lib.Raw(q)
	var v *Point
	switch al {
	case 1, 4:
		v = p
	case 2:
		v = q
	default:
		v = freshReceiver(op.name, da, db)
	}
	var ret *Point
	if pn := lib.Try(func() { ret = op.f(v, p, q) }); pn != "" {
		return "panic: " + pn
	}
	if ret != v {
		return "did not return the receiver"
	}
	want := op.ref(pa, qa)
	if al == 0 {
		if m := lib.CheckPoint(v, want); m != "" {
			return m
		}
	} else if m := lib.CheckPointLight(v, want); m != "" {
		return m
	}
	if p != v && lib.Raw(p) != rawP {
		return "operand p modified"
	}
	if q != v && lib.Raw(q) != rawQ {
		return "operand q modified"
	}
	// Equal against an independently built model value (both directions) and its negation
	w := lib.MkPT(want)
	if v.Equal(w) != 1 || w.Equal(v) != 1 {
		return "Equal(result, model value) = 0"
	}
	if !want.Inf && want.Y.Sign() != 0 {
		if v.Equal(lib.MkPT(want.Neg())) != 0 {
			return "Equal(result, -model value) = 1"
		}
	}
	return ""
}

func runUn(op *unop, da string, aliased bool) string {
	p, pa := build(da)
	rawP := lib.Raw(p)
	v := p
	if !aliased {
		v = freshReceiver(op.name, da, "")
	}
	var ret *Point
	if pn := lib.Try(func() { ret = op.f(v, p) }); pn != "" {
		return "panic: " + pn
	}
	if ret != v {
		return "did not return the receiver"
	}
	want := op.ref(pa)
	if m := lib.CheckPoint(v, want); m != "" {
		return m
	}
	if !aliased && lib.Raw(p) != rawP {
		return "operand modified"
	}
	w := lib.MkPT(want)
	if v.Equal(w) != 1 || w.Equal(v) != 1 {
		return "Equal(result, model value) = 0"
	}
	return ""
}

// runMixed: addMixed(P; x2,y2) through the hook, Q affine non-identity.
func runMixed(da string, q ref.Pt, aliased bool) string {
	h := secp256k1.VerifAddMixed
	if h == nil {
		return ""
	}
	p, pa := build(da)
	v := p
	if !aliased {
		v = new(Point)
	}
	h(v, p, lib.MkFE(q.X), lib.MkFE(q.Y))
	x, y, z, _ := secp256k1.VerifPointXYZ(v)
	secp256k1.VerifPointSetXYZ(v, x, y, z, true)
	return lib.CheckPoint(v, pa.Add(q))
}

// runEqual: Equal / observers depend only on the abstract value.
func runEqual(da, db string) string {
	p, pa := build(da)
	q, qa := build(db)
	want := uint64(0)
	if pa.Equal(qa) {
		want = 1
	}
	if g := p.Equal(q); g != want {
		return fmt.Sprintf("Equal=%d, model %d", g, want)
	}
	if g := q.Equal(p); g != want {
		return fmt.Sprintf("Equal (reversed)=%d, model %d", g, want)
	}
	return ""
}

func runObs(da string) string {
	p, pa := build(da)
	raw := lib.Raw(p)
	if m := lib.CheckPoint(p, pa); m != "" {
		return m
	}
	if p.Equal(p) != 1 {
		return "Equal(self) = 0"
	}
	c := secp256k1.NewPointFrom(p)
	if m := lib.CheckPoint(c, pa); m != "" || c == p {
		return "NewPointFrom: " + m
	}
	if lib.Raw(p) != raw {
		return "observers modified the point"
	}
	return ""
}

func register() {
	find := func(n string) *binop {
		for i := range bops {
			if bops[i].name == n {
				return &bops[i]
			}
		}
		return nil
	}
	findU := func(n string) *unop {
		for i := range uops {
			if uops[i].name == n {
				return &uops[i]
			}
		}
		return nil
	}
	mc.Register("bin", func(d mc.D) string {
		op := find(d.S("op"))
		if op == nil {
			return "unknown op (hook missing?)"
		}
		return runBin(op, d.S("p"), d.S("q"), d.I("alias"))
	})
	mc.Register("un", func(d mc.D) string {
		op := findU(d.S("op"))
		if op == nil {
			return "unknown op (hook missing?)"
		}
		return runUn(op, d.S("p"), d.Bool("aliased"))
	})
	mc.Register("mixed", func(d mc.D) string { return runMixed(d.S("p"), lib.HexPt(d.S("q")), d.Bool("aliased")) })
	mc.Register("equal", func(d mc.D) string { return runEqual(d.S("p"), d.S("q")) })
	mc.Register("obs", func(d mc.D) string { return runObs(d.S("p")) })
}

// ---------------------------------------------------------------- exploration

func relation(a, b ref.Pt) string {
	switch {
	case a.Inf && b.Inf:
		return "inf,inf"
	case a.Inf:
		return "inf,Q"
	case b.Inf:
		return "P,inf"
	case a.Equal(b):
		return "P=Q"
	case a.Equal(b.Neg()):
		return "P=-Q"
	case a.X.Cmp(b.X) != 0 && a.Y.Cmp(b.Y) == 0:
		return "same y (endomorphism image)"
	}
	return "generic"
}

type drift struct {
	mu  sync.Mutex
	per map[string][]St // abstract key -> states (distinct exact limbs)
	raw map[string]bool
	cap int
}

func (d *drift) add(desc string, abs ref.Pt, v *Point) {
	raw := lib.Raw(v)
	k := abs.Key()
	d.mu.Lock()
	defer d.mu.Unlock()
	if d.raw[raw] {
		return
	}
	if len(d.per[k]) >= d.cap {
		return
	}
	d.raw[raw] = true
	d.per[k] = append(d.per[k], St{abs, desc})
}

func explore(states []St, partners []St, level int, dr *drift) {
	// observers + unary ops on every state
	mc.Par(len(states), func(i int) {
		s := states[i]
		R.T(1)
		if m := mc.Safe(func() string { return runObs(s.desc) }); m != "" {
			R.Mismatch(fmt.Sprintf("point/observers/level%d", level), "obs", m, mc.D{"p": s.desc})
		}
		for oi := range uops {
			op := &uops[oi]
			for _, al := range []bool{false, true} {
				R.T(1)
				if m := mc.Safe(func() string { return runUn(op, s.desc, al) }); m != "" {
					R.Mismatch(fmt.Sprintf("point/%s/aliased=%v", op.name, al), "un", m, mc.D{"op": op.name, "p": s.desc, "aliased": al})
				}
			}
		}
		if dr != nil {
			p, _ := build(s.desc)
			dr.add("Dbl("+s.desc+")", s.abs.Double(), new(Point).Double(p))
		}
		if secp256k1.VerifAddMixed != nil {
			for _, q := range partners {
				if q.abs.Inf || !strings.HasSuffix(q.desc, ":1") {
					continue
				}
				for _, al := range []bool{false, true} {
					R.T(1)
					if m := mc.Safe(func() string { return runMixed(s.desc, q.abs, al) }); m != "" {
						R.Mismatch(fmt.Sprintf("point/addMixed/%s/aliased=%v", relation(s.abs, q.abs), al), "mixed", m, mc.D{"p": s.desc, "q": lib.PtHex(q.abs), "aliased": al})
					}
				}
				R.Class("addMixed relation/"+relation(s.abs, q.abs), 1)
			}
		}
	})
	// binary ops: every ordered pair states x partners (and partners x states at level 2), every alias pattern
	mc.Par(len(states), func(i int) {
		if R.Expired() {
			return
		}
		a := states[i]
		var t int64
		cls := map[string]int64{}
		for _, b := range partners {
			orders := [][2]St{{a, b}}
			if level > 1 {
				orders = append(orders, [2]St{b, a})
			}
			for _, o := range orders {
				cls[relation(o[0].abs, o[1].abs)]++
				for oi := range bops {
					op := &bops[oi]
					for al := range binAliases {
						if al >= 3 && o[0].desc != o[1].desc {
							continue
						}
						if oi >= 2 && !op.hook && (level > 1 || (al > 0 && i%4 != 0)) {
							continue // ConditionalSelect: level 1 only; all alias patterns only on every 4th state
						}
						t++
						if m := mc.Safe(func() string { return runBin(op, o[0].desc, o[1].desc, al) }); m != "" {
							R.Mismatch(fmt.Sprintf("point/%s/%s/%s", op.name, binAliases[al], relation(o[0].abs, o[1].abs)), "bin", m,
								mc.D{"op": op.name, "p": o[0].desc, "q": o[1].desc, "alias": al, "alias_name": binAliases[al], "relation": relation(o[0].abs, o[1].abs)})
						}
					}
				}
				t++
				if m := mc.Safe(func() string { return runEqual(o[0].desc, o[1].desc) }); m != "" {
					R.Mismatch("point/Equal/"+relation(o[0].abs, o[1].abs), "equal", m, mc.D{"p": o[0].desc, "q": o[1].desc})
				}
				if dr != nil {
					p, _ := build(o[0].desc)
					q, _ := build(o[1].desc)
					dr.add("Add("+o[0].desc+","+o[1].desc+")", o[0].abs.Add(o[1].abs), new(Point).Add(p, q))
					dr.add("Sub("+o[0].desc+","+o[1].desc+")", o[0].abs.Sub(o[1].abs), new(Point).Subtract(p, q))
				}
				R.State(mc.HS("pair", o[0].desc, o[1].desc))
			}
		}
		R.T(t)
		for k, v := range cls {
			R.Class("pair relation/"+k, v)
		}
	})
}

func main() {
	R = mc.New("C03")
	initOps()
	register()
	mc.MaybeReplay()
	if err := ref.SelfTestCurve(); err != nil {
		R.Fail("selftest", "misc", map[string]any{"err": err.Error()}, nil)
	}
	R.Rule("states = (abstract point, exact projective representative) and ordered pairs of them; a transition is one group operation under one receiver/argument alias pattern, executed on the implementation and on the affine chord-and-tangent model; results are validated from RAW coordinates (on curve, not (0,0,0)), never through the library's own Equal alone; non-trivial = pairs in an exceptional relation (inf, P=Q, P=-Q, same y) and drifted representatives")
	R.Assume("math/big; affine chord-and-tangent reference in /verif/ref; completeness of the RCB formulas for field values outside the alphabet is a theorem, not enumerated")
	R.Config("amd64 default build")
	maxK, nz, nseed, dcap := 6, 1, 2, 3
	if R.Thorough() {
		maxK, nz, nseed, dcap = 16, 3, 8, 8
	}
	pts := mc.PointAlphabet(maxK, R.Seed, nseed)
	zs := mc.ZReps(R.Seed, nz)
	if !R.Thorough() { // quick: the two upper single-limb scalings are exercised by C06 / C10 / C14 and by the thorough tier
		var keep []mc.Val
		for _, z := range zs {
			if !strings.Contains(z.Label, "{0,0,") {
				keep = append(keep, z)
			}
		}
		zs = keep
	}
	if !R.Thorough() {
		zs = []mc.Val{zs[0], zs[2], zs[5], zs[len(zs)-2]} // Z = 1, p-1, one seeded, and the representative stored as limbs {1,0,0,0}
	}
	var states []St
	for _, p := range pts {
		for _, z := range zs {
			st := rep(p.P, z.V)
			if len(states)%4 == 1 { // every 4th state carries an object history (receiver of rejected decodes)
				st.desc = "Fail(" + st.desc + ")"
			}
			states = append(states, st)
		}
	}
	R.Bound("points", len(pts))
	R.Bound("representatives_per_point", len(zs))
	R.Bound("level1_states", len(states))
	R.Bound("alias_patterns", "all 5 set partitions of {receiver,p,q} (receiver = zero-value object when distinct), 2 for unary")
	R.Sample("state", map[string]any{"recipe": states[len(states)/2].desc, "meaning": "R:<uncompressed point>:<Z> = representative (xZ, yZ, Z)"})
	dr := &drift{per: map[string][]St{}, raw: map[string]bool{}, cap: dcap}
	explore(states, states, 1, dr)
	R.Sample("transition", map[string]any{"op": "Subtract", "alias": "v=p|q", "p": states[3].desc, "q": states[3].desc, "model": "inf"})

	// representatives steered at the multiplications by the small curve constant (see mc.SmallMulOverflowZ): P = 3G in
	// every such scaling against 5G (Z = 1 and Z = 2), itself and its negative
	{
		g3, g5 := ref.G().Mul(big.NewInt(3)), ref.G().Mul(big.NewInt(5))
		var st []St
		for _, z := range mc.SmallMulOverflowZ(g3.X, g5.X) {
			st = append(st, rep(g3, z.V))
		}
		R.Class("level1/representatives steered at the multiply-by-constant wraps", int64(len(st)))
		explore(st, []St{rep(g5, big.NewInt(1)), rep(g5, big.NewInt(2)), rep(g3, big.NewInt(1)), rep(g3.Neg(), big.NewInt(1))}, 1, nil)
	}

	// level 2: drifted representatives (results of Add/Subtract/Double) as new states
	var l2 []St
	keys := make([]string, 0, len(dr.per))
	for k := range dr.per {
		keys = append(keys, k)
	}
	sort.Strings(keys)
	for _, k := range keys {
		l2 = append(l2, dr.per[k]...)
	}
	R.Class("level2/drifted representatives", int64(len(l2)))
	R.Bound("drift_cap_per_abstract_point", dcap)
	R.Cap(fmt.Sprintf("representation drift: at most %d drifted representatives kept per abstract point (%d kept); search depth 2", dcap, len(l2)))
	maxL2 := 160
	if R.Thorough() {
		maxL2 = 6000
	}
	if len(l2) > maxL2 {
		step := len(l2) / maxL2
		var s []St
		for i := 0; i < len(l2); i += step {
			s = append(s, l2[i])
		}
		l2 = s
	}
	// partners at level 2: the Z=1 and one scaled representative of every alphabet point
	var partners []St
	for _, p := range pts {
		partners = append(partners, rep(p.P, zs[0].V), rep(p.P, zs[len(zs)-1].V))
	}
	R.Bound("level2_states", len(l2))
	R.Bound("closure_depth", 2)
	explore(l2, partners, 2, nil)
	if len(l2) > 0 {
		R.Sample("drifted state", map[string]any{"recipe": l2[len(l2)/2].desc})
	}
	if R.Expired() {
		R.Cap("stopped by the internal time budget")
	}
	for _, v := range l2 {
		R.NT(mc.HS("drift", v.desc))
	}
	R.Expect("pair relation/P=Q", "pair relation/P=-Q", "pair relation/inf,inf", "pair relation/inf,Q", "pair relation/P,inf", "pair relation/same y (endomorphism image)", "pair relation/generic")
	R.Finish()
}
