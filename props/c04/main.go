// C04 — variable-base scalar multiplication returns s*P for every scalar and point.
//
// Every scalar of a GLV-steered alphabet (lattice corners, rounding-bit
// boundaries, limb-crossing quotients, single-nibble halves, field/scalar
// boundary values) x points x representatives x five code paths x receiver
// aliasing, against plain double-and-add; plus the split invariants through
// the splitGLV / mulGFlooredDiv hooks.
package main

import (
	"bytes"
	crand "crypto/rand"
	"fmt"
	"math/big"
	"strings"

	secp256k1 "gitlab.com/yawning/secp256k1-voi"

	"verif/lib"
	"verif/mc"
	"verif/ref"
)

type (
	Point  = secp256k1.Point
	Scalar = secp256k1.Scalar
)

var R *mc.Report

var paths = []string{"ScalarMult", "MultiScalarMult([s],[P])", "DoubleScalarMultBasepointVartime(0,s,P)", "MultiScalarMultVartime([s],[P])", "scalarMultVartimeGLV (hook)"}

// runMul: s*P through one path; aliased = receiver is the point operand itself.
func runMul(s *big.Int, p ref.Pt, z *big.Int, path int, aliased bool, hist int) string {
	want := p.Mul(s)
	if s.Sign() == 0 {
		want = ref.Infinity()
	}
	sc := lib.MkSC(s)
	if hist < 0 {
		hist = int(mc.HS(s.String(), lib.PtHex(p), fmt.Sprint(path, aliased)) % 4)
	}
	pt := operandWithHistory(p, z, hist)
	raw := lib.Raw(pt)
	v := pt
	if !aliased {
		v = lib.ReceiverWithHistory(int(mc.HS("recv", s.String(), lib.PtHex(p), fmt.Sprint(path)) % lib.NumReceiverHistories)) // a receiver with a past
	}
	var ret *Point
	switch path {
	case 0:
		ret = v.ScalarMult(sc, pt)
	case 1:
		ret = v.MultiScalarMult([]*Scalar{sc}, []*Point{pt})
	case 2:
		ret = v.DoubleScalarMultBasepointVartime(secp256k1.NewScalar(), sc, pt)
	case 3:
		ret = v.MultiScalarMultVartime([]*Scalar{sc}, []*Point{pt})
	case 4:
		if secp256k1.VerifScalarMultVartimeGLV == nil {
			return ""
		}
		ret = secp256k1.VerifScalarMultVartimeGLV(v, sc, pt)
		x, y, zz, _ := secp256k1.VerifPointXYZ(v)
		secp256k1.VerifPointSetXYZ(v, x, y, zz, true)
	}
	if ret != v {
		return "did not return the receiver"
	}
	if m := lib.CheckPointLight(v, want); m != "" {
		return m
	}
	if !aliased && lib.Raw(pt) != raw {
		return "point operand modified"
	}
	if !bytes.Equal(sc.Bytes(), ref.B32(s)) {
		return "scalar operand modified"
	}
	return ""
}

// operandWithHistory: the point operand as an OBJECT with a past. s*P is a function of the value P, not of what the
// object holding P did before: (0) a fresh object; or an object that has already served as the operand of a
// multiplication while it held another point, and was then given the value P by (1) Set, (2) decoding an encoding of P
// into it, (3) an in-place addition.
func operandWithHistory(p ref.Pt, z *big.Int, h int) *Point {
	if h == 0 {
		return lib.MkPTRep(p, z)
	}
	pt := lib.MkPTRep(ref.G().Mul(big.NewInt(7)), big.NewInt(5))
	secp256k1.NewIdentityPoint().ScalarMult(lib.MkSC(big.NewInt(0x1234567)), pt)
	secp256k1.NewIdentityPoint().DoubleScalarMultBasepointVartime(lib.MkSC(big.NewInt(3)), lib.MkSC(big.NewInt(0x7654321)), pt)
	switch h {
	case 1:
		pt.Set(lib.MkPTRep(p, z))
	case 2:
		if _, err := pt.SetBytes(p.Uncompressed()); err != nil {
			panic("harness: reference encoding rejected: " + err.Error())
		}
	case 3:
		pt.Set(lib.MkPTRep(p.Add(ref.G().Neg()), z))
		pt.Add(pt, secp256k1.NewGeneratorPoint())
	}
	return pt
}

func limbsBig(l [4]uint64) *big.Int {
	v := new(big.Int)
	for i := 3; i >= 0; i-- {
		v.Lsh(v, 64)
		v.Or(v, new(big.Int).SetUint64(l[i]))
	}
	return v
}

// runSplit: the invariants of the endomorphism split for one scalar.
// Returns the sign class through cls.
func runSplit(s *big.Int) (m string, cls string) {
	h := secp256k1.VerifSplitGLV
	if h == nil {
		return "", ""
	}
	sc := lib.MkSC(s)
	k1s, k2s := h(sc)
	k1, k2 := lib.SCVal(k1s), lib.SCVal(k2s)
	if ref.ModN(new(big.Int).Add(k1, new(big.Int).Mul(k2, ref.Lambda))).Cmp(ref.ModN(s)) != 0 {
		return fmt.Sprintf("k1 + k2*lambda != s (k1=%x k2=%x)", k1, k2), ""
	}
	abs := func(k *big.Int) (*big.Int, bool) {
		if k.Cmp(ref.HalfN) > 0 {
			return new(big.Int).Sub(ref.N, k), true
		}
		return k, false
	}
	a1, n1 := abs(k1)
	a2, n2 := abs(k2)
	cls = fmt.Sprintf("split signs (k1 negative=%v, k2 negative=%v)", n1, n2)
	if a1.BitLen() > 128 || a2.BitLen() > 128 {
		return fmt.Sprintf("split half does not fit the 128-bit window the ladder consumes: |k1|=%x |k2|=%x", a1, a2), cls
	}
	if !bytes.Equal(sc.Bytes(), ref.B32(s)) {
		return "splitGLV modified its operand", cls
	}
	// the rounded products
	if hm := secp256k1.VerifMulGFlooredDiv; hm != nil {
		for gi, g := range []*big.Int{mc.GlvG1, mc.GlvG2} {
			got := lib.SCVal(hm(sc, lib.MkSC(g)))
			t := new(big.Int).Mul(s, g)
			t.Add(t, new(big.Int).Lsh(big.NewInt(1), 383))
			t.Rsh(t, 384)
			if got.Cmp(t) != 0 {
				return fmt.Sprintf("mulGFlooredDiv(s, g%d) = %x, round(s*g/2^384) = %x", gi+1, got, t), cls
			}
		}
	}
	return "", cls
}

func register() {
	mc.Register("mul", func(d mc.D) string {
		hist := -1
		if _, ok := d["hist"]; ok {
			hist = d.I("hist")
		}
		return runMul(d.Big("s"), lib.HexPt(d.S("p")), d.Big("z"), d.I("path"), d.Bool("aliased"), hist)
	})
	mc.Register("split", func(d mc.D) string { m, _ := runSplit(d.Big("s")); return m })
}

func main() {
	R = mc.New("C04")
	register()
	mc.MaybeReplay()
	if err := mc.GLVSelfTest(); err != nil {
		R.Fail("glv-selftest", "misc", map[string]any{"err": err.Error()}, nil)
	}
	R.Rule("states = distinct (scalar, point, representative) triples; a transition is one multiplication through one code path under one receiver aliasing, or one split-invariant evaluation, compared with double-and-add / exact rational rounding; non-trivial = GLV-steered scalars (lattice corners, rounding-bit and limb-carry boundaries, single-nibble halves)")
	R.Assume("math/big; reference double-and-add; |k_i| < 2^128 for ALL s is a lattice bound (proved for libsecp256k1's constants): checked here on the corner scalars that realise the extreme of the bound and on the constants the proof rests on")
	R.Config("amd64 default build")
	th := R.Thorough()

	// constants (hook)
	if h := secp256k1.VerifGLVConsts; h != nil {
		nl, nb1, nb2, g1, g2, beta := h()
		ok := lib.SCVal(nl).Cmp(ref.ZnNeg(ref.Lambda)) == 0 && lib.SCVal(nb1).Cmp(ref.ModN(new(big.Int).Neg(mc.GlvB1))) == 0 &&
			lib.SCVal(nb2).Cmp(ref.ModN(new(big.Int).Neg(mc.GlvB2))) == 0 && lib.SCVal(g1).Cmp(mc.GlvG1) == 0 && lib.SCVal(g2).Cmp(mc.GlvG2) == 0 &&
			lib.FEVal(beta).Cmp(ref.Beta) == 0
		R.T(1)
		if !ok {
			R.Fail("glv/constants", "misc", map[string]any{"what": "lattice constants differ from (-lambda, -b1, -b2, g1, g2, beta) satisfying a_i+b_i*lambda=0, g_i=round(2^384 b/n), beta^3=1"}, nil)
		}
	} else {
		R.SkipHook("glv constants")
	}

	sc := mc.GLVScalars(th)
	nGLV := len(sc)
	base := mc.ModAlphabet(ref.N, mc.ScalarConstants(), R.Seed, 8, false)
	if !th {
		for i, v := range base {
			if i%3 == 0 {
				sc = append(sc, v)
			}
		}
	} else {
		sc = append(sc, base...)
	}
	R.Bound("scalars", len(sc))
	R.Bound("glv_steered_scalars", nGLV)
	pa := mc.PointAlphabet(2, R.Seed, 2)
	var pts []mc.PVal
	for _, p := range pa {
		l := p.Label
		if p.P.Inf || l == "1G" || l == "-1G" || l == "-2G" || l == "lambda*G" || len(l) > 7 && l[:7] == "small x" && p.P.Y.Bit(0) == 1 || len(l) > 6 && l[:6] == "seeded" || len(l) > 3 && l[:3] == "x=n" && p.P.Y.Bit(0) == 0 {
			pts = append(pts, p)
		}
	}
	if !th && len(pts) > 6 {
		pts = pts[:6]
	}
	zs := []*big.Int{big.NewInt(1), new(big.Int).Sub(ref.P, big.NewInt(2))}
	if th { // thorough: the whole point alphabet (both signs, small x / small y, x in [n,p), endomorphism images) x 3 representatives
		pts = mc.PointAlphabet(3, R.Seed, 4)
		zs = append(zs, new(big.Int).Set(ref.C))
	}
	R.Bound("points", len(pts))
	R.Bound("representatives", len(zs))
	R.Bound("paths", paths)

	// split invariants for every scalar
	mc.Par(len(sc), func(i int) {
		R.T(1)
		m, cls := "", ""
		if pn := lib.Try(func() { m, cls = runSplit(sc[i].V) }); pn != "" {
			m = "panic: " + pn
		}
		if cls != "" {
			R.Class(cls, 1)
		}
		if m != "" {
			R.Mismatch("glv/split invariant", "split", m, mc.D{"s": mc.HexBig(sc[i].V), "label": sc[i].Label})
		}
	})
	if secp256k1.VerifSplitGLV == nil {
		R.SkipHook("splitGLV")
	}

	type job struct{ si, pi, zi int }
	var jobs []job
	for si := range sc {
		for pi := range pts {
			for zi := range zs {
				if !th && si >= nGLV && (si+pi+zi)%2 == 1 {
					continue
				}
				if !th && (pi+zi+si)%3 == 2 && si < nGLV && pi > 1 {
					continue
				}
				jobs = append(jobs, job{si, pi, zi})
			}
		}
	}
	mc.Par(len(jobs), func(n int) {
		if R.Expired() {
			return
		}
		j := jobs[n]
		s, p, z := sc[j.si], pts[j.pi], zs[j.zi]
		for path := range paths {
			for _, al := range []bool{false, true} {
				if al && path > 0 && (n+path)%3 != 0 && !th {
					continue
				}
				R.T(1)
				if m := mc.Safe(func() string { return runMul(s.V, p.P, z, path, al, -1) }); m != "" {
					R.Mismatch(fmt.Sprintf("mul/%s/aliased=%v", paths[path], al), "mul", m,
						mc.D{"s": mc.HexBig(s.V), "p": lib.PtHex(p.P), "z": fmt.Sprintf("%x", z), "path": path, "path_name": paths[path], "aliased": al, "scalar_label": s.Label, "point_label": p.Label})
				}
			}
		}
		h := mc.HS("mul", s.V.String(), p.P.Key(), z.String())
		R.State(h)
		if j.si < nGLV {
			R.NT(h)
		}
	})
	// representatives steered at the multiplications by the small curve constant (mc.SmallMulOverflowZ): the table of
	// multiples starts with a doubling of P (b3*Z^2) and additions of P (b3*Z1*Z2, b3*(x1+x2)*Z1*Z2)
	{
		g3 := ref.G().Mul(big.NewInt(3))
		szs := mc.SmallMulOverflowZ(g3.X, g3.Double().X)
		R.Class("representatives steered at the multiply-by-constant wraps", int64(len(szs)))
		ss := []*big.Int{big.NewInt(2), big.NewInt(0x7654321), new(big.Int).Sub(ref.N, big.NewInt(3))}
		mc.Par(len(szs), func(i int) {
			for _, s := range ss {
				for path := range paths {
					R.T(1)
					if m := mc.Safe(func() string { return runMul(s, g3, szs[i].V, path, i%2 == 1, 0) }); m != "" {
						R.Mismatch(fmt.Sprintf("mul/%s/steered representative", paths[path]), "mul", m,
							mc.D{"s": mc.HexBig(s), "p": lib.PtHex(g3), "z": fmt.Sprintf("%x", szs[i].V), "path": path, "path_name": paths[path], "aliased": i%2 == 1, "hist": 0, "z_label": szs[i].Label})
					}
				}
			}
		})
	}
	// s*P is a function of (s, P) alone: with the process-wide default entropy source (crypto/rand.Reader) stuck at
	// a constant - all zero, all ones, the bytes of p (zero after reduction) - every path still returns s*P
	// (sequential section: the reader is process-global)
	saved := crand.Reader
	for _, src := range []string{"zero", "ff", "hex:" + fmt.Sprintf("%x", ref.P), "counter"} {
		crand.Reader = mc.Script{Src: src, Mode: "full", FailAfter: -1}.New()
		for si, s := range []mc.Val{sc[0], sc[nGLV/2], sc[nGLV-1], sc[len(sc)-1]} {
			for path := range paths {
				R.T(1)
				p := pts[(si+path)%len(pts)]
				if m := mc.Safe(func() string { return runMul(s.V, p.P, zs[path%len(zs)], path, path%2 == 1, -1) }); m != "" {
					R.Fail("mul/default entropy source stuck at a constant", "misc", map[string]any{"crypto_rand_reader": src, "s": mc.HexBig(s.V), "point": p.Label, "path": paths[path], "what": m}, nil)
				}
			}
		}
	}
	// ... and with a default entropy source that FAILS (error at once, error after 5 bytes, endless empty reads are left
	// out: no horizon): a multiplication has no error result, so it may refuse (panic) - what it may never do is
	// return something that is not s*P
	for _, fa := range []int{0, 5} {
		crand.Reader = mc.Script{Src: "counter", Mode: "full", FailAfter: fa}.New()
		for si, s := range []mc.Val{sc[0], sc[nGLV/2], sc[len(sc)-1]} {
			for path := range paths {
				R.T(1)
				p := pts[(si+path)%len(pts)]
				m := mc.Safe(func() string { return runMul(s.V, p.P, zs[path%len(zs)], path, path%2 == 1, -1) })
				if m != "" && !strings.HasPrefix(m, "panic") {
					R.Fail("mul/default entropy source failing", "misc", map[string]any{"crypto_rand_reader_fails_after": fa, "s": mc.HexBig(s.V), "point": p.Label, "path": paths[path], "what": m}, nil)
				}
			}
		}
	}
	crand.Reader = saved
	R.Class("multiplications with crypto/rand.Reader stuck at a constant", int64(4*4*len(paths)))
	if R.Expired() {
		R.Cap("stopped by the internal time budget")
	}
	R.Class("multiplications/(scalar, point, representative) triples", int64(len(jobs)))
	R.Sample("mul", map[string]any{"s": mc.HexBig(sc[0].V), "scalar_label": sc[0].Label, "point": pts[1].Label, "paths": paths})
	R.Sample("mul", map[string]any{"s": mc.HexBig(sc[nGLV/2].V), "scalar_label": sc[nGLV/2].Label, "point": pts[len(pts)-1].Label})
	R.Expect("split signs (k1 negative=false, k2 negative=false)", "split signs (k1 negative=true, k2 negative=false)", "split signs (k1 negative=false, k2 negative=true)", "split signs (k1 negative=true, k2 negative=true)")
	// cold start: each path as the first library operation of a fresh process
	for path := range paths {
		g5 := ref.G().Mul(big.NewInt(5))
		for _, s := range []*big.Int{big.NewInt(0x1d3), new(big.Int).Sub(ref.N, big.NewInt(7))} {
			R.Cold(fmt.Sprintf("mul/%s", paths[path]), "mul", mc.D{"s": mc.HexBig(s), "p": lib.PtHex(g5), "z": "3", "path": path, "aliased": false, "hist": 0})
		}
	}
	R.Finish()
}
