// C05 — fixed-base multiplication and the embedded generator tables are exact.
//
// Complete enumeration: all 8160 + 480 precomputed table entries, all 32x256
// single-byte scalars through the constant-time 4-bit path and the
// variable-time 8-bit path, all position pairs over a byte alphabet, and the
// scalar alphabet — against a reference table built by affine additions.
// Runs under both the assembly and the pure-Go lookup (two build configurations).
package main

import (
	"bytes"
	"fmt"
	"math/big"
	"os"

	secp256k1 "gitlab.com/yawning/secp256k1-voi"
	"gitlab.com/yawning/secp256k1-voi/secec"
	"gitlab.com/yawning/secp256k1-voi/secec/bitcoin"

	"verif/lib"
	"verif/mc"
	"verif/ref"
)

var (
	R      *mc.Report
	refTab [32][256]ref.Pt // refTab[i][b] = b * 256^i * G
)

func buildRefTable() {
	base := ref.G()
	for i := 0; i < 32; i++ {
		refTab[i][0] = ref.Infinity()
		acc := ref.Infinity()
		for b := 1; b < 256; b++ {
			acc = acc.Add(base)
			refTab[i][b] = acc
		}
		base = acc.Add(base) // 256 * base
	}
}

var paths = []string{"ScalarBaseMult (constant-time, 4-bit windows)", "DoubleScalarMultBasepointVartime(s,0,G) (8-bit windows)", "scalarBaseMultVartime (hook)", "NewPrivateKeyFromScalar(s).PublicKey()"}

// runBase: s*G through one path, expected given.
func runBase(s *big.Int, path int, want ref.Pt) string {
	sc := lib.MkSC(s)
	var v *secp256k1.Point
	switch path {
	case 0:
		v = new(secp256k1.Point)
		if v.ScalarBaseMult(sc) != v {
			return "ScalarBaseMult did not return its receiver"
		}
	case 1:
		// the exported routes to the variable-time generator multiplication: u2 = 0, P = identity (any u2), and the
		// receiver being the (identity) point argument itself; the RECEIVER is what callers read
		v = new(secp256k1.Point)
		if v.DoubleScalarMultBasepointVartime(sc, secp256k1.NewScalar(), secp256k1.NewGeneratorPoint()) != v {
			return "DoubleScalarMultBasepointVartime(s,0,G) did not return its receiver"
		}
		v2 := lib.MkPT(ref.G().Mul(big.NewInt(3))) // pre-loaded receiver
		if v2.DoubleScalarMultBasepointVartime(sc, lib.MkSC(big.NewInt(5)), secp256k1.NewIdentityPoint()) != v2 {
			return "DoubleScalarMultBasepointVartime(s,5,identity) did not return its receiver"
		}
		if m := lib.CheckPointLight(v2, want); m != "" {
			return "DoubleScalarMultBasepointVartime(s, 5, identity): " + m
		}
		v3 := secp256k1.NewIdentityPoint()
		v3.DoubleScalarMultBasepointVartime(sc, lib.MkSC(big.NewInt(5)), v3)
		if m := lib.CheckPointLight(v3, want); m != "" {
			return "q.DoubleScalarMultBasepointVartime(s, 5, q) with q the identity: " + m
		}
	case 2:
		if secp256k1.VerifScalarBaseMultVartime == nil {
			return ""
		}
		v = secp256k1.VerifScalarBaseMultVartime(new(secp256k1.Point), sc)
		x, y, z, _ := secp256k1.VerifPointXYZ(v)
		secp256k1.VerifPointSetXYZ(v, x, y, z, true)
	case 3:
		if s.Sign() == 0 {
			return ""
		}
		k, err := secec.NewPrivateKeyFromScalar(sc)
		if err != nil {
			return "NewPrivateKeyFromScalar failed: " + err.Error()
		}
		if !bytes.Equal(k.PublicKey().Bytes(), want.Uncompressed()) {
			return fmt.Sprintf("public key %x, reference d*G = %x", k.PublicKey().Bytes(), want.Uncompressed())
		}
		k2, err := secec.NewPrivateKey(ref.B32(s))
		if err != nil || !bytes.Equal(k2.PublicKey().Bytes(), want.Uncompressed()) {
			return "NewPrivateKey(d).PublicKey() != d*G"
		}
		// history: other keys are derived from this one; d must still be mapped to d*G afterwards
		_ = bitcoin.NewSchnorrPrivateKeyFromECDSA(k2)
		_ = bitcoin.NewSchnorrPublicKeyFromECDSA(k2.PublicKey())
		if m := lib.CheckPointLight(k2.PublicKey().Point(), want); m != "" {
			return "after deriving a Schnorr key pair from the key, its public point is no longer d*G: " + m
		}
		if !bytes.Equal(k2.PublicKey().Bytes(), want.Uncompressed()) || !bytes.Equal(k2.PublicKey().CompressedBytes(), want.Compressed()) {
			return "after deriving a Schnorr key pair from the key, its public encodings are no longer those of d*G"
		}
		// "every private scalar d is mapped to the public point d*G" is a statement about key OBJECTS over their whole
		// life: the caller goes on using the scalar it passed in and the scalars the keys hand out (in-place tweaks,
		// as in child-key derivation) - the pairing (private scalar, public point) of every key must survive that
		sk2, err := bitcoin.NewSchnorrPrivateKey(ref.B32(s))
		if err != nil {
			return "NewSchnorrPrivateKey failed: " + err.Error()
		}
		sc.Add(sc, lib.MkSC(big.NewInt(1)))
		for _, h := range []*secp256k1.Scalar{k.Scalar(), k2.Scalar(), sk2.Scalar()} {
			h.Add(h, lib.MkSC(big.NewInt(2)))
		}
		for i, kk := range []*secec.PrivateKey{k, k2} {
			if !bytes.Equal(kk.Bytes(), ref.B32(s)) || !bytes.Equal(kk.Scalar().Bytes(), ref.B32(s)) {
				return fmt.Sprintf("key %d: after the caller modified scalars it owns (the one passed in, the ones handed out) the key exports another private scalar", i)
			}
			if m := lib.CheckPointLight(secp256k1.NewIdentityPoint().ScalarBaseMult(kk.Scalar()), want); m != "" {
				return fmt.Sprintf("key %d: Scalar()*G is no longer the key's public point d*G: %s", i, m)
			}
			if !bytes.Equal(kk.PublicKey().Bytes(), want.Uncompressed()) {
				return fmt.Sprintf("key %d: public key changed", i)
			}
		}
		if !bytes.Equal(sk2.Bytes(), ref.B32(s)) || !bytes.Equal(sk2.Scalar().Bytes(), ref.B32(s)) {
			return "Schnorr key: after the caller modified the scalar it was handed, the key exports another private scalar"
		}
		if xb, _ := secp256k1.NewIdentityPoint().ScalarBaseMult(sk2.Scalar()).XBytes(); !bytes.Equal(xb, sk2.PublicKey().Bytes()) || !bytes.Equal(xb, ref.B32(want.X)) {
			return "Schnorr key: x(Scalar()*G) is no longer the key's x-only public key x(d*G)"
		}
		return ""
	}
	if m := lib.CheckPointLight(v, want); m != "" {
		return m
	}
	if !bytes.Equal(sc.Bytes(), ref.B32(s)) {
		return "scalar operand modified"
	}
	return ""
}

// runBaseAliased: receiver pre-loaded with another point (must not matter).
func runBaseRecv(s *big.Int, want ref.Pt) string {
	for h := 0; h < lib.NumReceiverHistories; h++ { // whatever the receiver held or went through before
		v := lib.ReceiverWithHistory(h)
		v.ScalarBaseMult(lib.MkSC(s))
		if m := lib.CheckPointLight(v, want); m != "" {
			return fmt.Sprintf("receiver with history %d (0 zero value, 1 computed point, 2 receiver of failed decodes, 3 identity): %s", h, m)
		}
		w := lib.ReceiverWithHistory(h)
		w.DoubleScalarMultBasepointVartime(lib.MkSC(s), secp256k1.NewScalar(), secp256k1.NewGeneratorPoint())
		if m := lib.CheckPointLight(w, want); m != "" {
			return fmt.Sprintf("variable-time path, receiver with history %d: %s", h, m)
		}
	}
	return ""
}

func runEntry(huge bool, i, j int) string {
	var x, y *secp256k1.VerifFE
	var want ref.Pt
	if huge {
		if secp256k1.VerifHugeTableEntry == nil {
			return ""
		}
		x, y = secp256k1.VerifHugeTableEntry(i, j)
		want = refTab[i][j+1]
	} else {
		if secp256k1.VerifOddTableEntry == nil {
			return ""
		}
		x, y = secp256k1.VerifOddTableEntry(i, j)
		want = refTab[i][16*(j+1)]
	}
	gx, gy := lib.FEVal(x), lib.FEVal(y)
	if gx.Cmp(want.X) != 0 || gy.Cmp(want.Y) != 0 {
		return fmt.Sprintf("table entry (%x,%x), reference (%x,%x)", gx, gy, want.X, want.Y)
	}
	return ""
}

func register() {
	mc.Register("base", func(d mc.D) string {
		s := d.Big("s")
		return runBase(s, d.I("path"), ref.BaseMul(s))
	})
	mc.Register("baserecv", func(d mc.D) string {
		s := d.Big("s")
		return runBaseRecv(s, ref.BaseMul(s))
	})
	mc.Register("entry", func(d mc.D) string {
		buildRefTable()
		return runEntry(d.Bool("huge"), d.I("i"), d.I("j"))
	})
}

func main() {
	R = mc.New("C05")
	register()
	mc.MaybeReplay()
	cfg := os.Getenv("VERIF_RUN")
	if cfg == "" {
		cfg = "asm"
	}
	R.Config(cfg)
	R.Rule("states = distinct table entries and scalars; a transition is one table-entry comparison or one fixed-base multiplication through one code path, compared with a reference table built from 8191 affine additions / reference double-and-add; non-trivial = every window value in every position (zero nibbles and zero bytes included), position pairs, boundary scalars")
	R.Assume("math/big; affine chord-and-tangent reference; (1)+(2)+C03's mixed-addition coverage give s*G for all s compositionally: the loops are sums over independent byte positions")
	buildRefTable()
	// reference table self-check against the independent double-and-add
	for _, c := range [][2]int{{0, 1}, {0, 255}, {1, 1}, {7, 200}, {31, 255}, {31, 1}, {16, 128}} {
		k := new(big.Int).Lsh(big.NewInt(int64(c[1])), uint(8*c[0]))
		if !refTab[c[0]][c[1]].Equal(ref.G().MulAffine(k)) {
			R.Fail("reference-table-selftest", "misc", map[string]any{"i": c[0], "b": c[1]}, nil)
		}
	}
	if cfg == "checkptr" {
		// a build with pointer instrumentation (-race implies checkptr): the one place where the library uses unsafe -
		// the cast from a 255-entry sub-table to its 15-entry prefix in the constant-time path - and the assembly
		// lookups must obey the unsafe.Pointer rules; a reduced workload, every path, every byte position
		mc.Par(32*16, func(n int) {
			i, b := n/16, (n%16)*17
			s := new(big.Int).Lsh(big.NewInt(int64(b)), uint(8*i))
			for p := range paths {
				R.T(1)
				if m := mc.Safe(func() string { return runBase(s, p, refTab[i][b]) }); m != "" {
					R.Mismatch(fmt.Sprintf("base/single byte/%s/%s", paths[p], cfg), "base", m, mc.D{"s": mc.HexBig(s), "path": p, "path_name": paths[p], "position": i, "byte": b})
				}
			}
			R.State(mc.HS("byte", fmt.Sprint(n)))
			R.NT(mc.HS(cfg, "byte", fmt.Sprint(n)))
		})
		R.Class("checkptr/single-byte scalars (32 positions x 16 values) x 4 paths under pointer instrumentation", 32*16)
		R.Finish()
		return
	}
	th := R.Thorough()

	// (1) all table entries
	if secp256k1.VerifHugeTableEntry != nil {
		mc.Par(32, func(i int) {
			for j := 0; j < 255; j++ {
				R.T(1)
				if m := mc.Safe(func() string { return runEntry(true, i, j) }); m != "" {
					R.Mismatch(fmt.Sprintf("table/huge/%s", cfg), "entry", m, mc.D{"huge": true, "i": i, "j": j})
				}
			}
			for j := 0; j < 15; j++ {
				R.T(1)
				if m := mc.Safe(func() string { return runEntry(false, i, j) }); m != "" {
					R.Mismatch(fmt.Sprintf("table/odd/%s", cfg), "entry", m, mc.D{"huge": false, "i": i, "j": j})
				}
			}
		})
		R.States(8160 + 480)
		R.Class(cfg+"/table entries compared (8160 huge + 480 odd)", 8640)
		if secp256k1.VerifTableBytesNil != nil {
			R.Note(fmt.Sprintf("observed, not judged: embedded table byte slice released after init = %v", secp256k1.VerifTableBytesNil()))
		}
	} else {
		R.SkipHook("generator tables")
	}

	// (2) all 32 x 256 single-byte scalars, every path
	mc.Par(32*256, func(n int) {
		i, b := n/256, n%256
		s := new(big.Int).Lsh(big.NewInt(int64(b)), uint(8*i))
		for p := range paths {
			R.T(1)
			if m := mc.Safe(func() string { return runBase(s, p, refTab[i][b]) }); m != "" {
				R.Mismatch(fmt.Sprintf("base/single byte/%s/%s", paths[p], cfg), "base", m, mc.D{"s": mc.HexBig(s), "path": p, "path_name": paths[p], "position": i, "byte": b})
			}
		}
		if b%16 == 0 {
			R.T(1)
			if m := mc.Safe(func() string { return runBaseRecv(s, refTab[i][b]) }); m != "" {
				R.Mismatch("base/receiver with a past/"+cfg, "baserecv", m, mc.D{"s": mc.HexBig(s)})
			}
		}
		R.State(mc.HS("byte", fmt.Sprint(n)))
		R.NT(mc.HS(cfg, "byte", fmt.Sprint(n)))
	})
	R.Class(cfg+"/single-byte scalars (32 positions x 256 values) x 4 paths", 32*256)
	R.Sample("single byte", map[string]any{"s": mc.HexBig(new(big.Int).Lsh(big.NewInt(0xf0), 8*17)), "position": 17, "byte": "f0", "paths": paths})

	// (3) all position pairs i<j x byte alphabet^2
	bv := []int{0x00, 0x01, 0x0f, 0x10, 0xf0, 0xff}
	type pj struct{ i, j int }
	var pjs []pj
	for i := 0; i < 32; i++ {
		for j := i + 1; j < 32; j++ {
			pjs = append(pjs, pj{i, j})
		}
	}
	mc.Par(len(pjs), func(n int) {
		c := pjs[n]
		for _, bi := range bv {
			for _, bj := range bv {
				s := new(big.Int).Lsh(big.NewInt(int64(bi)), uint(8*c.i))
				s.Add(s, new(big.Int).Lsh(big.NewInt(int64(bj)), uint(8*c.j)))
				if s.Cmp(ref.N) >= 0 {
					continue
				}
				want := refTab[c.i][bi].Add(refTab[c.j][bj])
				for p := 0; p < 3; p++ {
					if !th && p == 2 {
						continue
					}
					R.T(1)
					if m := mc.Safe(func() string { return runBase(s, p, want) }); m != "" {
						R.Mismatch(fmt.Sprintf("base/position pair/%s/%s", paths[p], cfg), "base", m, mc.D{"s": mc.HexBig(s), "path": p, "path_name": paths[p]})
					}
				}
				R.State(mc.HS("pair", s.String()))
			}
		}
	})
	R.Class(cfg+"/position pairs x {00,01,0f,10,f0,ff}^2", int64(len(pjs)*36))

	// (3b) thorough: ALL 65536 values of two adjacent bytes at several positions (carries between neighbouring windows)
	if th {
		for _, pos := range []int{0, 7, 15, 16, 23, 30} {
			pos := pos
			mc.Par(65536, func(v int) {
				s := new(big.Int).Lsh(big.NewInt(int64(v)), uint(8*pos))
				if s.Cmp(ref.N) >= 0 {
					return
				}
				want := refTab[pos][v&0xff].Add(refTab[pos+1][v>>8])
				for p := 0; p < 3; p++ {
					R.T(1)
					if m := mc.Safe(func() string { return runBase(s, p, want) }); m != "" {
						R.Mismatch(fmt.Sprintf("base/two adjacent bytes/%s/%s", paths[p], cfg), "base", m, mc.D{"s": mc.HexBig(s), "path": p, "path_name": paths[p]})
					}
				}
			})
			R.States(65536)
		}
		R.Class(cfg+"/all 65536 values of two adjacent bytes x 6 positions", 6*65536)
	}
	// (4) scalar alphabet, every path
	sc := mc.ModAlphabet(ref.N, mc.ScalarConstants(), R.Seed, 8, false)
	// nibble patterns
	for _, h := range []string{"0f0f0f0f0f0f0f0f0f0f0f0f0f0f0f0f0f0f0f0f0f0f0f0f0f0f0f0f0f0f0f0f", "f0f0f0f0f0f0f0f0f0f0f0f0f0f0f0f0f0f0f0f0f0f0f0f0f0f0f0f0f0f0f0f0", "00ff00ff00ff00ff00ff00ff00ff00ff00ff00ff00ff00ff00ff00ff00ff00ff",
		"1111111111111111111111111111111111111111111111111111111111111111", "0123456789abcdef0123456789abcdef0123456789abcdef0123456789abcdef", "fedcba9876543210fedcba9876543210fedcba9876543210fedcba9876543210"} {
		v, _ := new(big.Int).SetString(h, 16)
		sc = append(sc, mc.Val{Label: "nibble pattern " + h[:8], V: ref.ModN(v)})
	}
	if !th {
		var sub []mc.Val
		for i, v := range sc {
			if i%2 == 0 {
				sub = append(sub, v)
			}
		}
		sc = sub
	}
	// scalars at which the accumulator and the table entry about to be added are distinct points with the same (or
	// opposite) y-coordinate - images of each other under the endomorphism
	endo := mc.EndoWindowScalars()
	sc = append(sc, endo...)
	R.Class(cfg+"/endomorphism-related accumulator and table entry", int64(len(endo)))
	R.Bound("scalar_alphabet", len(sc))
	mc.Par(len(sc), func(i int) {
		s := sc[i].V
		want := ref.BaseMul(s)
		for p := range paths {
			R.T(1)
			if m := mc.Safe(func() string { return runBase(s, p, want) }); m != "" {
				R.Mismatch(fmt.Sprintf("base/alphabet/%s/%s", paths[p], cfg), "base", m, mc.D{"s": mc.HexBig(s), "path": p, "path_name": paths[p], "label": sc[i].Label})
			}
		}
		R.State(mc.HS("sc", s.String()))
	})
	R.Class(cfg+"/alphabet scalars x 4 paths", int64(len(sc)))
	R.Bound("paths", paths)
	R.Expect(cfg+"/single-byte scalars (32 positions x 256 values) x 4 paths", cfg+"/table entries compared (8160 huge + 480 odd)")
	// cold start: each path as the FIRST library operation of a fresh process (nothing has touched the tables before)
	if os.Getenv("VERIF_RUN") == "" || os.Getenv("VERIF_RUN") == "asm" || os.Getenv("VERIF_RUN") == "purego" {
		for path := range paths {
			for _, s := range []*big.Int{big.NewInt(0x2f), new(big.Int).Lsh(big.NewInt(0xa7), 8*17), new(big.Int).Sub(ref.N, big.NewInt(2))} {
				R.Cold(fmt.Sprintf("basemul/%s", paths[path]), "base", mc.D{"s": mc.HexBig(s), "path": path})
			}
		}
	}
	R.Finish()
}
