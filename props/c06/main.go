// C06 — SEC 1 point decoding is strict, encoding is a bijection on curve points.
//
// Skeleton x deviation enumeration over byte strings of every length 0..66,
// through every decoding entry point and with every kind of pre-loaded
// receiver, against the SEC 1 reference codec.
package main

import (
	"bytes"
	"fmt"
	"math/big"
	"sort"
	"sync"

	secp256k1 "gitlab.com/yawning/secp256k1-voi"

	"verif/lib"
	"verif/mc"
	"verif/ref"
)

type Point = secp256k1.Point

var R *mc.Report

var entries = []string{"SetBytes", "SetCompressedBytes", "SetUncompressedBytes", "NewPointFromBytes"}
var recvKinds = []string{"zero-value", "G", "identity", "3G with Z=7"}

func mkRecv(kind int) *Point {
	switch kind {
	case 1:
		return secp256k1.NewGeneratorPoint()
	case 2:
		return secp256k1.NewIdentityPoint()
	case 3:
		return lib.MkPTRep(ref.G().Mul(big.NewInt(3)), big.NewInt(7))
	}
	return new(Point)
}

func refDecode(entry int, b []byte) (ref.Pt, error) {
	switch entry {
	case 1:
		return ref.DecodeCompressed(b)
	case 2:
		return ref.DecodeUncompressed(b)
	}
	return ref.DecodePoint(b)
}

// accepted records, per (abstract point, format), the strings some decoder accepted: uniqueness.
var accepted sync.Map // key string -> *sync.Map of string->bool

func noteAccepted(p ref.Pt, b []byte) {
	k := fmt.Sprintf("%d:%s", len(b), p.Key())
	m, _ := accepted.LoadOrStore(k, &sync.Map{})
	m.(*sync.Map).Store(string(b), true)
}

// runDecode: one byte string through one entry point with one receiver kind.
func runDecode(b []byte, entry, rk int) string {
	in := append([]byte{}, b...)
	want, werr := refDecode(entry, b)
	v := mkRecv(rk)
	before := lib.Raw(v)
	var got *Point
	var err error
	pn := lib.Try(func() {
		switch entry {
		case 0:
			got, err = v.SetBytes(in)
		case 1:
			got, err = v.SetCompressedBytes(in)
		case 2:
			got, err = v.SetUncompressedBytes(in)
		case 3:
			got, err = secp256k1.NewPointFromBytes(in)
		}
	})
	if pn != "" {
		return "panic: " + pn
	}
	if !bytes.Equal(in, b) {
		return "input buffer modified"
	}
	if werr != nil {
		if err == nil {
			return fmt.Sprintf("accepted an encoding the SEC 1 reference rejects (decoded to %x)", safeEnc(got))
		}
		if got != nil {
			return "error returned together with a non-nil point"
		}
		if lib.Raw(v) != before {
			return "receiver modified by a failed decode: before " + before + " after " + lib.Raw(v)
		}
		return ""
	}
	if err != nil {
		return "rejected a valid SEC 1 encoding: " + err.Error()
	}
	if entry != 3 && got != v {
		return "did not return the receiver"
	}
	if entry == 3 {
		if lib.Raw(v) != before {
			return "NewPointFromBytes touched an unrelated object"
		}
	}
	if m := lib.CheckPointLight(got, want); m != "" {
		return m
	}
	// decode then encode (same format) is the identity
	var re []byte
	switch len(b) {
	case 33:
		re = got.CompressedBytes()
	case 65:
		re = got.UncompressedBytes()
	default:
		re = got.CompressedBytes() // identity: 00
	}
	if !bytes.Equal(re, b) {
		return fmt.Sprintf("decode-then-encode is not the identity: re-encoded %x", re)
	}
	noteAccepted(want, b)
	return ""
}

func safeEnc(p *Point) []byte {
	var out []byte
	lib.Try(func() { out = p.UncompressedBytes() })
	return out
}

// runCoords: NewPointFromCoords on two 32-byte strings.
func runCoords(xb, yb []byte) string {
	x, y := ref.OS2IP(xb), ref.OS2IP(yb)
	ok := ref.OnCurveXY(x, y) // includes x,y < p
	var xa, ya [32]byte
	copy(xa[:], xb)
	copy(ya[:], yb)
	p, err := secp256k1.NewPointFromCoords(&xa, &ya)
	if ok {
		if err != nil {
			return "rejected valid coordinates: " + err.Error()
		}
		return lib.CheckPoint(p, ref.Pt{X: x, Y: y})
	}
	if err == nil || p != nil {
		return "accepted invalid coordinates"
	}
	return ""
}

// runRecover: RecoverPoint(r, id) for r in [0,n), id in 0..255.
func runRecover(r *big.Int, id int) string {
	want, werr := ref.RecoverPointR(r, id)
	if id > 3 {
		werr = ref.ErrRecover
	}
	s := lib.MkSC(r)
	var p *Point
	var err error
	if pn := lib.Try(func() { p, err = secp256k1.RecoverPoint(s, byte(id)) }); pn != "" {
		return "panic: " + pn
	}
	if !bytes.Equal(s.Bytes(), ref.B32(r)) {
		return "scalar operand modified"
	}
	if werr != nil {
		if err == nil {
			return fmt.Sprintf("recovered a point (%x) where the reference fails", safeEnc(p))
		}
		if p != nil {
			return "error with non-nil point"
		}
		return ""
	}
	if err != nil {
		return "failed where the reference recovers " + want.String() + ": " + err.Error()
	}
	return lib.CheckPoint(p, want)
}

func register() {
	mc.Register("dec", func(d mc.D) string { return runDecode(d.B("bytes"), d.I("entry"), d.I("recv")) })
	mc.Register("coords", func(d mc.D) string { return runCoords(d.B("x"), d.B("y")) })
	mc.Register("recover", func(d mc.D) string { return runRecover(d.Big("r"), d.I("id")) })
	mc.Register("enc", func(d mc.D) string { return runEncode(lib.HexPt(d.S("p")), d.Big("z")) })
}

// runEncode: encode then decode is the identity, for any representative.
func runEncode(p ref.Pt, z *big.Int) string {
	v := lib.MkPTRep(p, z)
	if m := lib.CheckPoint(v, p); m != "" {
		return m
	}
	for _, enc := range [][]byte{v.CompressedBytes(), v.UncompressedBytes()} {
		q, err := secp256k1.NewPointFromBytes(enc)
		if err != nil {
			return fmt.Sprintf("own encoding %x rejected: %v", enc, err)
		}
		if m := lib.CheckPointLight(q, p); m != "" {
			return "encode-then-decode: " + m
		}
		if q.Equal(v) != 1 {
			return "encode-then-decode: Equal = 0"
		}
		// the caller owns what an encoder returned: scribbling over it changes no later encoding, of this object or
		// of another object holding the same point
		for i := range enc {
			enc[i] ^= 0xa5
		}
	}
	w := lib.MkPTRep(p, big.NewInt(7))
	for _, o := range []*secp256k1.Point{v, w} {
		if c, u := o.CompressedBytes(), o.UncompressedBytes(); !bytes.Equal(c, p.Compressed()) || !bytes.Equal(u, p.Uncompressed()) {
			return fmt.Sprintf("after the caller wrote into earlier returned encodings, the point encodes as %x / %x, expected %x / %x", c, u, p.Compressed(), p.Uncompressed())
		}
	}
	return ""
}

// ---------------------------------------------------------------- corpus

type item struct {
	b   []byte
	cls string
}

func classify(b []byte) string {
	_, err := ref.DecodePoint(b)
	if err == nil {
		switch len(b) {
		case 1:
			return "accept/identity"
		case 33:
			return "accept/compressed"
		}
		return "accept/uncompressed"
	}
	switch len(b) {
	case 1:
		return "reject/1-byte non-zero"
	case 33:
		if b[0] != 2 && b[0] != 3 {
			if b[0] == 0 {
				return "reject/33 bytes prefix 00"
			}
			return "reject/compressed prefix"
		}
		if ref.OS2IP(b[1:]).Cmp(ref.P) >= 0 {
			return "reject/compressed x >= p"
		}
		return "reject/compressed x^3+7 non-residue"
	case 65:
		if b[0] != 4 {
			if b[0] == 6 || b[0] == 7 {
				return "reject/hybrid prefix"
			}
			return "reject/uncompressed prefix"
		}
		x, y := ref.OS2IP(b[1:33]), ref.OS2IP(b[33:])
		if x.Cmp(ref.P) >= 0 {
			if ref.OnCurveXY(ref.ModP(x), ref.ModP(y)) {
				return "reject/uncompressed x >= p (alias of a curve point)"
			}
			return "reject/uncompressed x >= p"
		}
		if y.Cmp(ref.P) >= 0 {
			if ref.OnCurveXY(x, ref.ModP(y)) {
				return "reject/uncompressed y >= p (alias of a curve point)"
			}
			return "reject/uncompressed y >= p"
		}
		return "reject/uncompressed not on curve"
	}
	return "reject/length"
}

func cat(parts ...[]byte) []byte {
	var o []byte
	for _, p := range parts {
		o = append(o, p...)
	}
	return o
}

func b32ok(v *big.Int) ([]byte, bool) {
	if v.Sign() < 0 || v.BitLen() > 256 {
		return nil, false
	}
	return ref.B32(v), true
}

func corpus(pts []mc.PVal) [][]byte {
	seen := map[string]bool{}
	var out [][]byte
	add := func(b []byte) {
		if !seen[string(b)] {
			seen[string(b)] = true
			out = append(out, b)
		}
	}
	one := big.NewInt(1)
	max := new(big.Int).Sub(ref.R256, one)
	special := []*big.Int{ref.P, new(big.Int).Add(ref.P, one), max, big.NewInt(0), big.NewInt(5), new(big.Int).Sub(ref.P, one), ref.N}
	tail := []byte{0x00, 0x01, 0xff}
	for pi, pv := range pts {
		p := pv.P
		if p.Inf {
			continue
		}
		c, u := p.Compressed(), p.Uncompressed()
		xb, yb := ref.B32(p.X), ref.B32(p.Y)
		add(c)
		add(u)
		// all 256 prefixes on both skeletons (incl. hybrid 06/07, swapped parity 02<->03)
		for pre := 0; pre < 256; pre++ {
			add(cat([]byte{byte(pre)}, xb))
			add(cat([]byte{byte(pre)}, xb, yb))
		}
		// +p aliases
		if xa, ok := b32ok(new(big.Int).Add(p.X, ref.P)); ok {
			add(cat([]byte{c[0]}, xa))
			add(cat([]byte{4}, xa, yb))
			if ya, ok := b32ok(new(big.Int).Add(p.Y, ref.P)); ok {
				add(cat([]byte{4}, xa, ya))
			}
		}
		if ya, ok := b32ok(new(big.Int).Add(p.Y, ref.P)); ok {
			add(cat([]byte{4}, xb, ya))
		}
		// y -> p-y (other valid point), y+-1, x+-1, swapped coordinates
		add(cat([]byte{4}, xb, ref.B32(ref.FpNeg(p.Y))))
		for _, d := range []int64{-1, 1} {
			if v, ok := b32ok(new(big.Int).Add(p.Y, big.NewInt(d))); ok {
				add(cat([]byte{4}, xb, v))
			}
			if v, ok := b32ok(new(big.Int).Add(p.X, big.NewInt(d))); ok {
				add(cat([]byte{4}, v, yb))
				add(cat([]byte{2}, v))
				add(cat([]byte{3}, v))
			}
		}
		add(cat([]byte{4}, yb, xb))
		// the valid encodings without their prefix byte (a bare X || Y is well-formed coordinate data of the right
		// point, but not a SEC 1 encoding) and with the prefix doubled
		add(cat(xb, yb))
		add(xb)
		add(cat([]byte{4, 4}, xb, yb))
		add(cat([]byte{c[0], c[0]}, xb))
		// special coordinate values in either slot
		for _, sv := range special {
			sb := ref.B32(sv)
			add(cat([]byte{4}, sb, yb))
			add(cat([]byte{4}, xb, sb))
			add(cat([]byte{2}, sb))
			add(cat([]byte{3}, sb))
		}
		if pi%3 == 0 {
			// every truncation and every extension by 1..2 bytes
			mc.Truncations(c, add)
			mc.Truncations(u, add)
			mc.Extensions(c, tail, 2, add)
			mc.Extensions(u, tail, 2, add)
		}
	}
	// both coordinates special at once ((0,0) is "infinity" in other libraries' conventions, never a SEC 1 encoding)
	for _, sx := range special {
		for _, sy := range special {
			add(cat([]byte{4}, ref.B32(sx), ref.B32(sy)))
		}
	}
	// limb-structured coordinates: p - 2^k, 2^256-1-2^k, 2^k, 2^k - 1, p + 2^k for every k, as compressed
	// encodings (both parities) and as x of an uncompressed encoding with the reference y when one exists
	for k := uint(0); k < 256; k++ {
		p2 := new(big.Int).Lsh(one, k)
		for _, v := range []*big.Int{new(big.Int).Sub(ref.P, p2), new(big.Int).Sub(max, p2), p2, new(big.Int).Sub(p2, one), new(big.Int).Add(ref.P, p2)} {
			if v.Sign() < 0 || v.BitLen() > 256 {
				continue
			}
			xb := ref.B32(v)
			add(cat([]byte{2}, xb))
			add(cat([]byte{3}, xb))
			if pt, ok := ref.LiftX(v, 0); ok {
				add(pt.Uncompressed())
				// the same point with y and x exchanged roles: y-coordinate = limb-structured value if it happens to fit is not constructible; skip
			}
		}
	}
	// every length 0..66 with structured fill
	for L := 0; L <= 66; L++ {
		for _, pre := range []byte{0, 2, 3, 4, 6, 7} {
			for _, fill := range []byte{0x00, 0xff, 0x01} {
				b := bytes.Repeat([]byte{fill}, L)
				if L > 0 {
					b[0] = pre
				}
				add(b)
			}
		}
		// G's uncompressed bytes cut / padded to L
		g := append(ref.G().Uncompressed(), 0, 0)
		add(append([]byte{}, g[:L]...))
	}
	add([]byte{})
	for v := 0; v < 256; v++ {
		add([]byte{byte(v)})
	}
	// limb near misses of the curve equation and aliases spread over the whole non-canonical window
	for _, b := range mc.SEC1Extras() {
		add(b)
	}
	return out
}

func main() {
	R = mc.New("C06")
	register()
	mc.MaybeReplay()
	R.Rule("states = distinct byte strings / (r,id) pairs / coordinate pairs; a transition is one decode through one entry point with one kind of pre-loaded receiver, run on the implementation and on the SEC 1 reference decoder; non-trivial = strings the reference rejects for a reason other than length, and accepted strings")
	R.Assume("math/big; SEC 1 2.3.3/2.3.4 reference codec in /verif/ref (validated against Wycheproof ECDH public keys)")
	R.Config("amd64 default build")
	maxK, nseed := 3, 2
	if R.Thorough() {
		maxK, nseed = 8, 8
	}
	pts := mc.PointAlphabet(maxK, R.Seed, nseed)
	R.Bound("points", len(pts))
	R.Bound("entry_points", entries)
	R.Bound("receiver_kinds", recvKinds)
	R.Bound("lengths", "0..66 (every length); 1 deviation = every position x all 256 values on 3 skeletons")

	cor := corpus(pts)
	// 1 deviation: every byte position x all 256 values on three skeletons
	var smallY ref.Pt
	for _, p := range pts {
		if !p.P.Inf && p.P.Y.BitLen() < 16 {
			smallY = p.P
		}
	}
	skels := [][]byte{ref.G().Compressed(), ref.G().Uncompressed()}
	if smallY.X != nil {
		skels = append(skels, smallY.Uncompressed())
	}
	if R.Thorough() {
		for _, p := range pts[1:] {
			if len(skels) < 40 {
				skels = append(skels, p.P.Compressed(), p.P.Uncompressed())
			}
		}
	}
	var dev [][]byte
	for _, s := range skels {
		mc.Subst1(s, nil, func(b []byte, _ int, _ byte) { dev = append(dev, b) })
	}
	if R.Thorough() {
		// 2 deviations over the grammar alphabet on the compressed skeleton
		mc.Subst2(ref.G().Compressed(), []byte{0x00, 0x01, 0x02, 0x03, 0x04, 0x06, 0x7f, 0x80, 0xfe, 0xff}, func(b []byte) { dev = append(dev, b) })
		mc.Subst2(ref.G().Uncompressed(), []byte{0x00, 0x02, 0x03, 0x04, 0x06, 0xff}, func(b []byte) { dev = append(dev, b) })
		if smallY.X != nil {
			mc.Subst2(smallY.Uncompressed(), []byte{0x00, 0x01, 0x04, 0xff}, func(b []byte) { dev = append(dev, b) })
		}
	}
	R.Bound("corpus_strings", len(cor))
	R.Bound("one_deviation_strings", len(dev))
	all := append(cor, dev...)

	mc.Par(len(all), func(i int) {
		b := all[i]
		cls := classify(b)
		R.Class(cls, 1)
		R.State(mc.H(b))
		if cls != "reject/length" {
			R.NT(mc.H(b))
		}
		for e := range entries {
			for rk := range recvKinds {
				if i >= len(cor) && rk%2 == 1 && e != 0 {
					continue // 1-deviation strings: all receivers through SetBytes, two receivers elsewhere
				}
				R.T(1)
				if m := mc.Safe(func() string { return runDecode(b, e, rk) }); m != "" {
					R.Mismatch("decode/"+entries[e]+"/"+cls, "dec", m, mc.D{"bytes": mc.Hex(b), "entry": e, "entry_name": entries[e], "recv": rk, "recv_kind": recvKinds[rk], "class": cls})
				}
			}
		}
		if R.WantSample(cls) {
			R.Sample(cls, map[string]any{"bytes": mc.Hex(b), "reference": cls})
		}
	})

	// uniqueness: per (point, format) exactly one accepted string
	nuniq := 0
	accepted.Range(func(k, v any) bool {
		var strs []string
		v.(*sync.Map).Range(func(s, _ any) bool { strs = append(strs, mc.Hex([]byte(s.(string)))); return true })
		nuniq++
		if len(strs) > 1 {
			sort.Strings(strs)
			R.Fail("decode/uniqueness", "uniq", map[string]any{"accepted_encodings_of_one_point": strs}, nil)
		}
		return true
	})
	R.Class("uniqueness/(point,format) groups with exactly one accepted string", int64(nuniq))

	// encode-then-decode on every point x representative
	zs := mc.ZReps(R.Seed, 1)
	for _, p := range pts {
		for _, z := range zs {
			R.Run("encode/roundtrip", "enc", mc.D{"p": lib.PtHex(p.P), "z": fmt.Sprintf("%x", z.V)})
		}
	}

	// NewPointFromCoords
	var coords [][]byte
	cseen := map[string]bool{}
	addc := func(v *big.Int) {
		if b, ok := b32ok(v); ok && !cseen[string(b)] {
			cseen[string(b)] = true
			coords = append(coords, b)
		}
	}
	for _, p := range pts {
		if p.P.Inf {
			continue
		}
		addc(p.P.X)
		addc(p.P.Y)
		addc(ref.FpNeg(p.P.Y))
		addc(new(big.Int).Add(p.P.X, ref.P))
		addc(new(big.Int).Add(p.P.Y, ref.P))
	}
	for _, v := range []*big.Int{big.NewInt(0), big.NewInt(5), ref.P, new(big.Int).Add(ref.P, big.NewInt(1)), new(big.Int).Sub(ref.R256, big.NewInt(1))} {
		addc(v)
	}
	mc.Par(len(coords), func(i int) {
		for j := range coords {
			R.T(1)
			ok := ref.OnCurveXY(ref.OS2IP(coords[i]), ref.OS2IP(coords[j]))
			if ok {
				R.Class("coords/accept", 1)
			} else {
				R.Class("coords/reject", 1)
			}
			if m := mc.Safe(func() string { return runCoords(coords[i], coords[j]) }); m != "" {
				R.Mismatch("NewPointFromCoords", "coords", m, mc.D{"x": mc.Hex(coords[i]), "y": mc.Hex(coords[j])})
			}
		}
	})
	R.Sample("coords", map[string]any{"x": mc.Hex(coords[0]), "y": mc.Hex(coords[1])})

	// RecoverPoint: all 256 ids
	var rs []*big.Int
	rseen := map[string]bool{}
	addr := func(v *big.Int) {
		v = ref.ModN(v)
		if !rseen[v.String()] {
			rseen[v.String()] = true
			rs = append(rs, v)
		}
	}
	pn := new(big.Int).Sub(ref.P, ref.N)
	for _, p := range pts {
		if !p.P.Inf {
			addr(p.P.X)
		}
	}
	for _, d := range []int64{-2, -1, 0, 1, 2} {
		addr(new(big.Int).Add(pn, big.NewInt(d)))
		addr(big.NewInt(d + 2))
		addr(new(big.Int).Add(ref.N, big.NewInt(d-3)))
	}
	// x-coordinates just below p-n (second candidate valid) and just above
	for _, x := range firstX(new(big.Int).Sub(pn, big.NewInt(40)), 6) {
		addr(x)
		addr(new(big.Int).Sub(x, ref.N)) // so that x = r + n - ... harmless duplicates
	}
	addr(big.NewInt(5))
	mc.Par(len(rs), func(i int) {
		for id := 0; id < 256; id++ {
			R.T(1)
			want, err := ref.RecoverPointR(rs[i], id)
			_ = want
			switch {
			case err == nil && id&2 != 0:
				R.Class("recover/accept second candidate (x = r+n < p)", 1)
			case err == nil:
				R.Class("recover/accept", 1)
			case id > 3:
				R.Class("recover/reject id > 3", 1)
			case id&2 != 0 && new(big.Int).Add(rs[i], ref.N).Cmp(ref.P) >= 0:
				R.Class("recover/reject r+n >= p", 1)
			default:
				R.Class("recover/reject not an x-coordinate", 1)
			}
			if m := mc.Safe(func() string { return runRecover(rs[i], id) }); m != "" {
				R.Mismatch(fmt.Sprintf("RecoverPoint/id&3=%d/id>3=%v", id&3, id > 3), "recover", m, mc.D{"r": mc.HexBig(rs[i]), "id": id})
			}
		}
		R.State(mc.HS("r", rs[i].String()))
	})
	R.Sample("recover", map[string]any{"r": mc.HexBig(rs[0]), "id": 3})
	R.Bound("recover_r_values", len(rs))
	R.Bound("recover_ids", "all 0..255")
	R.Expect("accept/identity", "accept/compressed", "accept/uncompressed", "reject/hybrid prefix", "reject/compressed x >= p", "reject/compressed x^3+7 non-residue",
		"reject/uncompressed x >= p (alias of a curve point)", "reject/uncompressed y >= p (alias of a curve point)", "reject/uncompressed not on curve", "reject/length",
		"recover/accept second candidate (x = r+n < p)", "recover/reject r+n >= p", "recover/reject not an x-coordinate", "recover/reject id > 3", "coords/accept", "coords/reject")
	// cold start: decoding / recovery as the first library operation of a fresh process
	for e := 0; e < 4; e++ {
		R.Cold("decode", "dec", mc.D{"bytes": mc.Hex(ref.G().Mul(big.NewInt(6)).Compressed()), "entry": e, "recv": e})
		R.Cold("decode", "dec", mc.D{"bytes": mc.Hex(ref.G().Mul(big.NewInt(9)).Uncompressed()), "entry": e, "recv": 3 - e})
	}
	R.Cold("recover", "recover", mc.D{"r": mc.HexBig(ref.ModN(ref.G().X)), "id": 1})
	R.Finish()
}

func firstX(start *big.Int, count int) []*big.Int {
	var out []*big.Int
	x := new(big.Int).Set(start)
	for i := 0; i < 200 && len(out) < count; i++ {
		if _, ok := ref.LiftX(x, 0); ok {
			out = append(out, new(big.Int).Set(x))
		}
		x.Add(x, big.NewInt(1))
	}
	return out
}
