// C07 — ECDSA verification accepts exactly the signatures SEC 1 4.1.4 accepts
// (plus the requested extras: low-s, digest-length rule, strict encodings,
// BIP-66 envelope, recovery id reconstructs Q).
//
// Product enumeration of constructed (Q, digest, r, s) x entry points x
// encodings x options, against the literal SEC 1 reference.
package main

import (
	"bytes"
	"crypto"
	_ "crypto/sha512"
	"fmt"
	"math/big"
	"reflect"

	"gitlab.com/yawning/secp256k1-voi/secec"
	"gitlab.com/yawning/secp256k1-voi/secec/bitcoin"

	"verif/lib"
	"verif/mc"
	"verif/ref"
)

var R *mc.Report

var optSets = []lib.VOpts{
	{Nil: true},
	{},
	{Hash: crypto.SHA256},
	{Hash: crypto.SHA512},
	{Hash: crypto.SHA384},
	{RejectMalleable: true},
	{Hash: crypto.SHA512, RejectMalleable: true},
	{Encoding: 1},
	{Encoding: 1, RejectMalleable: true},
	{Encoding: 2},
	{Encoding: 2, RejectMalleable: true},
	{Encoding: 3},
	{Encoding: -1},
	{Hash: crypto.SHA512, Encoding: 1},
	{Hash: crypto.SHA512, Encoding: 2, RejectMalleable: true},
}

// runCase checks every entry point / encoding / option combination for one
// (Q, digest, r, s) with r,s arbitrary non-negative integers; vs = recovery ids to try.
func runCase(q ref.Pt, digest []byte, r, s *big.Int, vs []int, dHex string) string {
	pk := lib.MkPub(q)
	// object history before verifying: a Schnorr key is derived from the key, and the caller mutates the
	// point the key handed out
	_ = bitcoin.NewSchnorrPublicKeyFromECDSA(pk)
	hp := pk.Point()
	hp.Negate(hp)
	if dHex != "" {
		dd, _ := new(big.Int).SetString(dHex, 16)
		sk := lib.MkPriv(dd)
		_ = bitcoin.NewSchnorrPrivateKeyFromECDSA(sk)
		pk = sk.PublicKey()
	}
	dgIn := append([]byte{}, digest...)
	want := ref.ECDSAVerify(q, digest, r, s)
	inRange := r.Cmp(ref.N) < 0 && s.Cmp(ref.N) < 0
	// VerifyRaw takes scalars: only canonical r,s are expressible
	if inRange {
		var got bool
		if pn := lib.Try(func() { got = pk.VerifyRaw(dgIn, lib.MkSC(r), lib.MkSC(s)) }); pn != "" {
			return "VerifyRaw panic: " + pn
		}
		if got != want {
			return fmt.Sprintf("VerifyRaw = %v, SEC 1 4.1.4 says %v", got, want)
		}
		// the private-key ("alternative", 4.1.5) path must agree with the public one
		if dHex != "" && secec.VerifVerifyPriv != nil {
			d, _ := new(big.Int).SetString(dHex, 16)
			err := secec.VerifVerifyPriv(lib.MkPriv(d), dgIn, lib.MkSC(r), lib.MkSC(s))
			if (err == nil) != want {
				return fmt.Sprintf("private-key verification path = %v, SEC 1 says %v", err == nil, want)
			}
		}
	}
	// encodings
	encs := map[int][][]byte{0: {ref.DERBuildSig(r, s)}}
	if r.BitLen() <= 256 && s.BitLen() <= 256 {
		c := append(ref.B32(r), ref.B32(s)...)
		encs[1] = [][]byte{c}
		for _, v := range vs {
			encs[2] = append(encs[2], append(append([]byte{}, c...), byte(v)))
		}
	}
	for _, o := range optSets {
		enc := 0
		if !o.Nil {
			enc = o.Encoding
		}
		sigs := encs[enc]
		if enc < 0 || enc > 2 {
			sigs = [][]byte{encs[0][0]}
			if len(encs[1]) > 0 {
				sigs = append(sigs, encs[1][0])
			}
		}
		// strictness of the SELECTED format: the same (r,s) in the other formats, and the own format with a byte
		// appended (0x00, a recovery id - which turns compact into the recoverable form) or dropped
		sigs = append([][]byte{}, sigs...)
		for e2 := 0; e2 <= 2; e2++ {
			if e2 != enc && len(encs[e2]) > 0 {
				sigs = append(sigs, encs[e2][0])
			}
		}
		if len(encs[enc]) > 0 {
			own := encs[enc][0]
			sigs = append(sigs, append(append([]byte{}, own...), 0x00), append(append([]byte{}, own...), 0x01), own[:len(own)-1])
		}
		for _, sig := range sigs {
			w := lib.RefVerifyEncoded(q, digest, sig, o)
			var got bool
			in := append([]byte{}, sig...)
			opv := o.Impl()
			if pn := lib.Try(func() { got = pk.Verify(dgIn, in, opv) }); pn != "" {
				return fmt.Sprintf("Verify(opts=%v) panic: %s", o, pn)
			}
			if !reflect.DeepEqual(opv, o.Impl()) {
				return fmt.Sprintf("Verify modified the caller's options: %+v, passed in as %+v", opv, o.Impl())
			}
			if got != w {
				return fmt.Sprintf("Verify(opts=%v, sig=%x) = %v, reference %v", o, sig, got, w)
			}
			if !bytes.Equal(in, sig) {
				return "signature buffer modified"
			}
		}
	}
	// the Bitcoin entry point: DER || sighash for several sighash bytes, and without one
	for _, sh := range [][]byte{{0x01}, {0x00}, {0x81}, {0xff}, {}} {
		sig := append(append([]byte{}, encs[0][0]...), sh...)
		w := lib.RefVerifyBitcoin(q, digest, sig)
		var got bool
		if pn := lib.Try(func() { got = bitcoin.VerifyASN1(pk, dgIn, sig) }); pn != "" {
			return "bitcoin.VerifyASN1 panic: " + pn
		}
		if got != w {
			return fmt.Sprintf("bitcoin.VerifyASN1(sig=%x) = %v, reference %v", sig, got, w)
		}
	}
	// degenerate inputs of the Bitcoin entry point: no bytes at all (nil and empty), a lone sighash byte, a lone 0x30
	for _, sig := range [][]byte{nil, {}, {0x01}, {0x30}, {0x30, 0x00}} {
		var got bool
		if pn := lib.Try(func() { got = bitcoin.VerifyASN1(pk, dgIn, sig) }); pn != "" {
			return fmt.Sprintf("bitcoin.VerifyASN1 panics on the %d-byte signature %x: %s", len(sig), sig, pn)
		}
		if got {
			return fmt.Sprintf("bitcoin.VerifyASN1 accepts the %d-byte signature %x", len(sig), sig)
		}
	}
	if !bytes.Equal(dgIn, digest) {
		return "digest buffer modified"
	}
	if !bytes.Equal(pk.Bytes(), q.Uncompressed()) {
		return "public key changed"
	}
	return ""
}

func register() {
	mc.Register("case", func(d mc.D) string {
		return runCase(lib.HexPt(d.S("q")), d.B("digest"), d.Big("r"), d.Big("s"), d.IL("vs"), d.S("d"))
	})
}

type vcase struct {
	q      ref.Pt
	d      *big.Int // private key if known
	digest []byte
	r, s   *big.Int
	cls    string
	allV   bool
}

func digestsFor(e *big.Int) [][]byte {
	b := ref.B32(e)
	return [][]byte{b}
}

func main() {
	R = mc.New("C07")
	register()
	mc.MaybeReplay()
	if err := ref.SelfTestVectors(); err != nil {
		R.Fail("selftest", "misc", map[string]any{"err": err.Error()}, nil)
	}
	R.Rule("states = distinct (Q, digest, r, s) tuples; a transition is one verification through one entry point / encoding / option set, run on the implementation and on the literal SEC 1 4.1.4 reference; non-trivial = tuples constructed to sit on a decision boundary (valid by construction, R = infinity, x(R) >= n, high-s, r/s at 0/n, e = 0, e >= n, deviations by one)")
	R.Assume("math/big; /verif/ref ECDSA + DER/compact/BIP-66 recognisers (validated on Wycheproof, RFC 6979, BIP-66 vectors)")
	R.Config("amd64 default build")
	th := R.Thorough()
	one := big.NewInt(1)
	nm1 := new(big.Int).Sub(ref.N, one)

	keys := []*big.Int{one, big.NewInt(2), nm1, ref.HalfN, ref.Lambda}
	nonces := []*big.Int{one, big.NewInt(3), nm1, ref.HalfN, new(big.Int).Lsh(one, 128)}
	if th {
		keys = append(keys, big.NewInt(7), ref.ZnNeg(ref.Lambda), new(big.Int).Add(ref.HalfN, one), big.NewInt(3), new(big.Int).Sub(ref.N, big.NewInt(2)), new(big.Int).Lsh(one, 255), new(big.Int).Lsh(one, 128))
		nonces = append(nonces, big.NewInt(2), ref.Lambda, new(big.Int).Sub(ref.N, big.NewInt(2)), big.NewInt(4), ref.ZnNeg(ref.Lambda), new(big.Int).Add(ref.HalfN, one))
	}
	sha := func(s string) []byte { return ref.TaggedHash("verif/C07", []byte(s)) }
	max32 := bytes.Repeat([]byte{0xff}, 32)
	baseDigests := [][]byte{
		sha("sample"), make([]byte, 32), max32, ref.B32(ref.N), ref.B32(nm1), ref.B32(new(big.Int).Add(ref.N, one)), ref.B32(one),
	}
	// length classes: every length 0..65 appears; tails beyond byte 32 must not matter
	var lenDigests [][]byte
	for L := 0; L <= 65; L++ {
		b := append(sha("len"), bytes.Repeat([]byte{0xa5}, 40)...)
		lenDigests = append(lenDigests, b[:L])
	}
	var cases []vcase
	add := func(c vcase) { cases = append(cases, c) }
	deviate := func(c vcase) {
		// deviations of a (usually valid) signature
		for _, dl := range []int64{-1, 1} {
			add(vcase{c.q, c.d, c.digest, new(big.Int).Add(c.r, big.NewInt(dl)), c.s, c.cls + " / r" + fmt.Sprintf("%+d", dl), false})
			add(vcase{c.q, c.d, c.digest, c.r, new(big.Int).Add(c.s, big.NewInt(dl)), c.cls + " / s" + fmt.Sprintf("%+d", dl), false})
		}
		add(vcase{c.q, c.d, c.digest, c.r, new(big.Int).Sub(ref.N, c.s), c.cls + " / n-s (valid, other half)", true})
		add(vcase{c.q, c.d, c.digest, new(big.Int).Sub(ref.N, c.r), c.s, c.cls + " / n-r", false})
		add(vcase{c.q, c.d, c.digest, big.NewInt(0), c.s, c.cls + " / r=0", false})
		add(vcase{c.q, c.d, c.digest, c.r, big.NewInt(0), c.cls + " / s=0", false})
		add(vcase{c.q, c.d, c.digest, c.s, c.r, c.cls + " / swapped", false})
		add(vcase{c.q, c.d, c.digest, new(big.Int).Add(c.r, ref.N), c.s, c.cls + " / r+n", false})
		add(vcase{c.q, c.d, c.digest, c.r, new(big.Int).Add(c.s, ref.N), c.cls + " / s+n", false})
		add(vcase{c.q, c.d, c.digest, ref.N, c.s, c.cls + " / r=n", false})
		add(vcase{c.q, c.d, c.digest, c.r, ref.N, c.cls + " / s=n", false})
		add(vcase{c.q.Neg(), nil, c.digest, c.r, c.s, c.cls + " / key -Q", false})
		add(vcase{c.q.Double(), nil, c.digest, c.r, c.s, c.cls + " / key 2Q", false})
		od := append([]byte{}, c.digest...)
		if len(od) >= 32 {
			od[31] ^= 1
			add(vcase{c.q, c.d, od, c.r, c.s, c.cls + " / digest bit flipped", false})
			od2 := append([]byte{}, c.digest...)
			od2 = append(od2, 0x77) // tail beyond the leftmost 32 bytes: same e
			add(vcase{c.q, c.d, od2, c.r, c.s, c.cls + " / digest extended (same e)", false})
			add(vcase{c.q, c.d, c.digest[:31], c.r, c.s, c.cls + " / digest truncated to 31", false})
		}
	}
	// (a) reference-signed
	for _, d := range keys {
		q := ref.BaseMul(d)
		for di, dg := range baseDigests {
			for ki, k := range nonces {
				r, s, _, ok := ref.ECDSASignWithNonce(d, dg, k)
				if !ok {
					continue
				}
				c := vcase{q, d, dg, r, s, "signed", true}
				add(c)
				if (di+ki)%3 == 0 || th {
					deviate(c)
				}
			}
		}
		// digest length classes
		for L, dg := range lenDigests {
			full := append(sha("len"), bytes.Repeat([]byte{0xa5}, 40)...)
			r, s, _, ok := ref.ECDSASignWithNonce(d, full[:max(L, 32)], big.NewInt(5))
			if ok && (d.Cmp(one) == 0 || L%8 == 0) {
				add(vcase{q, d, dg, r, s, fmt.Sprintf("digest length %d", L), false})
			}
		}
	}
	// (b) chosen R via key recovery: Q = r^-1 (sR - eG)
	pts := mc.PointAlphabet(map[bool]int{false: 2, true: 5}[th], R.Seed, map[bool]int{false: 2, true: 6}[th])
	svals := []*big.Int{one, ref.HalfN, new(big.Int).Add(ref.HalfN, one), nm1, big.NewInt(0x80)}
	for l := uint(1); l < 4; l++ { // the low-s boundary moved by one unit of every limb: a limb-wise comparison that skips a limb
		svals = append(svals, new(big.Int).Add(ref.HalfN, new(big.Int).Lsh(one, 64*l)), new(big.Int).Sub(ref.HalfN, new(big.Int).Lsh(one, 64*l)))
	}
	for pi, pv := range pts {
		rp := pv.P
		if rp.Inf {
			continue
		}
		r := ref.ModN(rp.X)
		if r.Sign() == 0 {
			continue
		}
		for si, s := range svals {
			for di, dg := range baseDigests {
				if !th && (pi+si+di)%3 != 0 && rp.X.Cmp(ref.N) < 0 {
					continue
				}
				e, _ := ref.DigestToE(dg)
				ri := new(big.Int).ModInverse(r, ref.N)
				q := rp.Mul(ref.ZnMul(s, ri)).Sub(ref.BaseMul(ref.ZnMul(ref.ModN(e), ri)))
				if q.Inf {
					continue
				}
				cls := "chosen R"
				if rp.X.Cmp(ref.N) >= 0 {
					cls = "chosen R with x(R) >= n"
				}
				c := vcase{q, nil, dg, r, s, cls, true}
				add(c)
				if rp.X.Cmp(ref.N) >= 0 {
					// comparing x(R) without reduction would reject this; r = x(R) itself is not a scalar
					add(vcase{q, nil, dg, rp.X, s, cls + " / r = x(R) unreduced", false})
					deviate(c)
				} else if (pi+si+di)%5 == 0 {
					deviate(c)
				}
			}
		}
	}
	// (b') chosen u2 = r/s on the GLV rounding / limb-carry boundaries of the verifier's variable-base multiply:
	// R = u1 G + u2 Q, r = x(R) mod n, s = r/u2, e = u1 s  (valid by construction, no private key needed)
	for gi, gv := range mc.GLVVerifierSubset(th) {
		u2 := gv.V
		if u2.Sign() == 0 {
			continue
		}
		q := ref.G().Mul(big.NewInt(0x51ed))
		u1 := big.NewInt(int64(3 + gi))
		rp := ref.BaseMul(u1).Add(q.Mul(u2))
		if rp.Inf {
			continue
		}
		r := ref.ModN(rp.X)
		if r.Sign() == 0 {
			continue
		}
		sv := ref.ZnMul(r, ref.ZnInv(u2))
		e := ref.ZnMul(u1, sv)
		add(vcase{q, nil, ref.B32(e), r, sv, "chosen u2 on a GLV rounding boundary", false})
	}
	// (b-near) everything is consistent except the final comparison by ONE LIMB: R is chosen, r' is a limb near miss of
	// x(R) mod n (mc.LimbNearMisses: one stored or canonical limb off, or two limbs whose differences cancel under ADD
	// or XOR), and Q = r'^-1 (s R - e G). The verifier recomputes exactly R and must find x(R) mod n != r'.
	{
		nn := 0
		for pi, pv := range pts {
			if pv.P.Inf || pi%2 == 1 && !th {
				continue
			}
			rp := pv.P
			xr := ref.ModN(rp.X)
			dg := baseDigests[pi%len(baseDigests)]
			e, _ := ref.DigestToE(dg)
			s := svals[pi%2]
			for _, nm := range mc.LimbNearMisses(xr, ref.N) {
				r2 := nm.V
				if r2.Sign() == 0 {
					continue
				}
				ri := new(big.Int).ModInverse(r2, ref.N)
				q := rp.Mul(ref.ZnMul(s, ri)).Sub(ref.BaseMul(ref.ZnMul(ref.ModN(e), ri)))
				if q.Inf {
					continue
				}
				add(vcase{q, nil, dg, r2, s, "r is a limb near miss of x(R) mod n", false})
				nn++
			}
			if nn > 400 && !th {
				break
			}
		}
		R.Bound("near_miss_r_cases", nn)
	}
	// (b'') wrapped second candidate: x' = r + n - p (what a field addition of r and n gives when r + n >= p).
	// If x' is an x-coordinate, the key Q' = r^-1 (s R' - e G) built from R' = lift(x') "verifies" only for an
	// implementation that forgets that x' is not congruent to r mod n. Must be rejected for ids 2 and 3.
	{
		nw := 0
		for _, d := range keys[:3] {
			for di, dg := range baseDigests[:4] {
				r, s, _, ok := ref.ECDSASignWithNonce(d, dg, nonces[(di+1)%len(nonces)])
				if !ok {
					continue
				}
				xw := new(big.Int).Sub(new(big.Int).Add(r, ref.N), ref.P)
				if xw.Sign() < 0 {
					continue
				}
				for odd := uint(0); odd < 2; odd++ {
					rw, okw := ref.LiftX(xw, odd)
					if !okw {
						continue
					}
					e, _ := ref.DigestToE(dg)
					ri := new(big.Int).ModInverse(r, ref.N)
					qw := rw.Mul(ref.ZnMul(s, ri)).Sub(ref.BaseMul(ref.ZnMul(ref.ModN(e), ri)))
					if qw.Inf {
						continue
					}
					nw++
					add(vcase{qw, nil, dg, r, s, "key built from the wrapped point x' = r+n-p", true})
				}
			}
		}
		R.Bound("wrapped_second_candidate_cases", nw)
	}
	// (c) R = infinity: e = -r d  (u1 G + u2 Q = (e + r d)/s G = inf)
	for _, d := range keys {
		q := ref.BaseMul(d)
		for _, r := range []*big.Int{one, ref.HalfN, nm1, ref.ModN(ref.Gx)} {
			e := ref.ZnNeg(ref.ZnMul(r, d))
			for _, s := range svals[:3] {
				add(vcase{q, d, ref.B32(e), r, s, "R = infinity", false})
			}
		}
	}
	R.Bound("cases", len(cases))
	R.Bound("option_sets", len(optSets))
	R.Bound("entry_points", "VerifyRaw, verify(private key) hook, Verify x 15 option sets x 3 encodings (recoverable: all v 0..255 on valid cases, 0..4 otherwise), bitcoin.VerifyASN1 x 5 sighash shapes")
	allV := make([]int, 256)
	for i := range allV {
		allV[i] = i
	}
	mc.Par(len(cases), func(i int) {
		c := cases[i]
		vs := []int{0, 1, 2, 3, 4}
		if c.allV && (i%4 == 0 || th) {
			vs = allV
		}
		dHex := ""
		if c.d != nil {
			dHex = c.d.Text(16)
		}
		valid := ref.ECDSAVerify(c.q, c.digest, c.r, c.s)
		cls := c.cls
		if valid {
			cls += " => valid"
		} else {
			cls += " => invalid"
		}
		R.Class(cls, 1)
		nvar := int64(1 + 1 + 5)
		for _, o := range optSets {
			if !o.Nil && o.Encoding == 2 {
				nvar += int64(len(vs))
			} else {
				nvar++
			}
		}
		R.T(nvar)
		h := mc.H(c.q.Uncompressed(), c.digest, c.r.Bytes(), c.s.Bytes())
		R.State(h)
		R.NT(h)
		if m := mc.Safe(func() string { return runCase(c.q, c.digest, c.r, c.s, vs, dHex) }); m != "" {
			R.Mismatch("verify/"+c.cls, "case", m, mc.D{"q": lib.PtHex(c.q), "digest": mc.Hex(c.digest), "r": c.r.Text(16), "s": c.s.Text(16), "vs": vs, "d": dHex, "class": cls})
		}
		if R.WantSample(c.cls) {
			R.Sample(c.cls, map[string]any{"q": lib.PtHex(c.q), "digest": mc.Hex(c.digest), "r": c.r.Text(16), "s": c.s.Text(16), "reference_valid": valid})
		}
	})
	R.Expect("chosen u2 on a GLV rounding boundary => valid", "signed => valid", "chosen R => valid", "chosen R with x(R) >= n => valid", "R = infinity => invalid", "signed / n-s (valid, other half) => valid",
		"signed / r=0 => invalid", "signed / s=n => invalid", "digest length 31 => invalid", "digest length 33 => valid", "signed / digest extended (same e) => valid")
	R.Finish()
}
