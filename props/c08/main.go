// C08 — ECDSA signing always yields a valid, low-s, correctly recoverable
// signature; self-verification never changes the output; inadmissible
// digest lengths / encodings are errors.
//
// All (key, digest, reader script, options) over small alphabets; every
// output is judged by the reference verifier, the parsers and recovery over
// all ids 0..255.
package main

import (
	"bytes"
	"crypto"
	_ "crypto/sha256"
	_ "crypto/sha512"
	"fmt"
	"io"
	"math/big"
	"reflect"
	"sync/atomic"

	secp256k1 "gitlab.com/yawning/secp256k1-voi"
	"gitlab.com/yawning/secp256k1-voi/secec"
	"gitlab.com/yawning/secp256k1-voi/secec/bitcoin"

	"verif/lib"
	"verif/mc"
	"verif/ref"
)

var R *mc.Report

type sopt struct {
	name  string
	mk    func() crypto.SignerOpts
	enc   int // resulting encoding (0 asn1, 1 compact, 2 recoverable, 3+ invalid)
	hsize int // required digest size; 0 = any length >= 32 (nil options)
}

var sopts = []sopt{
	{"nil", func() crypto.SignerOpts { return nil }, 0, 0},
	{"crypto.SHA256", func() crypto.SignerOpts { return crypto.SHA256 }, 0, 32},
	{"crypto.SHA512", func() crypto.SignerOpts { return crypto.SHA512 }, 0, 64},
	{"crypto.SHA384", func() crypto.SignerOpts { return crypto.SHA384 }, 0, 48},
	{"&{}", func() crypto.SignerOpts { return &secec.ECDSAOptions{} }, 0, 32},
	{"&{SelfVerify}", func() crypto.SignerOpts { return &secec.ECDSAOptions{SelfVerify: true} }, 0, 32},
	{"&{compact}", func() crypto.SignerOpts { return &secec.ECDSAOptions{Encoding: secec.EncodingCompact} }, 1, 32},
	{"&{compact,SelfVerify}", func() crypto.SignerOpts {
		return &secec.ECDSAOptions{Encoding: secec.EncodingCompact, SelfVerify: true}
	}, 1, 32},
	{"&{recoverable}", func() crypto.SignerOpts { return &secec.ECDSAOptions{Encoding: secec.EncodingCompactRecoverable} }, 2, 32},
	{"&{recoverable,SelfVerify}", func() crypto.SignerOpts {
		return &secec.ECDSAOptions{Encoding: secec.EncodingCompactRecoverable, SelfVerify: true}
	}, 2, 32},
	{"&{SHA512,asn1}", func() crypto.SignerOpts { return &secec.ECDSAOptions{Hash: crypto.SHA512} }, 0, 64},
	{"&{SHA512,recoverable,SelfVerify}", func() crypto.SignerOpts {
		return &secec.ECDSAOptions{Hash: crypto.SHA512, Encoding: secec.EncodingCompactRecoverable, SelfVerify: true}
	}, 2, 64},
	{"&{encoding=3}", func() crypto.SignerOpts { return &secec.ECDSAOptions{Encoding: 3} }, 3, 32},
	{"&{encoding=-1,SelfVerify}", func() crypto.SignerOpts { return &secec.ECDSAOptions{Encoding: -1, SelfVerify: true} }, 3, 32},
	{"&{RejectMalleable}", func() crypto.SignerOpts { return &secec.ECDSAOptions{RejectMalleable: true} }, 0, 32},
}

func mkReader(sc mc.Script) io.Reader {
	if sc.Src == "rfc6979" {
		return secec.RFC6979SHA256()
	}
	return sc.New()
}

// checkSig judges one (r,s,v) produced for (d, digest).
func checkSig(d *big.Int, digest []byte, r, s *big.Int, v byte) string {
	q := ref.BaseMul(d)
	if r.Sign() <= 0 || r.Cmp(ref.N) >= 0 {
		return "r not in [1,n)"
	}
	if s.Sign() <= 0 || s.Cmp(ref.HalfN) > 0 {
		return fmt.Sprintf("s = %x not in [1,(n-1)/2]", s)
	}
	if !ref.ECDSAVerify(q, digest, r, s) {
		return "signature does not verify under the reference (SEC 1 4.1.4) with the signer's key d*G"
	}
	if v > 3 {
		return fmt.Sprintf("recovery id %d not in [0,3]", v)
	}
	pk := lib.MkPub(q)
	rs, ss := lib.MkSC(r), lib.MkSC(s)
	if !pk.VerifyRaw(digest, rs, ss) {
		return "VerifyRaw rejects the signature"
	}
	// exactly the emitted id recovers the signer, over all ids 0..255
	for id := 0; id < 256; id++ {
		k, err := secec.RecoverPublicKey(digest, rs, ss, byte(id))
		is := err == nil && bytes.Equal(k.Bytes(), q.Uncompressed())
		if id == int(v) && !is {
			return fmt.Sprintf("emitted recovery id %d does not recover the signer", v)
		}
		if id != int(v) && is {
			return fmt.Sprintf("recovery id %d (not the emitted %d) also recovers the signer", id, v)
		}
	}
	// reference recovery agrees
	if rq, err := ref.ECDSARecover(digest, r, s, int(v)); err != nil || !rq.Equal(q) {
		return "reference recovery with the emitted id does not give the signer"
	}
	// verifies in every encoding
	encs := [][]byte{secec.BuildASN1Signature(rs, ss), secec.BuildCompactSignature(rs, ss), secec.BuildCompactRecoverableSignature(rs, ss, v)}
	for e, sig := range encs {
		o := &secec.ECDSAOptions{Encoding: secec.SignatureEncoding(e), RejectMalleable: true}
		switch len(digest) {
		case 32:
		case 64:
			o.Hash = crypto.SHA512
		case 48:
			o.Hash = crypto.SHA384
		default:
			if e == 0 {
				if !pk.Verify(digest, sig, nil) {
					return "Verify(nil options) rejects the signature"
				}
			}
			continue
		}
		if !pk.Verify(digest, sig, o) {
			return fmt.Sprintf("Verify rejects the signature in encoding %d", e)
		}
	}
	return ""
}

// runSign: one (d, digest, reader, option) case.
func runSign(d *big.Int, digest []byte, sc mc.Script, oi int) string {
	o := sopts[oi]
	// the key is built from a caller-owned scalar which the caller then reuses (derives a "child" in place),
	// and a Schnorr key is derived from it: neither may change what the key signs with
	own := lib.MkSC(d)
	sk, kerr := secec.NewPrivateKeyFromScalar(own)
	if kerr != nil {
		return "NewPrivateKeyFromScalar failed: " + kerr.Error()
	}
	own.Add(own, lib.MkSC(big.NewInt(1)))
	_ = bitcoin.NewSchnorrPrivateKeyFromECDSA(sk)
	dg := append([]byte{}, digest...)
	admissible := len(digest) >= 32 && (o.hsize == 0 || len(digest) == o.hsize)
	encOK := o.enc <= 2
	var sig []byte
	var err error
	rd := mkReader(sc)
	opv := o.mk()
	if pn := lib.Try(func() { sig, err = sk.Sign(rd, dg, opv) }); pn != "" {
		return "Sign panic: " + pn
	}
	if !reflect.DeepEqual(opv, o.mk()) {
		return fmt.Sprintf("Sign modified the caller's options: %+v, passed in as %+v", opv, o.mk())
	}
	if !bytes.Equal(dg, digest) {
		return "digest modified"
	}
	if !admissible || !encOK {
		if err == nil || sig != nil {
			return fmt.Sprintf("inadmissible input (digest length %d for %s, encoding ok=%v) was signed: %x", len(digest), o.name, encOK, sig)
		}
		return ""
	}
	if err != nil {
		return "Sign failed on admissible input with a healthy reader: " + err.Error()
	}
	// bytes parse back to (r,s,v)
	var r, s *big.Int
	var v byte
	hasV := false
	var ok bool
	switch o.enc {
	case 0:
		r, s, ok = ref.DERParseSig(sig)
		ir, is, e2 := secec.ParseASN1Signature(sig)
		if !ok || e2 != nil || !bytes.Equal(ir.Bytes(), ref.B32(r)) || !bytes.Equal(is.Bytes(), ref.B32(s)) {
			return fmt.Sprintf("ASN.1 output %x does not parse back (reference ok=%v, library err=%v)", sig, ok, e2)
		}
		if !bytes.Equal(sig, ref.DERBuildSig(r, s)) {
			return "ASN.1 output is not canonical DER"
		}
	case 1:
		r, s, ok = ref.CompactParse(sig)
		_, _, e2 := secec.ParseCompactSignature(sig)
		if !ok || e2 != nil {
			return fmt.Sprintf("compact output %x does not parse back", sig)
		}
	case 2:
		r, s, v, ok = ref.CompactRecoverableParse(sig)
		_, _, iv, e2 := secec.ParseCompactRecoverableSignature(sig)
		if !ok || e2 != nil || iv != v {
			return fmt.Sprintf("recoverable output %x does not parse back", sig)
		}
		hasV = true
	}
	// SignRaw with an identical reader must give the same (r,s) and a valid v
	rr, sr, vr, e3 := sk.SignRaw(mkReader(sc), dg)
	if e3 != nil {
		return "SignRaw failed: " + e3.Error()
	}
	if !bytes.Equal(rr.Bytes(), ref.B32(r)) || !bytes.Equal(sr.Bytes(), ref.B32(s)) {
		return "Sign and SignRaw disagree for the same reader script (output depends on something besides key, digest, entropy)"
	}
	if hasV && vr != v {
		return "Sign and SignRaw emit different recovery ids"
	}
	if m := checkSig(d, digest, r, s, vr); m != "" {
		return m
	}
	// "verifies under the signer's public key": the key OBJECT the signer hands out (both accessors), with the
	// history this key object has by now (scalar reused by the caller, Schnorr key derived from it, signatures made)
	for ai, pub := range []*secec.PublicKey{sk.PublicKey(), func() *secec.PublicKey { p, _ := sk.Public().(*secec.PublicKey); return p }()} {
		if pub == nil {
			return "Public() does not return a *PublicKey"
		}
		if !pub.VerifyRaw(digest, rr, sr) {
			return fmt.Sprintf("the signature does not verify under the public key object the signer hands out (accessor %d), although it verifies under a key freshly built from d*G", ai)
		}
		if !bytes.Equal(pub.Bytes(), ref.BaseMul(d).Uncompressed()) {
			return fmt.Sprintf("the signer's public key object (accessor %d) encodes another point than d*G", ai)
		}
		if m := lib.CheckPointLight(pub.Point(), ref.BaseMul(d)); m != "" {
			return fmt.Sprintf("the signer's public key object (accessor %d) holds another point than d*G: %s", ai, m)
		}
	}
	// self-verification never changes the output: compare with the twin option set
	if eo, ok := o.mk().(*secec.ECDSAOptions); ok {
		tw := *eo
		tw.SelfVerify = !tw.SelfVerify
		sig2, e4 := sk.Sign(mkReader(sc), dg, &tw)
		if e4 != nil || !bytes.Equal(sig2, sig) {
			return fmt.Sprintf("toggling SelfVerify changed the output (err=%v)", e4)
		}
	}
	// history on the one key object: the caller reuses its digest buffer for a second message (h.Sum(buf[:0])),
	// signs again, then signs the first message once more - every output is a function of (key, digest, entropy) only
	for i := range dg {
		dg[i] ^= 0xa5
	}
	d2 := append([]byte{}, dg...)
	r2, s2, v2, e5 := sk.SignRaw(mkReader(sc), dg)
	if e5 != nil {
		return "second SignRaw on the same key (digest buffer reused for another message) failed: " + e5.Error()
	}
	if !ref.ECDSAVerify(ref.BaseMul(d), d2, lib.SCVal(r2), lib.SCVal(s2)) || lib.SCVal(s2).Cmp(ref.HalfN) > 0 {
		return "second signature on the same key object, made after the caller reused its digest buffer for another message, is not a valid low-s signature of that message"
	}
	if rq, err := ref.ECDSARecover(d2, lib.SCVal(r2), lib.SCVal(s2), int(v2)); err != nil || !rq.Equal(ref.BaseMul(d)) {
		return "second signature on the same key object: emitted recovery id does not recover the signer"
	}
	copy(dg, digest)
	r3, s3, v3, e6 := sk.SignRaw(mkReader(sc), dg)
	if e6 != nil || r3.Equal(rr) != 1 || s3.Equal(sr) != 1 || v3 != vr {
		return fmt.Sprintf("signing the first message again on the same key object with the same entropy gives a different result (err=%v): the output depends on the key object's history", e6)
	}
	if !bytes.Equal(sk.Bytes(), ref.B32(d)) {
		return "private key changed"
	}
	return ""
}

func scriptD(sc mc.Script) mc.D {
	return mc.D{"src": sc.Src, "mode": sc.Mode, "fail_after": sc.FailAfter, "fail_with": sc.FailWith}
}

func dScript(d mc.D) mc.Script {
	return mc.Script{Src: d.S("src"), Mode: d.S("mode"), FailAfter: d.I("fail_after"), FailWith: d.Bool("fail_with")}
}

func register() {
	mc.Register("sign", func(d mc.D) string { return runSign(d.Big("d"), d.B("digest"), dScript(d), d.I("opt")) })
	mc.Register("keygen", func(d mc.D) string { return runKey(d.Big("d")) })
}

// runKey: signing key derivation sanity used by the classes (public y parity).
func runKey(d *big.Int) string {
	sk := lib.MkPriv(d)
	if !bytes.Equal(sk.PublicKey().Bytes(), ref.BaseMul(d).Uncompressed()) {
		return "public key != d*G"
	}
	_ = secp256k1.ScalarSize
	return ""
}

func main() {
	R = mc.New("C08")
	register()
	mc.MaybeReplay()
	R.Rule("states = distinct (key, digest, reader script, option set) tuples; a transition is one Sign (+ twin SignRaw / SelfVerify-toggled Sign) whose output is judged by the SEC 1 reference verifier, the parsers, and recovery over all ids 0..255; non-trivial = tuples whose signature needed s negation or has odd y(R), and inadmissible tuples")
	R.Assume("math/big; /verif/ref ECDSA verify/recover and DER/compact recognisers")
	R.Config("amd64 default build")
	th := R.Thorough()
	one := big.NewInt(1)
	nm1 := new(big.Int).Sub(ref.N, one)
	keys := []*big.Int{one, big.NewInt(2), big.NewInt(3), big.NewInt(6), nm1, new(big.Int).Sub(ref.N, big.NewInt(2)), ref.HalfN, new(big.Int).Add(ref.HalfN, one), ref.Lambda, ref.ZnNeg(ref.Lambda),
		new(big.Int).Lsh(one, 128), new(big.Int).Lsh(one, 255)}
	if th {
		for i := int64(7); i < 40; i++ {
			keys = append(keys, big.NewInt(i))
		}
	}
	sha := func(s string) []byte { return ref.TaggedHash("verif/C08", []byte(s)) }
	d64 := append(sha("x"), sha("y")...)
	digests := [][]byte{sha("sample"), make([]byte, 32), bytes.Repeat([]byte{0xff}, 32), ref.B32(ref.N), ref.B32(new(big.Int).Add(ref.N, one)), ref.B32(one),
		d64, append(bytes.Repeat([]byte{0xff}, 32), sha("tail")...), d64[:48], d64[:33], d64[:31], {}, d64[:40]}
	scripts := []mc.Script{
		{Src: "zero", Mode: "full", FailAfter: -1}, {Src: "ff", Mode: "full", FailAfter: -1}, {Src: "counter", Mode: "full", FailAfter: -1},
		{Src: "counter", Mode: "1", FailAfter: -1}, {Src: "rfc6979", Mode: "full", FailAfter: -1}, {Src: "seeded:7", Mode: "split:13", FailAfter: -1},
		{Src: "counter", Mode: "eof:32", FailAfter: -1},
	}
	if !th {
		scripts = scripts[:6]
	}
	R.Bound("keys", len(keys))
	R.Bound("digests", len(digests))
	R.Bound("reader_scripts", len(scripts))
	R.Bound("option_sets", len(sopts))
	R.Bound("recovery_ids_checked_per_signature", "all 0..255")
	type job struct {
		d  *big.Int
		dg []byte
		sc mc.Script
		oi int
	}
	var jobs []job
	for ki, d := range keys {
		for di, dg := range digests {
			for si, sc := range scripts {
				for oi := range sopts {
					if !th && (ki+di+si+oi)%3 != 0 && !(ki < 2 && si == 0) {
						continue
					}
					jobs = append(jobs, job{d, dg, sc, oi})
				}
			}
		}
	}
	for _, d := range keys {
		R.Run("keygen", "keygen", mc.D{"d": mc.HexBig(d)})
		if ref.BaseMul(d).Y.Bit(0) == 1 {
			R.Class("key/public y odd", 1)
		} else {
			R.Class("key/public y even", 1)
		}
	}
	mc.Par(len(jobs), func(i int) {
		j := jobs[i]
		R.T(3)
		h := mc.H(j.d.Bytes(), j.dg, []byte(j.sc.String()), []byte{byte(j.oi)})
		R.State(h)
		o := sopts[j.oi]
		adm := len(j.dg) >= 32 && (o.hsize == 0 || len(j.dg) == o.hsize) && o.enc <= 2
		if !adm {
			R.Class("inadmissible (must be an error)", 1)
			R.NT(h)
		} else {
			// classify by what the signature needed (using SignRaw's output)
			if r, s, v, err := lib.MkPriv(j.d).SignRaw(mkReader(j.sc), j.dg); err == nil {
				_ = r
				// was s negated? parity of y(R) = v ^ negated ; find via reference: recompute R from (r, v^?) is circular; classify by v only
				R.Class(fmt.Sprintf("signed/recovery id %d", v), 1)
				if ref.OS2IP(s.Bytes()).Cmp(ref.HalfN) == 0 {
					R.Class("signed/s == (n-1)/2", 1)
				}
				R.NT(h)
			}
			if j.sc.Src == "rfc6979" {
				k, _ := ref.RFC6979Nonce(j.d, j.dg)
				_, sraw, rp, _ := ref.ECDSASignWithNonce(j.d, j.dg, k)
				R.Class(fmt.Sprintf("rfc6979/y(R) odd=%d, s negated=%v", rp.Y.Bit(0), sraw.Cmp(ref.HalfN) > 0), 1)
			}
		}
		if m := mc.Safe(func() string { return runSign(j.d, j.dg, j.sc, j.oi) }); m != "" {
			dd := scriptD(j.sc)
			dd["d"], dd["digest"], dd["opt"], dd["opt_name"] = mc.HexBig(j.d), mc.Hex(j.dg), j.oi, o.name
			R.Mismatch(fmt.Sprintf("sign/%s/digestlen=%d/admissible=%v", o.name, len(j.dg), adm), "sign", m, dd)
		}
		if R.WantSample(o.name) {
			R.Sample(o.name, map[string]any{"d": mc.HexBig(j.d), "digest": mc.Hex(j.dg), "reader": j.sc.String(), "options": o.name, "admissible": adm})
		}
	})
	// Signatures whose r or s has a short big-endian encoding (>= 2 leading zero bytes): their DER form
	// exercises the integer-length logic of the ASN.1 writer. They cannot be forced, only found: a
	// deterministic search over RFC 6979 signatures of digest_i = H(i) picks the digests (the
	// implementation is used to SELECT inputs only; every selected case is then judged as above).
	limit := 400000
	if th {
		limit = 3000000
	}
	type hit struct {
		d  *big.Int
		dg []byte
	}
	hits := make([][]hit, 64)
	var nr, ns, nz atomic.Int64
	mc.Par(64, func(w int) {
		d := keys[w%3]
		sk := lib.MkPriv(d)
		for i := w; i < limit; i += 64 {
			if nr.Load() >= 3 && ns.Load() >= 3 && nz.Load() >= 4 {
				return
			}
			dg := sha(fmt.Sprintf("short-%d", i))
			r, sv, _, err := sk.SignRaw(secec.RFC6979SHA256(), dg)
			if err != nil {
				continue
			}
			rb, sb := r.Bytes(), sv.Bytes()
			// ... and signatures whose verification / recovery multiplies by a scalar (u2 = r/s, resp. s/r) whose two
			// endomorphism halves (reference split) share a zero trailing byte: a 2^-16 event that a windowed multiply
			// with special handling of all-zero positions gets wrong; found, not forced
			if nz.Load() < 4 {
				rv, svv := ref.OS2IP(rb), ref.OS2IP(sb)
				for _, u := range []*big.Int{ref.ZnMul(rv, ref.ZnInv(svv)), ref.ZnMul(svv, ref.ZnInv(rv))} {
					k1, k2 := mc.GLVRefSplit(u)
					if k1.Sign() != 0 && k2.Sign() != 0 && new(big.Int).And(new(big.Int).Abs(k1), big.NewInt(255)).Sign() == 0 && new(big.Int).And(new(big.Int).Abs(k2), big.NewInt(255)).Sign() == 0 {
						nz.Add(1)
						hits[w] = append(hits[w], hit{d, dg})
						break
					}
				}
			}
			if rb[0] == 0 && rb[1] == 0 {
				nr.Add(1)
				hits[w] = append(hits[w], hit{d, dg})
			} else if sb[0] == 0 && sb[1] == 0 {
				ns.Add(1)
				hits[w] = append(hits[w], hit{d, dg})
			}
		}
	})
	nh := 0
	for _, hs := range hits {
		for _, h := range hs {
			for _, oi := range []int{0, 4, 5, 6, 8} {
				nh++
				sc := mc.Script{Src: "rfc6979", Mode: "full", FailAfter: -1}
				dd := scriptD(sc)
				dd["d"], dd["digest"], dd["opt"], dd["opt_name"] = mc.HexBig(h.d), mc.Hex(h.dg), oi, sopts[oi].name
				R.Run("sign/short r or s/"+sopts[oi].name, "sign", dd)
			}
		}
	}
	R.Class("signed/r with >= 2 leading zero bytes", nr.Load())
	R.Class("signed/s with >= 2 leading zero bytes", ns.Load())
	R.Class("signed/verifier or recovery scalar whose endomorphism halves share a zero trailing byte", nz.Load())
	R.Bound("short_integer_search_limit", limit)
	if nr.Load() == 0 && ns.Load() == 0 {
		R.Cap(fmt.Sprintf("no signature with a short r or s among the first %d RFC 6979 signatures searched", limit))
	}
	R.Note("the x(R) >= n bit of the emitted id is unreachable on the signing side (needs a discrete log); its consumer side is covered by C11/C06")
	R.Expect("rfc6979/y(R) odd=0, s negated=false", "rfc6979/y(R) odd=0, s negated=true", "rfc6979/y(R) odd=1, s negated=false", "rfc6979/y(R) odd=1, s negated=true",
		"inadmissible (must be an error)", "signed/recovery id 0", "signed/recovery id 1", "key/public y odd", "key/public y even")
	R.Finish()
}
