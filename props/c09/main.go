// C09 — signing nonces are never reused, biased or RNG-trusting; RFC 6979 mode is exact.
//
// Three small state machines explored exhaustively within their bounds:
// (a) the rejection sampler over ALL candidate streams up to the retry limit,
// (b) the RFC 6979 generator for read counts 1..8, (c) the hedged nonce through
// the public API under every reader delivery mode and every fault position.
package main

import (
	"bytes"
	crand "crypto/rand"
	"errors"
	"fmt"
	"io"
	"math/big"
	"os"
	"sort"
	"sync"

	"gitlab.com/yawning/secp256k1-voi/secec"

	"verif/lib"
	"verif/mc"
	"verif/ref"
)

var R *mc.Report

// ---------------------------------------------------------------- (a) sampler

var (
	rejectVals []*big.Int
	acceptVals []*big.Int
)

func initVals() {
	one := big.NewInt(1)
	rejectVals = []*big.Int{big.NewInt(0), ref.N, new(big.Int).Add(ref.N, one), new(big.Int).Sub(ref.R256, one)}
	acceptVals = []*big.Int{one, big.NewInt(2), new(big.Int).Sub(ref.N, one)}
	if os.Getenv("VERIF_TIER") == "thorough" { // 5 rejecting x 4 accepting values: 488 k + 391 k streams
		rejectVals = append(rejectVals, new(big.Int).Add(ref.N, new(big.Int).Lsh(one, 127)))
		acceptVals = append(acceptVals, ref.HalfN)
	}
}

type countingReader struct {
	data []byte
	pos  int
	sc   *mc.Reader // optional delivery script wrapped around data
}

func (c *countingReader) Read(p []byte) (int, error) {
	if c.pos >= len(c.data) {
		return 0, io.EOF
	}
	n := copy(p, c.data[c.pos:])
	c.pos += n
	return n, nil
}

// runSampler feeds the candidate stream (32 bytes each) to sampleRandomScalar.
// expected: the first candidate in [1,n) among the first maxResamples, exactly
// (not reduced); otherwise an error. Bytes consumed = 32 x candidates examined.
func runSampler(cands []*big.Int) string {
	h := secec.VerifSampleRandomScalar
	if h == nil {
		return ""
	}
	max := 8
	if secec.VerifMaxResamples != nil {
		max = secec.VerifMaxResamples()
	}
	var data []byte
	for _, c := range cands {
		data = append(data, ref.B32(c)...)
	}
	// pad so that reading beyond the script is visible (and distinguishable)
	data = append(data, bytes.Repeat([]byte{0x11}, 32*4)...)
	rd := &countingReader{data: data}
	var want *big.Int
	examined := 0
	for i, c := range cands {
		if i >= max {
			break
		}
		examined++
		if c.Sign() > 0 && c.Cmp(ref.N) < 0 {
			want = c
			break
		}
	}
	if want == nil && len(cands) < max {
		return "" // stream too short to decide (padding would be examined)
	}
	s, err := h(rd)
	if want == nil {
		if err == nil {
			return fmt.Sprintf("all %d candidates out of range, yet a scalar (%x) was returned", max, s.Bytes())
		}
		if s != nil {
			return "error with non-nil scalar"
		}
		if rd.pos != 32*max {
			return fmt.Sprintf("consumed %d bytes, expected %d (retry limit %d)", rd.pos, 32*max, max)
		}
		return ""
	}
	if err != nil {
		return "sampler failed although candidate #" + fmt.Sprint(examined) + " is in range: " + err.Error()
	}
	if !bytes.Equal(s.Bytes(), ref.B32(want)) {
		return fmt.Sprintf("sampler returned %x, expected exactly the first in-range candidate %x (out-of-range candidates must be discarded, not reduced)", s.Bytes(), want)
	}
	if rd.pos != 32*examined {
		return fmt.Sprintf("consumed %d bytes, expected %d", rd.pos, 32*examined)
	}
	return ""
}

// runSamplerReader: a 3-candidate stream [reject, reject, accept] under a delivery script / fault.
func runSamplerReader(sc mc.Script) string {
	h := secec.VerifSampleRandomScalar
	if h == nil {
		return ""
	}
	var data []byte
	for _, c := range []*big.Int{ref.N, big.NewInt(0), big.NewInt(2)} {
		data = append(data, ref.B32(c)...)
	}
	sc.Src = "hex:" + mc.Hex(data)
	rd := sc.New()
	s, err := h(rd)
	avail := 1 << 30
	if sc.FailAfter >= 0 {
		avail = sc.FailAfter
	}
	var eofAt int
	if _, e := fmt.Sscanf(sc.Mode, "eof:%d", &eofAt); e == nil && eofAt < avail {
		avail = eofAt // a finite stream: only that many bytes exist
	}
	if avail >= 96 {
		if err != nil || !bytes.Equal(s.Bytes(), ref.B32(big.NewInt(2))) {
			return fmt.Sprintf("96 bytes available under delivery %q but sampler did not return candidate #3 (err=%v)", sc.Mode, err)
		}
		if rd.Consumed != 96 {
			return fmt.Sprintf("consumed %d bytes, expected 96", rd.Consumed)
		}
		return ""
	}
	if err == nil || s != nil {
		return fmt.Sprintf("reader failed after %d bytes, yet sampler returned a scalar", avail)
	}
	return ""
}

// ---------------------------------------------------------------- (b) RFC 6979

func runDRBG(x, e *big.Int, reads int) string {
	h := secec.VerifNewDrbgRFC6979
	if h == nil {
		return ""
	}
	want := ref.RFC6979Candidates(x, ref.B32(e), reads)
	// three consumer behaviours: a fresh buffer per read (all retained and compared at the end), one buffer
	// reused untouched, one buffer wiped by the consumer between reads (as a sampler scrubbing rejects would)
	for _, style := range []string{"fresh buffers, retained", "one buffer reused", "one buffer wiped between reads", "refused reads (wrong length) between the reads"} {
		rd := h(lib.MkSC(x), lib.MkSC(e))
		var kept [][]byte
		shared := make([]byte, 32)
		for i := 0; i < reads; i++ {
			if style == "refused reads (wrong length) between the reads" {
				// a read the generator refuses (it serves exactly one 32-byte candidate per read) delivers no
				// candidate, so it must not consume one either: the candidates DELIVERED stay the RFC 6979 sequence
				for _, l := range [][]int{{5}, {0, 33}, {31, 64, 1}}[i%3] {
					func() {
						defer func() { recover() }()
						n, err := rd.Read(make([]byte, l))
						if err == nil && n == l && l != 0 {
							kept = nil // the generator served an odd-length read: nothing is specified about it; stop judging this style
							shared = nil
						}
					}()
				}
				if shared == nil {
					break
				}
			}
			b := shared
			if style == "fresh buffers, retained" {
				b = make([]byte, 32)
			}
			n, err := rd.Read(b)
			if n != 32 || err != nil {
				return fmt.Sprintf("read %d: n=%d err=%v", i+1, n, err)
			}
			if !bytes.Equal(b, want[i]) {
				return fmt.Sprintf("candidate %d = %x, RFC 6979 gives %x (consumer: %s)", i+1, b, want[i], style)
			}
			kept = append(kept, b)
			if style == "one buffer wiped between reads" {
				for j := range b {
					b[j] = 0xa5
				}
			}
		}
		if style == "fresh buffers, retained" {
			for i := range kept {
				if !bytes.Equal(kept[i], want[i]) {
					return fmt.Sprintf("candidate %d handed out earlier was overwritten by a later read (generator output aliases its internal state)", i+1)
				}
			}
		}
	}
	return ""
}

func runRFC6979Sign(d *big.Int, digest []byte) string {
	sk := lib.MkPriv(d)
	r, s, v, err := sk.SignRaw(secec.RFC6979SHA256(), digest)
	if err != nil {
		return "SignRaw failed: " + err.Error()
	}
	wr, ws, wv := ref.ECDSASignRFC6979(d, digest)
	if !bytes.Equal(r.Bytes(), ref.B32(wr)) || !bytes.Equal(s.Bytes(), ref.B32(ws)) {
		return fmt.Sprintf("signature (%x,%x) differs from the RFC 6979 deterministic signature (%x,%x)", r.Bytes(), s.Bytes(), wr, ws)
	}
	if v != wv {
		return fmt.Sprintf("recovery id %d, expected %d", v, wv)
	}
	sig, err := sk.Sign(secec.RFC6979SHA256(), digest, nil)
	if err != nil || !bytes.Equal(sig, ref.DERBuildSig(wr, ws)) {
		return "Sign(RFC6979) bytes differ from the reference DER signature"
	}
	return ""
}

// ---------------------------------------------------------------- (c) hedged nonce

type triple struct {
	d      *big.Int
	digest []byte
	ent    string // source name
}

func signWith(d *big.Int, digest []byte, sc mc.Script) (r, s []byte, consumed int, err error) {
	rd := sc.New()
	rr, ss, _, e := lib.MkPriv(d).SignRaw(rd, digest)
	if e != nil {
		if rr != nil || ss != nil {
			return nil, nil, rd.Consumed, errors.New("error returned together with a signature")
		}
		return nil, nil, rd.Consumed, e
	}
	return rr.Bytes(), ss.Bytes(), rd.Consumed, nil
}

// scribbler is an entropy reader whose first Read also overwrites a buffer of the caller (the digest).
type scribbler struct {
	*mc.Reader
	target, with []byte
	done         bool
}

func (s *scribbler) Read(p []byte) (int, error) {
	if !s.done {
		s.done = true
		copy(s.target, s.with)
	}
	return s.Reader.Read(p)
}

// runHedged: determinism, exactly 32 bytes, delivery-mode independence, faults at every byte.
func runHedged(d *big.Int, digest []byte, src string) string {
	base := mc.Script{Src: src, Mode: "full", FailAfter: -1}
	r0, s0, c0, err := signWith(d, digest, base)
	if err != nil {
		return "SignRaw failed with a healthy reader: " + err.Error()
	}
	if c0 != 32 {
		return fmt.Sprintf("consumed %d bytes of caller entropy, expected exactly 32", c0)
	}
	r1, s1, _, _ := signWith(d, digest, base)
	if !bytes.Equal(r0, r1) || !bytes.Equal(s0, s1) {
		return "not deterministic for identical (key, digest, entropy)"
	}
	// the nonce really is in [1,n) and consistent: signature verifies under the reference
	if !ref.ECDSAVerify(ref.BaseMul(d), digest, ref.OS2IP(r0), ref.OS2IP(s0)) {
		return "signature does not verify under the reference"
	}
	// history on ONE key object: the caller reads the key's bytes / scalar / public key and wipes what it was
	// handed; the nonce still depends on the key exactly as before
	{
		sk := lib.MkPriv(d)
		kb := sk.Bytes()
		for i := range kb {
			kb[i] = 0
		}
		sk.Scalar().Zero()
		pb := sk.PublicKey().Bytes()
		for i := range pb {
			pb[i] = 0
		}
		rr, ss, _, e := sk.SignRaw(base.New(), digest)
		if e != nil || !bytes.Equal(rr.Bytes(), r0) || !bytes.Equal(ss.Bytes(), s0) {
			return fmt.Sprintf("after the caller wiped the copies handed out by the key's accessors, the same (key, digest, entropy) signs differently (err=%v): the nonce derivation reads caller-visible memory", e)
		}
	}
	for _, m := range mc.DeliveryModes() {
		sc := base
		sc.Mode = m
		r2, s2, c2, e2 := signWith(d, digest, sc)
		if e2 != nil {
			return fmt.Sprintf("short reads not completed: delivery %q failed: %v", m, e2)
		}
		if !bytes.Equal(r2, r0) || !bytes.Equal(s2, s0) {
			return fmt.Sprintf("delivery mode %q changes the signature for the same 32 entropy bytes", m)
		}
		if c2 != 32 {
			return fmt.Sprintf("delivery %q: consumed %d bytes", m, c2)
		}
	}
	// a reader that stalls (returns (0, nil)) for a long time before it goes on: an implementation may give up with an
	// error (bufio does after 100 empty reads) - what it may never do is sign with fewer than the 32 bytes
	for _, m := range []string{"stall:150:0", "stall:150:20", "stall:1000:31"} {
		sc := base
		sc.Mode = m
		r2, s2, _, e2 := signWith(d, digest, sc)
		if e2 == nil && (!bytes.Equal(r2, r0) || !bytes.Equal(s2, s0)) {
			return fmt.Sprintf("delivery mode %q (long run of empty reads, then the rest of the 32 bytes) produced a signature that is not the one for these 32 entropy bytes: the read was cut short and signed anyway", m)
		}
	}
	// a reader that scribbles over the caller's digest buffer while it is being read (shared scratch memory): whatever
	// snapshot of the digest the implementation works on, it works on ONE - the result is an error, or exactly the
	// signature of the old digest, or exactly the signature of the new one (same entropy); never a mixture such as
	// a nonce derived from one digest in a signature on the other
	{
		dg := append([]byte{}, digest...)
		newDg := append([]byte{}, digest...)
		for i := range newDg {
			newDg[i] ^= 0x3c
		}
		rn, sn, _, en := signWith(d, newDg, base)
		rd := &scribbler{Reader: base.New(), target: dg, with: newDg}
		rr, ss, _, e := lib.MkPriv(d).SignRaw(rd, dg)
		if e == nil && en == nil {
			isOld := bytes.Equal(rr.Bytes(), r0) && bytes.Equal(ss.Bytes(), s0)
			isNew := bytes.Equal(rr.Bytes(), rn) && bytes.Equal(ss.Bytes(), sn)
			if !isOld && !isNew {
				return "the entropy reader overwrote the caller's digest buffer during its Read: the result is neither the signature of the old digest nor that of the new one for this entropy (the digest was fetched twice: nonce from one message, signature on the other)"
			}
		}
	}
	for j := 0; j <= 32; j++ {
		for _, with := range []bool{false, true} {
			for _, ek := range []string{"", "eof", "unexpected-eof"} { // the identity of the error must not matter
				sc := mc.Script{Src: src, Mode: "full", FailAfter: j, FailWith: with, FailErr: ek}
				r2, _, _, e2 := signWith(d, digest, sc)
				if j < 32 {
					if e2 == nil || r2 != nil {
						return fmt.Sprintf("reader failed after %d bytes (error kind %q, with data=%v) but a signature was produced", j, ek, with)
					}
				} else if e2 != nil || !bytes.Equal(r2, r0) {
					return fmt.Sprintf("reader delivering exactly 32 bytes then failing (error kind %q, with data=%v): err=%v", ek, with, e2)
				}
				sc.Mode = "1"
				r3, _, _, e3 := signWith(d, digest, sc)
				if j < 32 && (e3 == nil || r3 != nil) {
					return fmt.Sprintf("1-byte reader failing after %d bytes (error kind %q) still produced a signature", j, ek)
				}
			}
		}
	}
	return ""
}

// runNilRand: "if rand is nil, crypto/rand.Reader is used": with the global crypto/rand.Reader replaced by a
// scripted stream, SignRaw(nil, ...) must be exactly SignRaw(<the same stream>, ...): same hedged construction,
// exactly 32 bytes consumed. Must run single-threaded (process-global variable).
func runNilRand(d *big.Int, digest []byte, src string) string {
	sc := mc.Script{Src: src, Mode: "full", FailAfter: -1}
	want, wantS, _, err := signWith(d, digest, sc)
	if err != nil {
		return "explicit reader failed: " + err.Error()
	}
	old := crand.Reader
	rd := sc.New()
	crand.Reader = rd
	r, s, _, e2 := lib.MkPriv(d).SignRaw(nil, digest)
	crand.Reader = old
	if e2 != nil {
		return "SignRaw(nil) failed: " + e2.Error()
	}
	if !bytes.Equal(r.Bytes(), want) || !bytes.Equal(s.Bytes(), wantS) {
		return "SignRaw(nil reader) with crypto/rand.Reader = X differs from SignRaw(X): the nonce derivation depends on how the entropy source was supplied (the system RNG is trusted directly?)"
	}
	if rd.Consumed != 32 {
		return fmt.Sprintf("SignRaw(nil reader) consumed %d bytes from crypto/rand.Reader, expected 32", rd.Consumed)
	}
	return ""
}

func register() {
	mc.Register("nilrand", func(d mc.D) string { return runNilRand(d.Big("d"), d.B("digest"), d.S("src")) })
	mc.Register("sampler", func(d mc.D) string {
		var c []*big.Int
		for _, s := range d.L("cands") {
			v, _ := new(big.Int).SetString(s, 16)
			c = append(c, v)
		}
		return runSampler(c)
	})
	mc.Register("sampler-reader", func(d mc.D) string {
		return runSamplerReader(mc.Script{Mode: d.S("mode"), FailAfter: d.I("fail_after"), FailWith: d.Bool("fail_with"), FailErr: d.S("fail_err")})
	})
	mc.Register("drbg", func(d mc.D) string { return runDRBG(d.Big("x"), d.Big("e"), d.I("reads")) })
	mc.Register("rfc6979", func(d mc.D) string { return runRFC6979Sign(d.Big("d"), d.B("digest")) })
	mc.Register("hedged", func(d mc.D) string { return runHedged(d.Big("d"), d.B("digest"), d.S("src")) })
	mc.Register("collision", func(d mc.D) string {
		ra, _, _, e1 := signWith(d.Big("d1"), d.B("digest1"), mc.Script{Src: d.S("src1"), Mode: "full", FailAfter: -1})
		rb, _, _, e2 := signWith(d.Big("d2"), d.B("digest2"), mc.Script{Src: d.S("src2"), Mode: "full", FailAfter: -1})
		if e1 != nil || e2 != nil {
			return "sign failed"
		}
		if bytes.Equal(ra, rb) != d.Bool("same_expected") {
			return fmt.Sprintf("r equal = %v, expected %v", bytes.Equal(ra, rb), d.Bool("same_expected"))
		}
		return ""
	})
}

func main() {
	R = mc.New("C09")
	initVals()
	register()
	mc.MaybeReplay()
	R.Rule("states = distinct candidate streams / (x,e,read count) / (key, digest, entropy source) triples; a transition is one sampler call, one generator read sequence, or one SignRaw under one reader script, each compared with the reference (first in-range candidate; RFC 6979 3.2 candidates; property-level oracles for the hedged mode); non-trivial = streams with at least one rejected candidate, read counts > 1, faulting / short-reading scripts, colliding pairs")
	R.Assume("math/big, crypto/hmac, crypto/sha256; /verif/ref RFC 6979 (validated on the 20 published vectors); the hedged construction itself is not pinned by the property: only determinism, entropy accounting and sensitivity are judged")
	R.Config("amd64 default build")
	th := R.Thorough()
	one := big.NewInt(1)
	nm1 := new(big.Int).Sub(ref.N, one)

	// nil entropy source with a scripted crypto/rand.Reader (sequential: it swaps a process-global)
	{
		one := big.NewInt(1)
		for _, d := range []*big.Int{one, big.NewInt(0xdeadbeef), new(big.Int).Sub(ref.N, one)} {
			for _, dg := range [][]byte{ref.TaggedHash("verif/C09", []byte("nil1")), make([]byte, 32), ref.B32(ref.N)} {
				for _, src := range []string{"zero", "counter", "ff"} {
					R.Run("hedged/nil reader equals crypto/rand.Reader", "nilrand", mc.D{"d": mc.HexBig(d), "digest": mc.Hex(dg), "src": src})
				}
			}
		}
		R.Class("hedged/nil reader with scripted crypto/rand.Reader", 27)
	}
	// (a) ALL candidate streams: j rejects then an accept (j = 0..7), and all-reject streams of length 8
	if secec.VerifSampleRandomScalar != nil {
		max := 8
		if secec.VerifMaxResamples != nil {
			max = secec.VerifMaxResamples()
		}
		R.Bound("sampler_retry_limit", max)
		type st struct{ c []*big.Int }
		var streams [][]*big.Int
		var rec func(prefix []*big.Int)
		rec = func(prefix []*big.Int) {
			if len(prefix) == max {
				streams = append(streams, append([]*big.Int{}, prefix...)) // all-reject
				return
			}
			for _, a := range acceptVals {
				streams = append(streams, append(append([]*big.Int{}, prefix...), a))
			}
			for _, r := range rejectVals {
				rec(append(prefix, r))
			}
		}
		if max <= 8 {
			rec(nil)
		} else {
			R.Cap("retry limit > 8: candidate-stream enumeration skipped")
		}
		// one more: max rejects followed by an accept must still fail (limit respected)
		tail := []*big.Int{}
		for i := 0; i < max; i++ {
			tail = append(tail, ref.N)
		}
		streams = append(streams, append(tail, one))
		R.Bound("sampler_streams", len(streams))
		mc.Par(len(streams), func(i int) {
			c := streams[i]
			R.T(1)
			if len(c) > 1 {
				R.NT(mc.HS("stream", fmt.Sprint(c)))
			}
			R.State(mc.HS("stream", fmt.Sprint(c)))
			if m := mc.Safe(func() string { return runSampler(c) }); m != "" {
				var hs []string
				for _, v := range c {
					hs = append(hs, v.Text(16))
				}
				R.Mismatch(fmt.Sprintf("sampler/stream/rejects=%d", len(c)-1), "sampler", m, mc.D{"cands": hs})
			}
		})
		R.Class("sampler/streams ending in an accept", int64(len(streams))-int64(pow(len(rejectVals), max))-1)
		R.Class("sampler/all-reject streams", int64(pow(len(rejectVals), max))+1)
		R.Sample("sampler stream", map[string]any{"candidates": []string{"n", "0", "2^256-1", "n-1"}, "expected": "n-1 exactly; 128 bytes consumed"})
		// reader deviations on [n, 0, 2]
		var scs []mc.Script
		for _, m := range append(mc.DeliveryModes(), "chunks:33", "chunks:31", "eof:96", "split:32", "split:33", "split:64", "split:95") {
			scs = append(scs, mc.Script{Mode: m, FailAfter: -1})
		}
		for j := 0; j <= 97; j++ {
			for _, m := range []string{"full", "1", "chunks:31"} {
				for _, ek := range []string{"", "eof"} {
					scs = append(scs, mc.Script{Mode: m, FailAfter: j, FailErr: ek}, mc.Script{Mode: m, FailAfter: j, FailWith: true, FailErr: ek})
				}
			}
		}
		for _, sc := range scs {
			R.Run("sampler/reader/"+sc.Mode, "sampler-reader", mc.D{"mode": sc.Mode, "fail_after": sc.FailAfter, "fail_with": sc.FailWith, "fail_err": sc.FailErr})
		}
		R.Class("sampler/reader scripts", int64(len(scs)))
	} else {
		R.SkipHook("sampleRandomScalar")
	}

	// (b) RFC 6979 generator and end-to-end signatures
	keys := []*big.Int{one, big.NewInt(2), big.NewInt(3), nm1, ref.HalfN, new(big.Int).Add(ref.HalfN, one), ref.Lambda, new(big.Int).Lsh(one, 255), new(big.Int).Lsh(one, 128), big.NewInt(0xdeadbeef)}
	sha := func(s string) []byte { return ref.TaggedHash("verif/C09", []byte(s)) }
	digests := [][]byte{sha("sample"), sha("test"), make([]byte, 32), bytes.Repeat([]byte{0xff}, 32), ref.B32(ref.N), ref.B32(nm1), ref.B32(one), append(sha("long"), sha("tail")...), append(sha("sample"), 0xaa)}
	if th {
		for i := 0; i < 30; i++ {
			keys = append(keys, ref.ModN(ref.OS2IP(sha(fmt.Sprint("key", i)))))
			digests = append(digests, sha(fmt.Sprint("dg", i)))
		}
	}
	R.Bound("rfc6979_keys", len(keys))
	R.Bound("rfc6979_digests", len(digests))
	R.Bound("rfc6979_read_counts", "1..8")
	type kd struct {
		d  *big.Int
		dg []byte
	}
	var kds []kd
	for _, d := range keys {
		for _, dg := range digests {
			kds = append(kds, kd{d, dg})
		}
	}
	mc.Par(len(kds), func(i int) {
		k := kds[i]
		e, _ := ref.DigestToE(k.dg)
		e = ref.ModN(e)
		if secec.VerifNewDrbgRFC6979 != nil {
			for reads := 1; reads <= 8; reads++ {
				R.T(1)
				if m := mc.Safe(func() string { return runDRBG(k.d, e, reads) }); m != "" {
					R.Mismatch(fmt.Sprintf("rfc6979/generator/reads=%d", reads), "drbg", m, mc.D{"x": mc.HexBig(k.d), "e": mc.HexBig(e), "reads": reads})
				}
				if reads > 1 {
					R.NT(mc.HS("drbg", k.d.String(), e.String(), fmt.Sprint(reads)))
				}
			}
		}
		R.T(1)
		if m := mc.Safe(func() string { return runRFC6979Sign(k.d, k.dg) }); m != "" {
			R.Mismatch("rfc6979/sign", "rfc6979", m, mc.D{"d": mc.HexBig(k.d), "digest": mc.Hex(k.dg)})
		}
		R.State(mc.H(k.d.Bytes(), k.dg))
	})
	if secec.VerifNewDrbgRFC6979 == nil {
		R.SkipHook("newDrbgRFC6979")
	}
	R.Class("rfc6979/(key,digest) pairs", int64(len(kds)))
	R.Sample("rfc6979", map[string]any{"d": "1", "digest": mc.Hex(digests[0]), "reads": "1..8 candidates compared byte for byte; Sign compared with the reference DER signature"})

	// (c) hedged nonce through the public API
	hk := []*big.Int{one, big.NewInt(2), nm1, ref.HalfN, ref.Lambda, big.NewInt(0xdeadbeef)}
	hd := [][]byte{sha("m1"), sha("m2"), make([]byte, 32), bytes.Repeat([]byte{0xff}, 32), ref.B32(ref.N), append(sha("m1"), 0x01), append(sha("m1"), 0x02, 0x03), ref.B32(new(big.Int).Add(ref.N, one))}
	srcs := []string{"zero", "ff", "counter", "seeded:1", "seeded:2", "hex:0100000000000000000000000000000000000000000000000000000000000000"}
	if th {
		hk = append(hk, big.NewInt(3), big.NewInt(4), new(big.Int).Sub(ref.N, big.NewInt(2)), ref.ZnNeg(ref.Lambda), new(big.Int).Lsh(one, 200), big.NewInt(99))
		srcs = append(srcs, "seeded:3", "hex:ffffffffffffffffffffffffffffffffffffffffffffffffffffffffffffff7f")
	}
	var trs []triple
	for _, d := range hk {
		for _, dg := range hd {
			for _, s := range srcs {
				trs = append(trs, triple{d, dg, s})
			}
			// entropy CORRELATED with the public digest (a source that echoes the digest, or the digest masked with a
			// constant): the mixing of entropy and digest must stay injective, so distinct digests still give distinct r
			e, _ := ref.DigestToE(dg)
			eb := ref.B32(ref.ModN(e))
			trs = append(trs, triple{d, dg, "hex:" + mc.Hex(eb)})
			mk := append([]byte{}, eb...)
			for i := range mk {
				mk[i] ^= 0x5a
			}
			trs = append(trs, triple{d, dg, "hex:" + mc.Hex(mk)})
		}
	}
	R.Bound("hedged_triples", len(trs))
	R.Bound("hedged_reader_scripts", fmt.Sprintf("%d delivery modes; faults after every j in 0..32 (plain and with-data, full and 1-byte delivery)", len(mc.DeliveryModes())))
	rvals := make([][]byte, len(trs))
	mc.Par(len(trs), func(i int) {
		t := trs[i]
		R.T(int64(2 + len(mc.DeliveryModes()) + 33*4*3))
		if m := mc.Safe(func() string { return runHedged(t.d, t.digest, t.ent) }); m != "" {
			R.Mismatch("hedged/"+t.ent, "hedged", m, mc.D{"d": mc.HexBig(t.d), "digest": mc.Hex(t.digest), "src": t.ent})
		}
		r, _, _, err := signWith(t.d, t.digest, mc.Script{Src: t.ent, Mode: "full", FailAfter: -1})
		if err == nil {
			rvals[i] = r
		}
		h := mc.H(t.d.Bytes(), t.digest, []byte(t.ent))
		R.State(h)
		R.NT(h)
	})
	// pairwise sensitivity: r collides iff the triples are e-equivalent (same d, same entropy, same e)
	eKey := func(t triple) string {
		e, _ := ref.DigestToE(t.digest)
		eb := make([]byte, 32) // the entropy BYTES, not the name of the script that produces them
		mc.Script{Src: t.ent, Mode: "full", FailAfter: -1}.New().Read(eb)
		return t.d.String() + "|" + mc.Hex(eb) + "|" + ref.ModN(e).String()
	}
	var mu sync.Mutex
	var same, diff int64
	mc.Par(len(trs), func(i int) {
		var s, df int64
		for j := i + 1; j < len(trs); j++ {
			if rvals[i] == nil || rvals[j] == nil {
				continue
			}
			eq := eKey(trs[i]) == eKey(trs[j])
			if eq {
				s++
			} else {
				df++
			}
			if bytes.Equal(rvals[i], rvals[j]) != eq {
				R.Mismatch("hedged/pairwise r collision", "collision", fmt.Sprintf("r equal = %v but the triples are e-equivalent = %v", !eq, eq),
					mc.D{"d1": mc.HexBig(trs[i].d), "digest1": mc.Hex(trs[i].digest), "src1": trs[i].ent, "d2": mc.HexBig(trs[j].d), "digest2": mc.Hex(trs[j].digest), "src2": trs[j].ent, "same_expected": eq})
			}
		}
		mu.Lock()
		same += s
		diff += df
		mu.Unlock()
	})
	R.T(same + diff)
	R.Class("hedged/pairs that must share r (same key, entropy and e)", same)
	R.Class("hedged/pairs that must not share r", diff)
	R.Sample("hedged", map[string]any{"d": "n-1", "digest": mc.Hex(hd[0]), "entropy": "counter", "checks": "deterministic; 32 bytes consumed; 36 delivery modes give the same signature; fault after j<32 bytes => error, nil"})
	// nil entropy source = crypto/rand: two signatures over the same (key, digest) must both be valid and must
	// not share r (the only non-scripted reader; a false alarm needs a 2^-256 coincidence)
	for _, d := range hk[:4] {
		sk := lib.MkPriv(d)
		r1, s1, _, e1 := sk.SignRaw(nil, hd[0])
		r2, s2, _, e2 := sk.SignRaw(nil, hd[0])
		R.T(2)
		bad := ""
		switch {
		case e1 != nil || e2 != nil:
			bad = "SignRaw(nil reader) failed"
		case !ref.ECDSAVerify(ref.BaseMul(d), hd[0], ref.OS2IP(r1.Bytes()), ref.OS2IP(s1.Bytes())) || !ref.ECDSAVerify(ref.BaseMul(d), hd[0], ref.OS2IP(r2.Bytes()), ref.OS2IP(s2.Bytes())):
			bad = "signature made with the default entropy source does not verify under the reference"
		case bytes.Equal(r1.Bytes(), r2.Bytes()):
			bad = "two signatures made with the default (crypto/rand) entropy source share r: the nonce does not depend on fresh entropy"
		}
		if bad != "" {
			R.Fail("hedged/default entropy source", "misc", map[string]any{"d": mc.HexBig(d), "what": bad}, nil)
		}
	}
	R.Class("hedged/default entropy source (crypto/rand) pairs", 4)
	R.Note("digests differing only beyond byte 32, or by +n in the leftmost 32 bytes, are the same ECDSA message e and MUST sign identically; 'digest' in the statement is read as e for the collision oracle")
	keysS := []string{}
	for k := range map[string]bool{"a": true} {
		keysS = append(keysS, k)
	}
	sort.Strings(keysS)
	R.Expect("sampler/streams ending in an accept", "sampler/all-reject streams", "rfc6979/(key,digest) pairs", "hedged/pairs that must share r (same key, entropy and e)", "hedged/pairs that must not share r")
	R.Finish()
}

func pow(b, e int) int {
	r := 1
	for i := 0; i < e; i++ {
		r *= b
	}
	return r
}
