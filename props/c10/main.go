// C10 — ECDH is symmetric and exact; key objects only ever hold valid keys.
//
// All ordered key pairs over a scalar alphabet; every private-key candidate
// length / boundary value; every public-key byte string of the SEC 1 corpus
// (incl. twist / other-curve points, identity, hybrid, non-canonical) in every
// format; cached encodings vs. the underlying point.
package main

import (
	"bytes"
	crand "crypto/rand"
	"fmt"
	"math/big"
	"strings"

	secp256k1 "gitlab.com/yawning/secp256k1-voi"
	"gitlab.com/yawning/secp256k1-voi/secec"
	"gitlab.com/yawning/secp256k1-voi/secec/bitcoin"

	"verif/lib"
	"verif/mc"
	"verif/ref"
)

var R *mc.Report

// checkPub compares every accessor of a public key with the reference point.
func checkPub(pk *secec.PublicKey, q ref.Pt) string {
	if q.Inf {
		return "REFERENCE: identity key"
	}
	if !bytes.Equal(pk.Bytes(), q.Uncompressed()) {
		return fmt.Sprintf("Bytes() = %x, reference %x", pk.Bytes(), q.Uncompressed())
	}
	if !bytes.Equal(pk.CompressedBytes(), q.Compressed()) {
		return fmt.Sprintf("CompressedBytes() = %x, reference %x", pk.CompressedBytes(), q.Compressed())
	}
	if !bytes.Equal(pk.ASN1Bytes(), ref.SPKIBuild(q.Uncompressed())) {
		return "ASN1Bytes() is not the canonical SubjectPublicKeyInfo of the point"
	}
	if m := lib.CheckPoint(pk.Point(), q); m != "" {
		return "Point(): " + m
	}
	// the hidden point and the cached bytes agree (hook: field access only)
	if h := secec.VerifPubInternals; h != nil {
		ip, ib := h(pk)
		if m := lib.CheckPointLight(ip, q); m != "" {
			return "internal point: " + m
		}
		if !bytes.Equal(ib, q.Uncompressed()) {
			return "cached pointBytes differ from the encoding of the underlying point"
		}
	}
	re, err := secec.ParseASN1PublicKey(pk.ASN1Bytes())
	if err != nil || !re.Equal(pk) || !pk.Equal(re) {
		return "ASN1Bytes does not re-parse to an Equal key"
	}
	return ""
}

// runECDH: both directions for (a, b), keys imported through `fmtB` format.
func runECDH(a, b *big.Int, format int) string {
	ka, kb := lib.MkPriv(a), lib.MkPriv(b)
	qa, qb := ref.BaseMul(a), ref.BaseMul(b)
	want := ref.B32(ref.BaseMul(ref.ZnMul(a, b)).X)
	imp := func(q ref.Pt) (*secec.PublicKey, error) {
		switch format {
		case 0:
			return secec.NewPublicKey(q.Uncompressed())
		case 1:
			return secec.NewPublicKey(q.Compressed())
		case 2:
			return secec.ParseASN1PublicKey(ref.SPKIBuild(q.Uncompressed()))
		case 3:
			return secec.ParseASN1PublicKey(ref.SPKIBuild(q.Compressed()))
		case 4:
			return secec.NewPublicKeyFromPoint(lib.MkPTRep(q, big.NewInt(0x1234567)))
		}
		return secec.NewPublicKeyFromPoint(lib.MkPT(q))
	}
	pb, err := imp(qb)
	if err != nil {
		return "peer key import failed: " + err.Error()
	}
	pa, err := imp(qa)
	if err != nil {
		return "peer key import failed: " + err.Error()
	}
	if m := checkPub(pb, qb); m != "" {
		return "imported key: " + m
	}
	s1, e1 := ka.ECDH(pb)
	s2, e2 := kb.ECDH(pa)
	if e1 != nil || e2 != nil {
		return fmt.Sprintf("ECDH failed for valid keys: %v %v", e1, e2)
	}
	if !bytes.Equal(s1, want) || !bytes.Equal(s2, want) {
		return fmt.Sprintf("ECDH(a,B)=%x ECDH(b,A)=%x, reference x((ab)G)=%x", s1, s2, want)
	}
	// with the keys' own derived public keys as well
	s3, e3 := ka.ECDH(kb.PublicKey())
	if e3 != nil || !bytes.Equal(s3, want) {
		return "ECDH with the derived public key differs"
	}
	if m := checkPub(ka.PublicKey(), qa); m != "" {
		return "derived public key: " + m
	}
	if !bytes.Equal(ka.Bytes(), ref.B32(a)) || !bytes.Equal(ka.Scalar().Bytes(), ref.B32(a)) {
		return "private key accessors differ from the scalar"
	}
	// history: the caller mutates everything the keys handed out, derives a Schnorr key from
	// the ECDSA key (which normalises a COPY of the point to even y), then uses the keys again
	pt := pb.Point()
	pt.Double(pt)
	pt2 := ka.PublicKey().Point()
	pt2.Identity()
	bs := pb.Bytes()
	for i := range bs {
		bs[i] ^= 0xff
	}
	sc := ka.Scalar()
	sc.Add(sc, sc)
	kb2 := ka.Bytes()
	kb2[0] ^= 0x80
	_ = bitcoin.NewSchnorrPrivateKeyFromECDSA(ka)
	_ = bitcoin.NewSchnorrPublicKeyFromECDSA(pb)
	if m := checkPub(pb, qb); m != "" {
		return "after the caller mutated accessor results: imported key: " + m
	}
	if m := checkPub(ka.PublicKey(), qa); m != "" {
		return "after the caller mutated accessor results / derived a Schnorr key: derived public key: " + m
	}
	s4, e4 := ka.ECDH(pb)
	if e4 != nil || !bytes.Equal(s4, want) {
		return fmt.Sprintf("after the caller mutated accessor results: ECDH = %x err=%v, reference %x", s4, e4, want)
	}
	return ""
}

// runPriv: NewPrivateKey on an arbitrary byte string.
func runPriv(b []byte) string {
	in := append([]byte{}, b...)
	var k *secec.PrivateKey
	var err error
	if pn := lib.Try(func() { k, err = secec.NewPrivateKey(in) }); pn != "" {
		return "panic: " + pn
	}
	v := ref.OS2IP(b)
	ok := len(b) == 32 && v.Sign() > 0 && v.Cmp(ref.N) < 0
	if ok != (err == nil) {
		return fmt.Sprintf("NewPrivateKey accepted=%v, expected %v (scalar must be in [1,n), 32 bytes)", err == nil, ok)
	}
	if !ok {
		if k != nil {
			return "error with non-nil key"
		}
		return ""
	}
	if !bytes.Equal(k.Bytes(), b) {
		return "Bytes() differs from the input"
	}
	if m := checkPub(k.PublicKey(), ref.BaseMul(v)); m != "" {
		return "public key: " + m
	}
	// the crypto.Signer / crypto.Decrypter-style entry point hands out the same key
	if pub, ok := k.Public().(*secec.PublicKey); !ok {
		return "Public() does not return a *PublicKey"
	} else if m := checkPub(pub, ref.BaseMul(v)); m != "" {
		return "the key returned by Public(): " + m
	} else if !pub.Equal(k.PublicKey()) {
		return "Public() and PublicKey() are not Equal"
	}
	if s := k.Scalar(); !bytes.Equal(s.Bytes(), b) {
		return "Scalar() differs from the input"
	}
	if h := secec.VerifPrivInternals; h != nil {
		if ds, _ := h(k); !bytes.Equal(ds.Bytes(), b) {
			return "internal scalar differs"
		}
	}
	k2, err := secec.NewPrivateKeyFromScalar(lib.MkSC(v))
	if err != nil || !k2.Equal(k) || !k.Equal(k2) {
		return "NewPrivateKeyFromScalar disagrees"
	}
	if !bytes.Equal(in, b) {
		return "input modified"
	}
	return ""
}

// runPub: NewPublicKey / ParseASN1PublicKey(SPKI wrap) on an arbitrary byte string.
func runPub(b []byte) string {
	in := append([]byte{}, b...)
	want, werr := ref.DecodePoint(b)
	ok := werr == nil && !want.Inf
	var k *secec.PublicKey
	var err error
	if pn := lib.Try(func() { k, err = secec.NewPublicKey(in) }); pn != "" {
		return "panic: " + pn
	}
	if ok != (err == nil) {
		return fmt.Sprintf("NewPublicKey accepted=%v, reference (valid non-identity SEC 1 point) = %v", err == nil, ok)
	}
	spki := ref.SPKIBuild(b)
	k2, err2 := secec.ParseASN1PublicKey(spki)
	if ok != (err2 == nil) {
		return fmt.Sprintf("ParseASN1PublicKey accepted=%v, reference %v", err2 == nil, ok)
	}
	if !ok {
		if k != nil || k2 != nil {
			return "error with non-nil key"
		}
		return ""
	}
	if m := checkPub(k, want); m != "" {
		return m
	}
	if m := checkPub(k2, want); m != "" {
		return "via SPKI: " + m
	}
	if !k.Equal(k2) {
		return "same point imported two ways is not Equal"
	}
	// ECDH with a fixed private key gives x(d*Q)
	d := big.NewInt(0x1337)
	sh, e := lib.MkPriv(d).ECDH(k)
	if e != nil || !bytes.Equal(sh, ref.B32(want.Mul(d).X)) {
		return "ECDH with the imported key differs from the reference"
	}
	if !bytes.Equal(in, b) {
		return "input modified"
	}
	// history: the caller wipes the buffer the key was imported from
	for i := range in {
		in[i] ^= 0xff
	}
	if m := checkPub(k, want); m != "" {
		return "after the caller overwrote the import buffer: " + m
	}
	for i := range spki {
		spki[i] ^= 0xff
	}
	if m := checkPub(k2, want); m != "" {
		return "after the caller overwrote the SubjectPublicKeyInfo buffer the key was parsed from: " + m
	}
	if !k.Equal(k2) || !k2.Equal(k) {
		return "after the caller overwrote both import buffers the two keys are no longer Equal"
	}
	return ""
}

// runFromPoint: NewPublicKeyFromPoint for any representative incl. the identity.
func runFromPoint(q ref.Pt, z *big.Int) string {
	p := lib.MkPTRep(q, z)
	raw := lib.Raw(p)
	// object history: the caller first reuses this Point as the receiver of decodes that FAIL (documented to
	// leave the receiver unchanged) and only then builds the key from it
	for _, bad := range [][]byte{append([]byte{2}, ref.B32(big.NewInt(5))...), append([]byte{3}, ref.B32(ref.P)...), {4, 1, 2}, {7},
		append([]byte{4}, append(ref.B32(ref.Gx), ref.B32(new(big.Int).Add(ref.Gy, big.NewInt(1)))...)...)} {
		if r, e := p.SetBytes(bad); e == nil || r != nil {
			return "an invalid encoding was decoded"
		}
	}
	if lib.Raw(p) != raw {
		return "a failed decode modified its receiver (the point would now be turned into a public key)"
	}
	// ... and history of SUCCESSFUL decodes into the same object: the identity encoding decoded into a point that held
	// a value is the identity (refused as a key); another point decoded into it makes it that point
	if !q.Inf {
		re := lib.MkPTRep(q, z)
		if _, e := re.SetBytes([]byte{0}); e != nil {
			return "SetBytes(00) failed: " + e.Error()
		}
		if k0, e := secec.NewPublicKeyFromPoint(re); e == nil || k0 != nil {
			return "a point object that last decoded the identity encoding 00 (after holding another point) was accepted as a public key"
		}
		if _, e := re.SetBytes(q.Neg().Compressed()); e != nil {
			return "SetBytes(valid) failed: " + e.Error()
		}
		if k1, e := secec.NewPublicKeyFromPoint(re); e != nil {
			return "rejected a valid re-decoded point: " + e.Error()
		} else if m := checkPub(k1, q.Neg()); m != "" {
			return "key from a re-decoded point object: " + m
		}
	}
	// ... and a point that is the RESULT of the exported constant-time selection / negation with control words other
	// than 0 and 1 (any non-zero word means "yes"): such a result is a valid point like any other, and a key built from it
	// holds exactly that point
	if !q.Inf {
		other := lib.MkPTRep(ref.G().Mul(big.NewInt(11)), big.NewInt(7))
		for _, ctrl := range []uint64{2, 0x100, 1 << 63, ^uint64(0) - 1} {
			sel := secp256k1.NewIdentityPoint().ConditionalSelect(other, lib.MkPTRep(q, z), ctrl)
			sel.ConditionalNegate(sel, ctrl)
			ks, e := secec.NewPublicKeyFromPoint(sel)
			if e != nil {
				return fmt.Sprintf("rejected the point selected / negated with control word %#x: %v", ctrl, e)
			}
			if m := checkPub(ks, q.Neg()); m != "" {
				return fmt.Sprintf("key from the point selected / negated with control word %#x: %s", ctrl, m)
			}
		}
	}
	k, err := secec.NewPublicKeyFromPoint(p)
	if q.Inf {
		if err == nil || k != nil {
			return "identity accepted as a public key"
		}
		return ""
	}
	if err != nil {
		return "rejected a valid point: " + err.Error()
	}
	if lib.Raw(p) != raw {
		return "caller's point modified"
	}
	return checkPub(k, q)
}

// runRecover: the third route to a PublicKey object. (e, k, t) describe a signature with R = k*G, r = x(R) mod n,
// s chosen so that the recovered point is Q = t*G; t = 0 makes Q the identity, which must be refused.
func runRecover(e, k, t *big.Int) string {
	rp := ref.BaseMul(k)
	r := ref.ModN(rp.X)
	if r.Sign() == 0 {
		return ""
	}
	// Q = r^-1 (s R - e G) = r^-1 (s k - e) G  =>  s = (t r + e) / k
	sv := ref.ZnMul(ref.ZnAdd(ref.ZnMul(t, r), e), ref.ZnInv(k))
	if sv.Sign() == 0 {
		return ""
	}
	v := byte(rp.Y.Bit(0))
	if rp.X.Cmp(ref.N) >= 0 {
		v |= 2
	}
	pk, err := secec.RecoverPublicKey(ref.B32(e), lib.MkSC(r), lib.MkSC(sv), v)
	q := ref.BaseMul(t)
	if t.Sign() == 0 {
		q = ref.Infinity()
	}
	if q.Inf {
		if err == nil || pk != nil {
			return fmt.Sprintf("RecoverPublicKey returned a PublicKey object for a signature that recovers the point at infinity (r=%x s=%x v=%d)", r, sv, v)
		}
		return ""
	}
	if err != nil {
		return "RecoverPublicKey failed on a signature that recovers a valid point: " + err.Error()
	}
	return checkPub(pk, q)
}

func register() {
	mc.Register("recover", func(d mc.D) string { return runRecover(d.Big("e"), d.Big("k"), d.Big("t")) })
	mc.Register("ecdh", func(d mc.D) string { return runECDH(d.Big("a"), d.Big("b"), d.I("format")) })
	mc.Register("priv", func(d mc.D) string { return runPriv(d.B("bytes")) })
	mc.Register("pub", func(d mc.D) string { return runPub(d.B("bytes")) })
	mc.Register("frompoint", func(d mc.D) string { return runFromPoint(lib.HexPt(d.S("q")), d.Big("z")) })
	mc.Register("equalmatrix", func(d mc.D) string {
		a, b := lib.MkPub(lib.HexPt(d.S("a"))), lib.MkPub(lib.HexPt(d.S("b")))
		if a.Equal(b) != (d.S("a") == d.S("b")) {
			return "PublicKey.Equal is not equality of abstract points"
		}
		return ""
	})
}

// points on y^2 = x^3 + b for b != 7 (twist / other curves): first few by brute force
func otherCurvePoints() [][]byte {
	var out [][]byte
	for _, b := range []int64{0, 1, 2, 3, 4, 5, 6, 8, -7, 14} {
		cnt := 0
		for x := int64(1); x < 200 && cnt < 2; x++ {
			xx := big.NewInt(x)
			rhs := ref.FpAdd(ref.FpMul(ref.FpSqr(xx), xx), ref.ModP(big.NewInt(b)))
			y, ok := ref.FpSqrt(rhs)
			if !ok || ref.OnCurveXY(xx, y) {
				continue
			}
			cnt++
			u := append([]byte{4}, append(ref.B32(xx), ref.B32(y)...)...)
			out = append(out, u)
			out = append(out, append([]byte{2 + byte(y.Bit(0))}, ref.B32(xx)...))
		}
	}
	return out
}

func main() {
	R = mc.New("C10")
	register()
	mc.MaybeReplay()
	R.Rule("states = distinct key pairs / key byte strings / (point, representative) inputs; a transition is one ECDH exchange (both directions) or one key import with all accessors compared with the reference point / scalar; non-trivial = pairs with a boundary scalar, and rejected or other-curve key strings")
	R.Assume("math/big; /verif/ref curve arithmetic and SEC 1 codec (validated on Wycheproof ECDH vectors)")
	R.Config("amd64 default build")
	th := R.Thorough()
	one := big.NewInt(1)
	nm1 := new(big.Int).Sub(ref.N, one)
	sc := []*big.Int{one, big.NewInt(2), big.NewInt(3), nm1, new(big.Int).Sub(ref.N, big.NewInt(2)), ref.HalfN, new(big.Int).Add(ref.HalfN, one), ref.Lambda, ref.ZnNeg(ref.Lambda),
		ref.ZnMul(ref.Lambda, ref.Lambda), new(big.Int).Lsh(one, 127), new(big.Int).Lsh(one, 128), new(big.Int).Lsh(one, 255), big.NewInt(15), big.NewInt(16), big.NewInt(0xff00),
		ref.ModN(ref.Gx), ref.ModN(ref.P)}
	if th {
		for i := 0; i < 6; i++ {
			sc = append(sc, ref.ModN(ref.OS2IP(ref.TaggedHash("verif/C10", []byte{byte(i)}))))
		}
	}
	// GLV-steered private scalars (rounding-bit / limb-carry boundaries of the endomorphism split): ECDH runs
	// the variable-base multiply with the PRIVATE key as the scalar
	for _, v := range mc.GLVScalars(false) {
		if strings.HasPrefix(v.Label, "rounding") || strings.HasPrefix(v.Label, "quotient") || (th && strings.HasPrefix(v.Label, "GLV corner")) {
			if strings.Contains(v.Label, "m=ffffffffffffffff,") || strings.Contains(v.Label, "m=0,") || th {
				sc = append(sc, v.V)
			}
		}
	}
	R.Bound("scalars", len(sc))
	R.Bound("key_import_formats", "uncompressed, compressed, SPKI(uncompressed), SPKI(compressed), point with Z != 1, point with Z = 1")
	type pr struct{ i, j int }
	var prs []pr
	for i := range sc {
		for j := range sc {
			prs = append(prs, pr{i, j})
		}
	}
	mc.Par(len(prs), func(k int) {
		a, b := sc[prs[k].i], sc[prs[k].j]
		for f := 0; f < 6; f++ {
			if !th && f > 0 && (k+f)%3 != 0 {
				continue
			}
			R.T(3)
			if m := mc.Safe(func() string { return runECDH(a, b, f) }); m != "" {
				R.Mismatch(fmt.Sprintf("ecdh/format=%d", f), "ecdh", m, mc.D{"a": mc.HexBig(a), "b": mc.HexBig(b), "format": f})
			}
		}
		h := mc.HS("pair", a.String(), b.String())
		R.State(h)
		if ref.ZnMul(a, b).Cmp(one) == 0 || a.Cmp(nm1) == 0 || b.Cmp(nm1) == 0 {
			R.NT(h)
		}
		R.Class("ecdh/ordered key pairs", 1)
	})
	R.Sample("ecdh", map[string]any{"a": "n-1", "b": "lambda", "expect": "ECDH(a,B) = ECDH(b,A) = x((ab)G)"})

	// private key candidates: every length 0..34 and boundary values
	var privs [][]byte
	for L := 0; L <= 34; L++ {
		for _, f := range []byte{0x00, 0x01, 0xff} {
			privs = append(privs, bytes.Repeat([]byte{f}, L))
		}
		b := make([]byte, L)
		if L > 0 {
			b[L-1] = 1
		}
		privs = append(privs, b)
	}
	for _, v := range []*big.Int{big.NewInt(0), one, nm1, ref.N, new(big.Int).Add(ref.N, one), new(big.Int).Sub(ref.R256, one), ref.P, ref.HalfN} {
		privs = append(privs, ref.B32(v))
	}
	for _, v := range sc {
		privs = append(privs, ref.B32(v))
	}
	for k := uint(0); k < 256; k++ { // limb-structured candidates around n and 2^256
		p2 := new(big.Int).Lsh(one, k)
		for _, v := range []*big.Int{new(big.Int).Sub(ref.N, p2), new(big.Int).Sub(new(big.Int).Sub(ref.R256, one), p2), new(big.Int).Add(ref.N, p2)} {
			if v.Sign() >= 0 && v.BitLen() <= 256 && k%3 == 0 {
				privs = append(privs, ref.B32(v))
			}
		}
	}
	for _, b := range privs {
		v := ref.OS2IP(b)
		if len(b) == 32 && v.Sign() > 0 && v.Cmp(ref.N) < 0 {
			R.Class("private key candidate/accept", 1)
		} else {
			R.Class("private key candidate/reject", 1)
			R.NT(mc.H([]byte("priv"), b))
		}
		R.State(mc.H([]byte("priv"), b))
		R.Run("NewPrivateKey", "priv", mc.D{"bytes": mc.Hex(b)})
	}
	if k, err := secec.NewPrivateKeyFromScalar(secp256k1.NewScalar()); err == nil || k != nil {
		R.Fail("NewPrivateKeyFromScalar(0)", "misc", map[string]any{"what": "zero scalar accepted"}, nil)
	}
	R.T(1)

	// public key strings: SEC 1 corpus in every format + other-curve points
	pts := mc.PointAlphabet(map[bool]int{false: 3, true: 8}[th], R.Seed, 2)
	seen := map[string]bool{}
	var pubs [][]byte
	add := func(b []byte) {
		if !seen[string(b)] {
			seen[string(b)] = true
			pubs = append(pubs, b)
		}
	}
	for _, b := range mc.SEC1Extras() { // limb near misses of the curve equation, aliases over the whole non-canonical window
		add(b)
	}
	for _, p := range pts {
		if p.P.Inf {
			add([]byte{0})
			continue
		}
		u, c := p.P.Uncompressed(), p.P.Compressed()
		add(u)
		add(c)
		for _, pre := range []byte{0, 1, 2, 3, 4, 5, 6, 7, 0xff} {
			add(append([]byte{pre}, u[1:]...))
			add(append([]byte{pre}, c[1:]...))
		}
		if v := new(big.Int).Add(p.P.X, ref.P); v.BitLen() <= 256 {
			add(append([]byte{c[0]}, ref.B32(v)...))
			add(append(append([]byte{4}, ref.B32(v)...), ref.B32(p.P.Y)...))
		}
		if v := new(big.Int).Add(p.P.Y, ref.P); v.BitLen() <= 256 {
			add(append(append([]byte{4}, ref.B32(p.P.X)...), ref.B32(v)...))
			if w := new(big.Int).Add(p.P.X, ref.P); w.BitLen() <= 256 {
				add(append(append([]byte{4}, ref.B32(w)...), ref.B32(v)...))
			}
		}
		bad := append([]byte{}, u...)
		bad[64] ^= 1
		add(bad)
		add(u[:64])
		add(append(append([]byte{}, u...), 0))
		add(c[:32])
		add(append(append([]byte{}, c...), 0))
	}
	for _, b := range otherCurvePoints() {
		add(b)
	}
	add([]byte{})
	add(bytes.Repeat([]byte{0}, 33))
	add(bytes.Repeat([]byte{0}, 65))
	mc.Par(len(pubs), func(i int) {
		b := pubs[i]
		w, err := ref.DecodePoint(b)
		R.T(2)
		switch {
		case err == nil && !w.Inf:
			R.Class("public key string/accept", 1)
		case err == nil:
			R.Class("public key string/identity (reject)", 1)
		default:
			R.Class("public key string/reject", 1)
		}
		h := mc.H([]byte("pub"), b)
		R.State(h)
		R.NT(h)
		if m := mc.Safe(func() string { return runPub(b) }); m != "" {
			R.Mismatch("NewPublicKey", "pub", m, mc.D{"bytes": mc.Hex(b)})
		}
	})
	R.Class("public key string/other-curve points", int64(len(otherCurvePoints())))
	R.Sample("public key string", map[string]any{"bytes": mc.Hex(pubs[len(pubs)-5])})

	// NewPublicKeyFromPoint over representatives, identity included
	zs := mc.ZReps(R.Seed, 1)
	for _, p := range pts {
		for _, z := range zs {
			R.Run("NewPublicKeyFromPoint", "frompoint", mc.D{"q": lib.PtHex(p.P), "z": fmt.Sprintf("%x", z.V)})
		}
	}
	// the coordinate route to a key object: NewPointFromCoords with a non-canonical coordinate (x+p or y+p still fits
	// 32 bytes for the alphabet's points with a tiny coordinate) must fail, so no key can come from it
	for _, p := range mc.PointAlphabet(3, R.Seed, 2) {
		if p.P.Inf {
			continue
		}
		for ci, c := range []*big.Int{p.P.X, p.P.Y} {
			alias := new(big.Int).Add(c, ref.P)
			if alias.BitLen() > 256 {
				continue
			}
			xb, yb := ref.A32(p.P.X), ref.A32(p.P.Y)
			if ci == 0 {
				xb = ref.A32(alias)
			} else {
				yb = ref.A32(alias)
			}
			R.T(1)
			R.Class("coordinate route/non-canonical coordinate", 1)
			pt, err := secp256k1.NewPointFromCoords(xb, yb)
			if err == nil || pt != nil {
				k, kerr := secec.NewPublicKeyFromPoint(pt)
				R.Fail("NewPointFromCoords -> key object", "misc", map[string]any{"point": p.Label, "coordinate": []string{"x", "y"}[ci], "what": fmt.Sprintf("a coordinate string >= p (value + p) was accepted; NewPublicKeyFromPoint then gives key=%v err=%v", k != nil, kerr)}, nil)
			}
		}
	}
	// RecoverPublicKey as a route to a key object: recovered point t*G for t = 0 (identity: refused) and small / boundary t
	for _, e := range []*big.Int{big.NewInt(0), big.NewInt(1), ref.ModN(ref.OS2IP(ref.TaggedHash("verif/C10", []byte("e")))), new(big.Int).Sub(ref.N, big.NewInt(1))} {
		for _, k := range []int64{1, 2, 3, 7} {
			for _, t := range []*big.Int{big.NewInt(0), big.NewInt(1), big.NewInt(2), new(big.Int).Sub(ref.N, big.NewInt(1)), ref.HalfN} {
				R.Run("RecoverPublicKey -> key object", "recover", mc.D{"e": mc.HexBig(e), "k": mc.HexBig(big.NewInt(k)), "t": mc.HexBig(t)})
			}
		}
	}
	// Equal matrix over a few points
	for i, a := range pts {
		for j, b := range pts {
			if a.P.Inf || b.P.Inf || (i+j)%3 != 0 {
				continue
			}
			R.Run("PublicKey.Equal", "equalmatrix", mc.D{"a": lib.PtHex(a.P), "b": lib.PtHex(b.P)})
		}
	}
	// key generation with crypto/rand.Reader replaced by scripted candidate streams (sequential; process-global):
	// the key must be exactly the first candidate in [1,n) - never a reduced out-of-range candidate
	{
		type gs struct {
			cands []*big.Int
			want  *big.Int
		}
		nm1 := new(big.Int).Sub(ref.N, big.NewInt(1))
		max := new(big.Int).Sub(ref.R256, big.NewInt(1))
		streams := []gs{
			{[]*big.Int{big.NewInt(5)}, big.NewInt(5)}, {[]*big.Int{ref.N, big.NewInt(7)}, big.NewInt(7)}, {[]*big.Int{big.NewInt(0), nm1}, nm1},
			{[]*big.Int{new(big.Int).Add(ref.N, big.NewInt(5)), max, big.NewInt(0), big.NewInt(9)}, big.NewInt(9)},
			{[]*big.Int{max, max, max, max, max, max, max, big.NewInt(3)}, big.NewInt(3)},
			{[]*big.Int{max, max, max, max, max, max, max, max, big.NewInt(3)}, nil}, // retry limit (8) exhausted: must fail
		}
		for si, st := range streams {
			var data []byte
			for _, c := range st.cands {
				data = append(data, ref.B32(c)...)
			}
			data = append(data, bytes.Repeat([]byte{0x11}, 64)...)
			old := crand.Reader
			crand.Reader = bytes.NewReader(data)
			k, err := secec.GenerateKey()
			crand.Reader = old
			R.T(1)
			bad := ""
			switch {
			case st.want == nil && (err == nil || k != nil):
				bad = "all candidates up to the retry limit out of range, yet a key was generated"
			case st.want != nil && err != nil:
				bad = "GenerateKey failed although an in-range candidate was available: " + err.Error()
			case st.want != nil && !bytes.Equal(k.Bytes(), ref.B32(st.want)):
				bad = fmt.Sprintf("generated key %x, expected exactly the first in-range candidate %x (out-of-range candidates must be discarded, not reduced)", k.Bytes(), st.want)
			}
			if bad != "" {
				R.Fail(fmt.Sprintf("GenerateKey/scripted system RNG/stream %d", si), "misc", map[string]any{"stream": si, "what": bad}, nil)
			}
		}
		R.Class("generated keys (scripted crypto/rand.Reader candidate streams)", int64(len(streams)))
	}
	// key generation from the system entropy source: valid, consistent, not repeating
	var gen [][]byte
	for i := 0; i < 4; i++ {
		k, err := secec.GenerateKey()
		R.T(1)
		if err != nil {
			R.Fail("GenerateKey", "misc", map[string]any{"err": err.Error()}, nil)
			continue
		}
		dv := ref.OS2IP(k.Bytes())
		if dv.Sign() == 0 || dv.Cmp(ref.N) >= 0 {
			R.Fail("GenerateKey/range", "misc", map[string]any{"scalar": mc.Hex(k.Bytes())}, nil)
			continue
		}
		if m := checkPub(k.PublicKey(), ref.BaseMul(dv)); m != "" {
			R.Fail("GenerateKey/public key", "misc", map[string]any{"mismatch": m}, nil)
		}
		for _, g := range gen {
			if bytes.Equal(g, k.Bytes()) {
				R.Fail("GenerateKey/repeats", "misc", map[string]any{"what": "two generated keys are equal"}, nil)
			}
		}
		gen = append(gen, k.Bytes())
		sk, err := bitcoin.GenerateSchnorrKey()
		if err != nil || len(sk.PublicKey().Bytes()) != 32 || !bytes.Equal(sk.PublicKey().Bytes(), ref.B32(ref.BaseMul(ref.OS2IP(sk.Bytes())).X)) {
			R.Fail("GenerateSchnorrKey", "misc", map[string]any{"what": "generated Schnorr key is inconsistent"}, nil)
		}
	}
	R.Class("generated keys (system entropy)", 4)
	R.Expect("ecdh/ordered key pairs", "private key candidate/accept", "private key candidate/reject", "public key string/accept", "public key string/reject", "public key string/identity (reject)", "public key string/other-curve points")
	// cold start: key import and ECDH as the first library operations of a fresh process
	for f := 0; f < 3; f++ {
		R.Cold("ecdh", "ecdh", mc.D{"a": mc.HexBig(big.NewInt(0x1337)), "b": mc.HexBig(new(big.Int).Sub(ref.N, big.NewInt(6))), "format": f})
	}
	R.Cold("pub/compressed", "pub", mc.D{"bytes": mc.Hex(ref.G().Mul(big.NewInt(6)).Compressed())})
	R.Cold("pub/uncompressed", "pub", mc.D{"bytes": mc.Hex(ref.G().Mul(big.NewInt(9)).Uncompressed())})
	R.Finish()
}
