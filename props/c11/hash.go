package main

import (
	"crypto"
	_ "crypto/sha256"
	_ "crypto/sha512"
)

type cryptoHash = crypto.Hash

const (
	sha256ID = crypto.SHA256
	sha512ID = crypto.SHA512
)
