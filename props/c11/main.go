// C11 — public-key recovery returns exactly the key the signature verifies under.
//
// All (digest, r, s, v) over code-derived alphabets with v ranging over all
// 0..255, against SEC 1 4.1.6 for an explicit recovery id.
package main

import (
	"bytes"
	"fmt"
	"math/big"

	"gitlab.com/yawning/secp256k1-voi/secec"
	"gitlab.com/yawning/secp256k1-voi/secec/bitcoin"

	"verif/lib"
	"verif/mc"
	"verif/ref"
)

var R *mc.Report

func runRecover(digest []byte, r, s *big.Int, v int) string {
	want, werr := ref.ECDSARecover(digest, r, s, v)
	dg := append([]byte{}, digest...)
	rs, ss := lib.MkSC(r), lib.MkSC(s)
	var pk *secec.PublicKey
	var err error
	if pn := lib.Try(func() { pk, err = secec.RecoverPublicKey(dg, rs, ss, byte(v)) }); pn != "" {
		return "panic: " + pn
	}
	if !bytes.Equal(dg, digest) || !bytes.Equal(rs.Bytes(), ref.B32(r)) || !bytes.Equal(ss.Bytes(), ref.B32(s)) {
		return "operands modified"
	}
	// recovery is a function of (digest, r, s, id): the same question asked again straight away - after a failure as
	// well as after a success - gets the same answer
	for n := 2; n <= 3; n++ {
		var pk2 *secec.PublicKey
		var err2 error
		if pn := lib.Try(func() { pk2, err2 = secec.RecoverPublicKey(dg, rs, ss, byte(v)) }); pn != "" {
			return "panic: " + pn
		}
		if (err == nil) != (err2 == nil) || (err == nil && !bytes.Equal(pk.Bytes(), pk2.Bytes())) {
			return fmt.Sprintf("call #%d with the same arguments answers differently from call #1 (err %v vs %v): the result depends on the call history", n, err2, err)
		}
	}
	if werr != nil {
		if err == nil {
			return fmt.Sprintf("returned key %x where recovery must fail", pk.Bytes())
		}
		if pk != nil {
			return "error with non-nil key"
		}
		return ""
	}
	if err != nil {
		return "failed where Q = " + want.String() + " exists: " + err.Error()
	}
	if !bytes.Equal(pk.Bytes(), want.Uncompressed()) {
		return fmt.Sprintf("recovered %x, reference Q = %x", pk.Bytes(), want.Uncompressed())
	}
	if m := lib.CheckPointLight(pk.Point(), want); m != "" {
		return "Point(): " + m
	}
	// every returned Q verifies (r,s) on that digest: under the reference and under the implementation
	if !ref.ECDSAVerify(want, digest, r, s) {
		return "REFERENCE INCONSISTENCY: recovered key does not verify under the reference"
	}
	if !pk.VerifyRaw(dg, rs, ss) {
		return "recovered key does not verify the signature (VerifyRaw)"
	}
	// the recoverable Verify path agrees
	sig := append(append(ref.B32(r), ref.B32(s)...), byte(v))
	if !pk.Verify(dg, sig, &secec.ECDSAOptions{Encoding: secec.EncodingCompactRecoverable, Hash: hashFor(len(dg))}) && hashFor(len(dg)) != 0 {
		return "Verify(recoverable) rejects the signature under its own recovered key"
	}
	return ""
}

// runSignRecover: "for a signature produced by Sign the emitted id recovers the signer and no other id does" - the
// signer is a key OBJECT with a life: built from a scalar the caller goes on using, asked for its scalar / bytes (which
// the caller then modifies in place, as in child-key derivation), used to derive a Schnorr key, and only then signing.
func runSignRecover(d *big.Int, digest []byte, rfc bool) string {
	own := lib.MkSC(d)
	k, err := secec.NewPrivateKeyFromScalar(own)
	if err != nil {
		return "NewPrivateKeyFromScalar: " + err.Error()
	}
	own.Add(own, lib.MkSC(big.NewInt(1)))
	h := k.Scalar()
	h.Add(h, lib.MkSC(big.NewInt(5)))
	b := k.Bytes()
	b[31] ^= 1
	_ = bitcoin.NewSchnorrPrivateKeyFromECDSA(k)
	q := ref.BaseMul(d)
	if !bytes.Equal(k.PublicKey().Bytes(), q.Uncompressed()) {
		return "the signer's public key is not d*G"
	}
	var rd interface{ Read([]byte) (int, error) } = mc.Script{Src: "counter", Mode: "full", FailAfter: -1}.New()
	if rfc {
		rd = secec.RFC6979SHA256()
	}
	rs, ss, v, err := k.SignRaw(rd, digest)
	if err != nil {
		return "SignRaw: " + err.Error()
	}
	if !ref.ECDSAVerify(q, digest, lib.SCVal(rs), lib.SCVal(ss)) {
		return "the signature does not verify under d*G (reference): the key object no longer signs with the scalar it was built from"
	}
	for id := 0; id < 256; id++ {
		pk, err := secec.RecoverPublicKey(digest, rs, ss, byte(id))
		is := err == nil && pk.Equal(k.PublicKey()) && bytes.Equal(pk.Bytes(), q.Uncompressed())
		if id == int(v) && !is {
			return fmt.Sprintf("the emitted recovery id %d does not recover the signer's public key", v)
		}
		if id != int(v) && is {
			return fmt.Sprintf("recovery id %d (emitted: %d) also recovers the signer", id, v)
		}
	}
	return ""
}

func register() {
	mc.Register("signrecover", func(d mc.D) string { return runSignRecover(d.Big("d"), d.B("digest"), d.Bool("rfc6979")) })
	mc.Register("recover", func(d mc.D) string { return runRecover(d.B("digest"), d.Big("r"), d.Big("s"), d.I("v")) })
}

func main() {
	R = mc.New("C11")
	register()
	mc.MaybeReplay()
	R.Rule("states = distinct (digest, r, s) triples; a transition is one RecoverPublicKey call for one recovery id (all ids 0..255 per triple), run on the implementation and on the SEC 1 4.1.6 reference, followed by verification of every returned key; non-trivial = triples whose id space contains a valid second candidate, an overflowing second candidate, a non-x-coordinate, or Q = infinity")
	R.Assume("math/big; /verif/ref ECDSA recovery (literal 4.1.6 with explicit id)")
	R.Config("amd64 default build")
	th := R.Thorough()
	one := big.NewInt(1)
	nm1 := new(big.Int).Sub(ref.N, one)
	pn := new(big.Int).Sub(ref.P, ref.N)

	// r alphabet
	var rs []*big.Int
	seen := map[string]bool{}
	addr := func(v *big.Int) {
		v = ref.ModN(v)
		if !seen[v.String()] {
			seen[v.String()] = true
			rs = append(rs, v)
		}
	}
	pts := mc.PointAlphabet(map[bool]int{false: 2, true: 6}[th], R.Seed, 2)
	for _, p := range pts {
		if !p.P.Inf {
			addr(p.P.X)
		}
	}
	for _, d := range []int64{-1, 0, 1} {
		addr(new(big.Int).Add(pn, big.NewInt(d)))
	}
	addr(big.NewInt(0))
	addr(big.NewInt(5))
	addr(nm1)
	// x-coordinates just below p-n: the second candidate x = r+n is < p
	x := new(big.Int).Sub(pn, big.NewInt(60))
	cnt := 0
	for i := 0; i < 400 && cnt < 4; i++ {
		if _, ok := ref.LiftX(new(big.Int).Add(x, ref.N), 0); ok {
			addr(x) // r + n is an x-coordinate (r itself may or may not be)
			cnt++
		}
		x.Add(x, one)
	}
	// r < p-n with r+n an x-coordinate, of every size (the second candidate is computed by a multi-limb addition and
	// range check: small r, r around each limb boundary, r close to p-n)
	for _, start := range []*big.Int{big.NewInt(1), new(big.Int).Lsh(one, 63), new(big.Int).Lsh(one, 64), new(big.Int).Sub(new(big.Int).Lsh(one, 127), big.NewInt(40)), new(big.Int).Lsh(one, 127), new(big.Int).Lsh(one, 128), new(big.Int).Rsh(pn, 1)} {
		x := new(big.Int).Set(start)
		for found, i := 0, 0; i < 400 && found < 2; i++ {
			if _, ok := ref.LiftX(new(big.Int).Add(x, ref.N), 0); ok && x.Cmp(pn) < 0 {
				addr(x)
				found++
			}
			x.Add(x, one)
		}
	}
	svals := []*big.Int{one, big.NewInt(2), nm1, ref.HalfN, new(big.Int).Add(ref.HalfN, one), big.NewInt(0)}
	// scalars whose STORED (Montgomery) limbs look like a small integer: 2^-256 mod n is stored as {1,0,0,0} (a test for
	// "is one" / "is small" on raw limbs takes it for 1), 2^-64 mod n as {0,0,0,1}
	rinv := new(big.Int).ModInverse(ref.R256, ref.N)
	wOne := new(big.Int).Set(rinv)
	wTop := ref.ModN(new(big.Int).Mul(rinv, new(big.Int).Lsh(one, 192)))
	svals = append(svals, wOne, wTop)
	sha := func(s string) []byte { return ref.TaggedHash("verif/C11", []byte(s)) }
	digests := [][]byte{sha("a"), make([]byte, 32), bytes.Repeat([]byte{0xff}, 32), ref.B32(ref.N), ref.B32(one), append(sha("a"), 1, 2, 3), sha("a")[:31], {}, append(sha("b"), sha("c")...)}
	// e = -(2^-256): the other operand position of the scalar multiplications; and digests longer than any hash output
	// (only the leftmost 256 bits count: recovery and verification accept the same digests)
	digests = append(digests, ref.B32(new(big.Int).Sub(ref.N, wOne)), append(append(sha("b"), sha("c")...), 0x01), bytes.Repeat(sha("d"), 4))
	if !th {
		digests = append(append([][]byte{}, digests[:7]...), digests[9:]...)
	}
	type tc struct {
		dg   []byte
		r, s *big.Int
		cls  string
	}
	var cases []tc
	for _, r := range rs {
		for si, s := range svals {
			for di, dg := range digests {
				if !th && (si+di)%2 == 1 && si > 1 {
					continue
				}
				cases = append(cases, tc{dg, r, s, "alphabet"})
			}
		}
	}
	// constructed: s R = e G  (R = kG, e = s k)  =>  Q = infinity for the id of R (and -R)
	for _, k := range []*big.Int{one, big.NewInt(2), big.NewInt(3), ref.HalfN, nm1, ref.Lambda} {
		rp := ref.BaseMul(k)
		r := ref.ModN(rp.X)
		for _, s := range []*big.Int{one, big.NewInt(7), ref.HalfN, nm1} {
			e := ref.ZnMul(s, k)
			cases = append(cases, tc{ref.B32(e), r, s, "constructed sR = eG (Q = infinity)"})
			if en := new(big.Int).Add(e, ref.N); en.BitLen() <= 256 {
				cases = append(cases, tc{ref.B32(en), r, s, "constructed sR = eG with e >= n in the digest"})
			}
		}
	}
	// s/r on the GLV rounding / limb-carry boundaries of the variable-base multiply used by recovery
	for gi, gv := range mc.GLVVerifierSubset(th) {
		rp := ref.BaseMul(big.NewInt(int64(5 + gi%3)))
		r := ref.ModN(rp.X)
		cases = append(cases, tc{digests[0], r, ref.ZnMul(gv.V, r), "s/r on a GLV rounding boundary"})
	}
	// reference-signed signatures: exactly the emitted id recovers the signer
	for _, d := range []*big.Int{one, big.NewInt(2), nm1, ref.Lambda, ref.HalfN} {
		for _, dg := range digests[:3] {
			r, s, _ := ref.ECDSASignRFC6979(d, dg)
			cases = append(cases, tc{dg, r, s, "reference-signed"})
			cases = append(cases, tc{dg, r, new(big.Int).Sub(ref.N, s), "reference-signed, high s"})
		}
	}
	// signatures produced by Sign on key objects with a history (see runSignRecover)
	for _, d := range []*big.Int{one, big.NewInt(2), big.NewInt(6), nm1, ref.Lambda, ref.HalfN} {
		for _, dg := range digests[:3] {
			if len(dg) < 32 {
				continue
			}
			for _, rfc := range []bool{false, true} {
				R.T(257)
				R.Class("signed by the library on a key object with a history; all 256 ids", 1)
				R.Run("sign+recover/key object history", "signrecover", mc.D{"d": mc.HexBig(d), "digest": mc.Hex(dg), "rfc6979": rfc})
			}
		}
	}
	R.Bound("triples", len(cases))
	R.Bound("recovery_ids", "all 0..255 for every triple")
	R.Bound("r_values", len(rs))
	mc.Par(len(cases), func(i int) {
		c := cases[i]
		nOK := 0
		for v := 0; v < 256; v++ {
			_, err := ref.ECDSARecover(c.dg, c.r, c.s, v)
			switch {
			case err == nil:
				nOK++
				if v&2 != 0 {
					R.Class("recovers via second candidate (x = r+n)", 1)
				} else {
					R.Class("recovers", 1)
				}
			case v > 3:
				R.Class("fails: id > 3", 1)
			default:
				R.Class("fails: id <= 3", 1)
			}
			if m := mc.Safe(func() string { return runRecover(c.dg, c.r, c.s, v) }); m != "" {
				R.Mismatch(fmt.Sprintf("recover/%s/v&3=%d/v>3=%v", c.cls, v&3, v > 3), "recover", m, mc.D{"digest": mc.Hex(c.dg), "r": mc.HexBig(c.r), "s": mc.HexBig(c.s), "v": v, "class": c.cls})
			}
		}
		R.T(256)
		R.Class(c.cls, 1)
		h := mc.H(c.dg, c.r.Bytes(), c.s.Bytes())
		R.State(h)
		if nOK > 0 || c.cls != "alphabet" {
			R.NT(h)
		}
		if c.cls == "constructed sR = eG (Q = infinity)" {
			// the id of R itself must fail
			rp, _ := ref.LiftX(c.r, 0)
			_ = rp
		}
		if R.WantSample(c.cls) {
			R.Sample(c.cls, map[string]any{"digest": mc.Hex(c.dg), "r": mc.HexBig(c.r), "s": mc.HexBig(c.s), "ids": "0..255", "ids_that_recover_a_key": nOK})
		}
	})
	R.Expect("s/r on a GLV rounding boundary", "recovers", "recovers via second candidate (x = r+n)", "fails: id > 3", "fails: id <= 3", "constructed sR = eG (Q = infinity)", "reference-signed")
	R.Finish()
}

func hashFor(n int) cryptoHash {
	switch n {
	case 32:
		return sha256ID
	case 64:
		return sha512ID
	}
	return 0
}
