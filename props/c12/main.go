// C12 — signature and key wire formats are strict, canonical and panic-free.
//
// Grammar skeletons x bounded deviations through every parser, against strict
// recognisers written from the grammars (X.690 DER, BIP-66 text, SEC 1 / RFC 5480).
package main

import (
	"bytes"
	"fmt"
	"math/big"
	"os"
	"sync/atomic"
	"time"

	secp256k1 "gitlab.com/yawning/secp256k1-voi"
	"gitlab.com/yawning/secp256k1-voi/secec"
	"gitlab.com/yawning/secp256k1-voi/secec/bitcoin"

	"verif/lib"
	"verif/mc"
	"verif/ref"
)

var R *mc.Report

// ---------------------------------------------------------------- runners

func scEq(s *secp256k1.Scalar, v *big.Int) bool {
	return s != nil && bytes.Equal(s.Bytes(), ref.B32(v))
}

// runDER: ParseASN1Signature vs the strict recogniser; build-after-parse identity.
func runDER(b []byte) string {
	in := append([]byte{}, b...)
	wr, ws, wok := ref.DERParseSig(b)
	var r, s *secp256k1.Scalar
	var err error
	if pn := lib.Try(func() { r, s, err = secec.ParseASN1Signature(in) }); pn != "" {
		return "panic: " + pn
	}
	if !bytes.Equal(in, b) {
		return "input modified"
	}
	if !wok {
		if err == nil {
			return fmt.Sprintf("accepted a string that is not the strict-DER encoding of (r,s) in [1,n): parsed r=%x s=%x", r.Bytes(), s.Bytes())
		}
		if r != nil || s != nil {
			return "error with non-nil scalars"
		}
		return ""
	}
	if err != nil {
		return "rejected a canonical encoding: " + err.Error()
	}
	if !scEq(r, wr) || !scEq(s, ws) {
		return "parsed values differ from the reference"
	}
	if re := secec.BuildASN1Signature(r, s); !bytes.Equal(re, b) {
		return fmt.Sprintf("build-after-parse is not the identity: %x", re)
	}
	return ""
}

// runRS: build-then-parse identity in all three formats for (r,s,v), r,s in [1,n).
func runRS(rv, sv *big.Int, v byte) string {
	r, s := lib.MkSC(rv), lib.MkSC(sv)
	der := secec.BuildASN1Signature(r, s)
	if !bytes.Equal(der, ref.DERBuildSig(rv, sv)) {
		return fmt.Sprintf("BuildASN1Signature = %x, canonical DER = %x", der, ref.DERBuildSig(rv, sv))
	}
	r2, s2, err := secec.ParseASN1Signature(der)
	if err != nil || !scEq(r2, rv) || !scEq(s2, sv) {
		return "ASN.1 build-then-parse is not the identity"
	}
	c := secec.BuildCompactSignature(r, s)
	if !bytes.Equal(c, append(ref.B32(rv), ref.B32(sv)...)) {
		return "BuildCompactSignature wrong"
	}
	r3, s3, err := secec.ParseCompactSignature(c)
	if err != nil || !scEq(r3, rv) || !scEq(s3, sv) {
		return "compact build-then-parse is not the identity"
	}
	cr := secec.BuildCompactRecoverableSignature(r, s, v)
	if !bytes.Equal(cr, append(append(ref.B32(rv), ref.B32(sv)...), v)) {
		return "BuildCompactRecoverableSignature wrong"
	}
	r4, s4, v4, err := secec.ParseCompactRecoverableSignature(cr)
	if err != nil || !scEq(r4, rv) || !scEq(s4, sv) || v4 != v {
		return "recoverable build-then-parse is not the identity"
	}
	if !scEq(r, rv) || !scEq(s, sv) {
		return "Build* modified its operands"
	}
	// retained outputs: building ANOTHER signature must not change bytes handed out earlier
	keep := [][]byte{der, c, cr}
	copies := [][]byte{append([]byte{}, der...), append([]byte{}, c...), append([]byte{}, cr...)}
	o1, o2 := lib.MkSC(big.NewInt(0x1234)), lib.MkSC(ref.HalfN)
	secec.BuildASN1Signature(o1, o2)
	secec.BuildCompactSignature(o1, o2)
	secec.BuildCompactRecoverableSignature(o1, o2, 2)
	for i := range keep {
		if !bytes.Equal(keep[i], copies[i]) {
			return "bytes returned by an earlier Build* call changed when another signature was built (shared backing array)"
		}
	}
	return ""
}

// runCompact: both compact parsers on an arbitrary string.
func runCompact(b []byte) string {
	in := append([]byte{}, b...)
	wr, ws, wok := ref.CompactParse(b)
	var r, s *secp256k1.Scalar
	var err error
	if pn := lib.Try(func() { r, s, err = secec.ParseCompactSignature(in) }); pn != "" {
		return "panic: " + pn
	}
	if wok != (err == nil) {
		return fmt.Sprintf("ParseCompactSignature: accepted=%v, reference=%v", err == nil, wok)
	}
	if wok && (!scEq(r, wr) || !scEq(s, ws) || !bytes.Equal(secec.BuildCompactSignature(r, s), b)) {
		return "ParseCompactSignature: values / re-encoding differ"
	}
	if !wok && (r != nil || s != nil) {
		return "error with non-nil scalars"
	}
	wr, ws, wv, wok := ref.CompactRecoverableParse(b)
	var v byte
	if pn := lib.Try(func() { r, s, v, err = secec.ParseCompactRecoverableSignature(in) }); pn != "" {
		return "panic: " + pn
	}
	if wok != (err == nil) {
		return fmt.Sprintf("ParseCompactRecoverableSignature: accepted=%v, reference=%v", err == nil, wok)
	}
	if wok && (!scEq(r, wr) || !scEq(s, ws) || v != wv || !bytes.Equal(secec.BuildCompactRecoverableSignature(r, s, v), b)) {
		return "ParseCompactRecoverableSignature: values / re-encoding differ"
	}
	if !bytes.Equal(in, b) {
		return "input modified"
	}
	return ""
}

func runBIP66(b []byte) string {
	in := append([]byte{}, b...)
	want := ref.BIP66Valid(b)
	var got bool
	if pn := lib.Try(func() { got = bitcoin.IsValidSignatureEncodingBIP0066(in) }); pn != "" {
		return "panic: " + pn
	}
	if got != want {
		return fmt.Sprintf("IsValidSignatureEncodingBIP0066 = %v, BIP-66 grammar says %v", got, want)
	}
	if !bytes.Equal(in, b) {
		return "input modified"
	}
	// the verifier entry point that applies this grammar never panics on the same bytes, and accepts nothing the
	// grammar rejects (it may reject more: the signature must also verify)
	var v bool
	if pn := lib.Try(func() { v = bitcoin.VerifyASN1(bip66Key, bip66Digest, in) }); pn != "" {
		return fmt.Sprintf("bitcoin.VerifyASN1 panics on a %d-byte input: %s", len(b), pn)
	}
	if v && !want {
		return "bitcoin.VerifyASN1 accepts a string the BIP-66 grammar rejects"
	}
	if len(b) == 0 {
		if pn := lib.Try(func() { v = bitcoin.VerifyASN1(bip66Key, bip66Digest, nil) }); pn != "" || v {
			return "bitcoin.VerifyASN1(nil signature): panic / accepted: " + pn
		}
	}
	return ""
}

var (
	bip66Key    = lib.MkPub(ref.G().Mul(big.NewInt(0xc12)))
	bip66Digest = ref.TaggedHash("verif/C12", []byte("bip66 digest"))
)

func runSPKI(b []byte) string {
	in := append([]byte{}, b...)
	want, wok := ref.SPKIParse(b)
	var pk *secec.PublicKey
	var err error
	if pn := lib.Try(func() { pk, err = secec.ParseASN1PublicKey(in) }); pn != "" {
		return "panic: " + pn
	}
	if !bytes.Equal(in, b) {
		return "input modified"
	}
	if !wok {
		if err == nil {
			return fmt.Sprintf("accepted a structure the strict SubjectPublicKeyInfo recogniser rejects (key %x)", pk.Bytes())
		}
		if pk != nil {
			return "error with non-nil key"
		}
		return ""
	}
	if err != nil {
		return "rejected a valid SubjectPublicKeyInfo: " + err.Error()
	}
	if !bytes.Equal(pk.Bytes(), want.Uncompressed()) || !bytes.Equal(pk.CompressedBytes(), want.Compressed()) {
		return "parsed key differs from the reference point"
	}
	if m := lib.CheckPointLight(pk.Point(), want); m != "" {
		return "Point(): " + m
	}
	re := pk.ASN1Bytes()
	if !bytes.Equal(re, ref.SPKIBuild(want.Uncompressed())) {
		return fmt.Sprintf("ASN1Bytes is not the canonical uncompressed SubjectPublicKeyInfo: %x", re)
	}
	if len(b) == len(re) && !bytes.Equal(re, b) {
		return "re-encoding a parsed uncompressed key does not reproduce the input"
	}
	// history step: another key is encoded in between; the bytes handed out earlier must not change
	held := pk.ASN1Bytes()
	heldCopy := append([]byte{}, held...)
	other, _ := secec.NewPublicKey(ref.G().Mul(big.NewInt(0x4242)).Uncompressed())
	_ = other.ASN1Bytes()
	_ = other.Bytes()
	if !bytes.Equal(held, heldCopy) {
		return "bytes returned by ASN1Bytes() changed when another key was encoded (shared backing array)"
	}
	// history step: the caller reuses / wipes its input buffer after the parse; the key must not notice
	for i := range in {
		in[i] ^= 0xff
	}
	if !bytes.Equal(pk.ASN1Bytes(), re) || !bytes.Equal(pk.Bytes(), want.Uncompressed()) || !bytes.Equal(pk.CompressedBytes(), want.Compressed()) {
		return "key encodings changed after the caller overwrote the buffer it was parsed from (input is aliased, not copied)"
	}
	return ""
}

func register() {
	mc.Register("der", func(d mc.D) string { return runDER(d.B("bytes")) })
	mc.Register("rs", func(d mc.D) string { return runRS(d.Big("r"), d.Big("s"), byte(d.I("v"))) })
	mc.Register("compact", func(d mc.D) string { return runCompact(d.B("bytes")) })
	mc.Register("bip66", func(d mc.D) string { return runBIP66(d.B("bytes")) })
	mc.Register("spki", func(d mc.D) string { return runSPKI(d.B("bytes")) })
}

// batch runs one runner kind over a list of strings in parallel.
func batch(kind, key string, run func([]byte) string, list [][]byte, classify func([]byte) string) {
	var acc, rej atomic.Int64
	mc.Par(len(list), func(i int) {
		b := list[i]
		if m := run(b); m != "" {
			R.Mismatch(key+"/"+classify(b), kind, m, mc.D{"bytes": mc.Hex(b)})
		}
		c := classify(b)
		if c[0] == 'a' {
			acc.Add(1)
		} else {
			rej.Add(1)
		}
	})
	R.T(int64(len(list)))
	R.States(int64(len(list))) // lists are de-duplicated at construction
	R.NTs(acc.Load())
	R.Class(key+"/reference accepts", acc.Load())
	R.Class(key+"/reference rejects", rej.Load())
}

type strset struct {
	seen map[string]bool
	out  [][]byte
}

func (s *strset) add(b []byte) {
	if !s.seen[string(b)] {
		s.seen[string(b)] = true
		s.out = append(s.out, b)
	}
}

func newSet() *strset { return &strset{seen: map[string]bool{}} }

func cat(parts ...[]byte) []byte {
	var o []byte
	for _, p := range parts {
		o = append(o, p...)
	}
	return o
}

func tlv(tag byte, length []byte, content []byte) []byte { return cat([]byte{tag}, length, content) }

// rsBoundary: values for r and s (not all in range).
func rsBoundary() []*big.Int {
	one := big.NewInt(1)
	p2 := func(k uint) *big.Int { return new(big.Int).Lsh(one, k) }
	return []*big.Int{
		big.NewInt(0), one, big.NewInt(0x7f), big.NewInt(0x80), big.NewInt(0xff), big.NewInt(0x100), big.NewInt(0x7fff), big.NewInt(0x8000),
		new(big.Int).Sub(p2(247), one), p2(247), new(big.Int).Sub(p2(248), one), p2(248), new(big.Int).Sub(p2(255), one), p2(255),
		ref.HalfN, new(big.Int).Add(ref.HalfN, one), new(big.Int).Sub(ref.N, one), ref.N, new(big.Int).Add(ref.N, one), ref.P,
		new(big.Int).Sub(ref.R256, one), ref.R256, new(big.Int).Add(ref.R256, one),
		// canonical non-zero scalars whose STORED (Montgomery) limbs have half-word structure or a single low bit: a
		// zero test that folds 64 bits to 32, or skips a limb, takes them for zero and the parsers reject them
		storedAs(ref.N, [4]uint64{1<<33 - 1, 0, 0, 0}), storedAs(ref.N, [4]uint64{1 << 32, 0, 1<<32 - 1, 0}),
		storedAs(ref.N, [4]uint64{0, 0, 0, 0x8000000080000000}), storedAs(ref.N, [4]uint64{0, 0, 0, 1}),
	}
}

// storedAs returns the value below m whose stored representation (value * 2^256 mod m) has the given limbs.
func storedAs(m *big.Int, l [4]uint64) *big.Int {
	t := new(big.Int)
	for i := 3; i >= 0; i-- {
		t.Lsh(t, 64)
		t.Or(t, new(big.Int).SetUint64(l[i]))
	}
	rinv := new(big.Int).ModInverse(ref.R256, m)
	return t.Mul(t, rinv).Mod(t, m)
}

func derCorpus() [][]byte {
	s := newSet()
	vals := rsBoundary()
	var skels [][]byte
	for _, r := range vals {
		for _, sv := range vals {
			b := ref.DERBuildSig(r, sv)
			s.add(b)
			if r.Sign() > 0 && r.Cmp(ref.N) < 0 && sv.Sign() > 0 && sv.Cmp(ref.N) < 0 {
				skels = append(skels, b)
			}
		}
	}
	// structural variants around every in-range skeleton (length-form and integer-form changes)
	for _, sk := range skels {
		body := sk[2:]
		// re-split body into the two INTEGER TLVs
		lr := int(body[1])
		ri, si := body[:2+lr], body[2+lr:]
		rc, sc := ri[2:], si[2:]
		seqs := [][]byte{
			tlv(0x30, []byte{0x81, byte(len(body))}, body),               // long form where short fits
			tlv(0x30, []byte{0x82, 0, byte(len(body))}, body),            // 2-byte long form
			tlv(0x30, []byte{0x80}, cat(body, []byte{0, 0})),             // indefinite
			tlv(0x30, []byte{byte(len(body) + 1)}, body),                 // length +1
			tlv(0x30, []byte{byte(len(body) - 1)}, body),                 // length -1
			tlv(0x30, []byte{byte(len(body) + 1)}, cat(body, []byte{0})), // trailing byte inside
			cat(sk, []byte{0}),                                              // trailing byte outside
			tlv(0x31, []byte{byte(len(body))}, body),                        // SET
			tlv(0x10, []byte{byte(len(body))}, body),                        // non-constructed
			tlv(0x30, []byte{byte(len(body) + len(si))}, cat(body, si)),     // three integers
			tlv(0x30, []byte{byte(len(ri))}, ri),                            // one integer
			tlv(0x30, []byte{byte(len(body) + 2)}, cat(body, []byte{5, 0})), // trailing NULL inside
			tlv(0x30, []byte{byte(len(body))}, cat(si, ri)),                 // swapped (valid, other signature)
		}
		ints := func(c []byte) [][]byte {
			return [][]byte{
				tlv(0x02, []byte{byte(len(c) + 1)}, cat([]byte{0}, c)),           // extra leading zero
				tlv(0x02, []byte{0x81, byte(len(c))}, c),                         // long-form integer length
				tlv(0x02, []byte{byte(len(c))}, cat([]byte{c[0] | 0x80}, c[1:])), // negative
				tlv(0x02, []byte{0}, nil),                                        // zero-length integer
				tlv(0x03, []byte{byte(len(c))}, c),                               // wrong tag
				tlv(0x02, []byte{byte(len(c) + 1)}, cat(c, []byte{0})),           // value * 256
				tlv(0x02, []byte{byte(len(c) + 1)}, cat([]byte{0xff}, c)),        // negative padded
			}
		}
		for _, rv := range ints(rc) {
			b := cat(rv, si)
			seqs = append(seqs, tlv(0x30, ref.DERInt(big.NewInt(0))[1:2], nil)) // placeholder, replaced below
			seqs[len(seqs)-1] = tlv(0x30, []byte{byte(len(b))}, b)
		}
		for _, svv := range ints(sc) {
			b := cat(ri, svv)
			seqs = append(seqs, tlv(0x30, []byte{byte(len(b))}, b))
		}
		if rc[0] == 0 && len(rc) > 1 { // missing the mandatory zero: negative
			b := cat(tlv(0x02, []byte{byte(len(rc) - 1)}, rc[1:]), si)
			seqs = append(seqs, tlv(0x30, []byte{byte(len(b))}, b))
		}
		for _, q := range seqs {
			s.add(q)
		}
	}
	return s.out
}

func derDeviations(thorough bool) [][]byte {
	n1 := new(big.Int).Sub(ref.N, big.NewInt(1))
	skels := [][]byte{
		ref.DERBuildSig(big.NewInt(1), big.NewInt(1)),
		ref.DERBuildSig(big.NewInt(0x80), big.NewInt(0x7f)),
		ref.DERBuildSig(n1, big.NewInt(2)),
		ref.DERBuildSig(ref.HalfN, n1),
		ref.DERBuildSig(n1, n1),
		ref.DERBuildSig(new(big.Int).Lsh(big.NewInt(1), 248), new(big.Int).Sub(new(big.Int).Lsh(big.NewInt(1), 255), big.NewInt(1))),
		ref.DERBuildSig(ref.N, big.NewInt(1)), // out of range by value only
	}
	if thorough {
		skels = append(skels, ref.DERBuildSig(ref.Lambda, ref.Gx), ref.DERBuildSig(big.NewInt(0x7fff), ref.ModN(ref.Gy)),
			ref.DERBuildSig(big.NewInt(0xff), big.NewInt(0x100)), ref.DERBuildSig(ref.HalfN, ref.HalfN), ref.DERBuildSig(new(big.Int).Sub(ref.R256, big.NewInt(1)), n1))
	}
	s := newSet()
	for i, sk := range skels {
		mc.Subst1(sk, nil, func(b []byte, _ int, _ byte) { s.add(b) })
		mc.Truncations(sk, s.add)
		mc.Extensions(sk, []byte{0, 1, 0x30, 0xff}, 2, s.add)
		mc.Insert1(sk, mc.GrammarBytes, s.add)
		mc.Delete1(sk, s.add)
		if i < 2 || (thorough && i < 4) {
			vals := mc.GrammarBytes
			if !thorough {
				vals = []byte{0x00, 0x01, 0x02, 0x21, 0x30, 0x7f, 0x80, 0x81, 0xff}
			}
			mc.Subst2(sk, vals, s.add)
		}
	}
	return s.out
}

var bip66Skels [][]byte

func bip66Corpus(thorough bool) [][]byte {
	s := newSet()
	shapes := func(l int) [][]byte { // integer content shapes of length l
		if l == 0 {
			return [][]byte{{}}
		}
		mk := func(first, second byte) []byte {
			b := bytes.Repeat([]byte{0x55}, l)
			b[0] = first
			if l > 1 {
				b[1] = second
			}
			return b
		}
		return [][]byte{mk(0x01, 0x02), mk(0x00, 0x80), mk(0x00, 0x7f), mk(0x80, 0x00), mk(0x7f, 0xff), mk(0x00, 0x00)}
	}
	var skels [][]byte
	for total := 0; total <= 80; total++ {
		// consistent splits: total = 7 + lenR + lenS
		for lr := 0; lr <= total-7 && lr <= 40; lr++ {
			ls := total - 7 - lr
			if ls < 0 || ls > 40 {
				continue
			}
			if !thorough && lr > 3 && ls > 3 && lr != 32 && lr != 33 && ls != 32 && ls != 33 && (lr+ls)%7 != 0 {
				continue
			}
			for _, rc := range shapes(lr) {
				for _, sc := range shapes(ls) {
					b := cat([]byte{0x30, byte(total - 3), 0x02, byte(lr)}, rc, []byte{0x02, byte(ls)}, sc, []byte{0x01})
					skels = append(skels, b)
					s.add(b)
				}
			}
		}
		// plain fills of every length
		for _, f := range []byte{0x00, 0x30, 0x02, 0xff} {
			s.add(bytes.Repeat([]byte{f}, total))
		}
	}
	bip66Skels = skels
	return s.out
}

func spkiCorpus(pts []mc.PVal, thorough bool) [][]byte {
	s := newSet()
	g := ref.G()
	tU, tC := ref.SPKIBuild(g.Uncompressed()), ref.SPKIBuild(g.Compressed())
	s.add(tU)
	s.add(tC)
	hdrU, hdrC := len(tU)-64, len(tC)-32 // header incl. the point prefix byte
	for _, t := range [][]byte{tU, tC} {
		hdr := hdrU
		if len(t) == len(tC) {
			hdr = hdrC
		}
		// every header position x all 256 values
		mc.Subst1(t[:hdr], nil, func(b []byte, _ int, _ byte) { s.add(cat(b, t[hdr:])) })
		// two deviations over the alphabet in the header
		vals := []byte{0x00, 0x01, 0x03, 0x06, 0x30, 0x42, 0x80, 0x81, 0xff}
		if thorough {
			vals = mc.GrammarBytes
		}
		mc.Subst2(t[:hdr], vals, func(b []byte) { s.add(cat(b, t[hdr:])) })
		mc.Truncations(t, s.add)
		mc.Extensions(t, []byte{0, 1, 0xff}, 2, s.add)
		mc.Insert1(t[:hdr], []byte{0x00, 0x30, 0x81, 0x05}, func(b []byte) { s.add(cat(b, t[hdr:])) })
		mc.Delete1(t[:hdr], func(b []byte) { s.add(cat(b, t[hdr:])) })
		// one deviation in the payload, a few values
		mc.Subst1(t[hdr:], []byte{0x00, 0x01, 0xff}, func(b []byte, _ int, _ byte) { s.add(cat(t[:hdr], b)) })
	}
	// cross-template splices: every prefix of one template followed by every suffix-aligned payload of the
	// other kind (uncompressed header + compressed point, compressed header + uncompressed point, truncated
	// payloads behind full headers): two simultaneous deviations that single substitutions do not reach
	for _, pt := range []ref.Pt{g, g.Mul(big.NewInt(2)), g.Mul(big.NewInt(3))} {
		u, c := pt.Uncompressed(), pt.Compressed()
		s.add(cat(tU[:hdrU], c))
		s.add(cat(tC[:hdrC], u))
		s.add(cat(tU[:hdrU-1], c))
		s.add(cat(tC[:hdrC-1], u))
		s.add(cat(tU[:hdrU-1], []byte{0x04}, c[1:]))
		s.add(cat(tU[:hdrU], u[:33]))
		s.add(cat(tU[:hdrU], u[:32]))
		s.add(cat(tC[:hdrC], c, c[1:]))
		for _, l1 := range []byte{0x36, 0x56, 0x37, 0x55} {
			for _, l2 := range []byte{0x22, 0x42, 0x21, 0x43} {
				for _, payload := range [][]byte{u, c} {
					b := cat([]byte{0x30, l1}, tU[2:20], []byte{0x03, l2, 0x00}, payload)
					s.add(b)
				}
			}
		}
	}
	// unused-bits byte 0..255 with the content shifted left accordingly (and not shifted)
	for _, pt := range [][]byte{g.Uncompressed(), g.Compressed(), g.Mul(big.NewInt(2)).Uncompressed()} {
		for u := 0; u < 256; u++ {
			for _, shifted := range []bool{false, true} {
				content := append([]byte{}, pt...)
				if shifted && u < 8 {
					v := new(big.Int).Lsh(new(big.Int).SetBytes(pt), uint(u))
					content = v.FillBytes(make([]byte, len(pt)+1))
					if content[0] == 0 {
						content = content[1:]
					}
				}
				bits := cat([]byte{0x03}, derLen(len(content)+1), []byte{byte(u)}, content)
				body := cat(tU[2:20], bits)
				s.add(cat([]byte{0x30}, derLen(len(body)), body))
			}
		}
	}
	// payloads: SEC 1 corpus in the BIT STRING (valid and invalid encodings, identity, wrong lengths)
	var payloads [][]byte
	payloads = append(payloads, mc.SEC1Extras()...) // limb near misses of the curve equation, aliases over the whole non-canonical window
	for _, p := range pts {
		if p.P.Inf {
			payloads = append(payloads, []byte{0})
			continue
		}
		u, c := p.P.Uncompressed(), p.P.Compressed()
		payloads = append(payloads, u, c)
		hy := append([]byte{}, u...)
		hy[0] = 6 + byte(p.P.Y.Bit(0))
		payloads = append(payloads, hy)
		bad := append([]byte{}, u...)
		bad[64] ^= 1
		payloads = append(payloads, bad)
		if v := new(big.Int).Add(p.P.X, ref.P); v.BitLen() <= 256 {
			payloads = append(payloads, cat([]byte{c[0]}, ref.B32(v)), cat([]byte{4}, ref.B32(v), ref.B32(p.P.Y)))
		}
		if v := new(big.Int).Add(p.P.Y, ref.P); v.BitLen() <= 256 {
			payloads = append(payloads, cat([]byte{4}, ref.B32(p.P.X), ref.B32(v)))
		}
	}
	payloads = append(payloads, []byte{}, []byte{4}, cat([]byte{2}, ref.B32(big.NewInt(5))), bytes.Repeat([]byte{0}, 33), bytes.Repeat([]byte{0}, 65))
	for _, pl := range payloads {
		s.add(ref.SPKIBuild(pl))
	}
	// other curves' / other algorithm OIDs with a valid point
	for _, algo := range [][]byte{
		{0x30, 0x13, 0x06, 0x07, 0x2a, 0x86, 0x48, 0xce, 0x3d, 0x02, 0x01, 0x06, 0x08, 0x2a, 0x86, 0x48, 0xce, 0x3d, 0x03, 0x01, 0x07}, // P-256
		{0x30, 0x10, 0x06, 0x07, 0x2a, 0x86, 0x48, 0xce, 0x3d, 0x02, 0x01, 0x06, 0x05, 0x2b, 0x81, 0x04, 0x00, 0x22},                   // P-384 oid
		{0x30, 0x0e, 0x06, 0x05, 0x2b, 0x81, 0x04, 0x00, 0x0a, 0x06, 0x05, 0x2b, 0x81, 0x04, 0x00, 0x0a},                               // algorithm = curve oid
		{0x30, 0x12, 0x06, 0x07, 0x2a, 0x86, 0x48, 0xce, 0x3d, 0x02, 0x01, 0x06, 0x05, 0x2b, 0x81, 0x04, 0x00, 0x0a, 0x05, 0x00},       // extra NULL
		{0x30, 0x11, 0x06, 0x07, 0x2a, 0x86, 0x48, 0xce, 0x3d, 0x02, 0x01, 0x06, 0x06, 0x2b, 0x81, 0x04, 0x00, 0x80, 0x0a},             // non-minimal base-128 arc
		{0x30, 0x11, 0x06, 0x08, 0x2a, 0x86, 0x48, 0xce, 0x3d, 0x02, 0x80, 0x01, 0x06, 0x05, 0x2b, 0x81, 0x04, 0x00, 0x0a},             // non-minimal arc in algorithm
	} {
		bits := cat([]byte{0x03, 0x42, 0x00}, g.Uncompressed())
		body := cat(algo, bits)
		s.add(cat([]byte{0x30}, derLen(len(body)), body))
	}
	return s.out
}

func derLen(l int) []byte {
	switch {
	case l < 0x80:
		return []byte{byte(l)}
	case l < 0x100:
		return []byte{0x81, byte(l)}
	}
	return []byte{0x82, byte(l >> 8), byte(l)}
}

var t0 = time.Now()

func lap(s string) { fmt.Fprintf(os.Stderr, "  [%6.1fs] %s\n", time.Since(t0).Seconds(), s) }

func main() {
	R = mc.New("C12")
	register()
	mc.MaybeReplay()
	if err := ref.SelfTestVectors(); err != nil {
		R.Fail("selftest", "misc", map[string]any{"err": err.Error()}, nil)
	}
	R.Rule("states = distinct byte strings per parser; a transition is one parse (and re-build) run on the implementation and on the strict grammar recogniser; non-trivial = strings the recogniser accepts")
	R.Assume("strict recognisers in /verif/ref/der.go written from X.690 / BIP-66 / RFC 5480 and validated on the Wycheproof and BIP-66 vectors")
	R.Config("amd64 default build")
	th := R.Thorough()

	// (a) DER signatures
	cls := func(ok bool) string {
		if ok {
			return "accept"
		}
		return "reject"
	}
	derCls := func(b []byte) string { _, _, ok := ref.DERParseSig(b); return cls(ok) }
	dc := derCorpus()
	dd := derDeviations(th)
	R.Bound("der_structural_variants", len(dc))
	R.Bound("der_deviation_strings", len(dd))
	batch("der", "ParseASN1Signature", runDER, dc, derCls)
	batch("der", "ParseASN1Signature/deviations", runDER, dd, derCls)
	// all short strings over a tag/length alphabet
	maxShort := 7
	if th {
		maxShort = 9
	}
	var short [][]byte
	mc.AllStrings([]byte{0x00, 0x01, 0x02, 0x30, 0x80, 0xff}, maxShort, func(b []byte) { short = append(short, b) })
	R.Bound("der_all_strings_len", fmt.Sprintf("all strings of length 0..%d over {00,01,02,30,80,ff} (%d)", maxShort, len(short)))
	batch("der", "ParseASN1Signature/short", runDER, short, derCls)
	R.Sample("der", map[string]any{"bytes": mc.Hex(dc[len(dc)/2]), "reference": derCls(dc[len(dc)/2])})

	lap("der done")
	// (b) (r,s,v) round trips + compact parsers
	vals := rsBoundary()
	var in []*big.Int
	for _, v := range vals {
		if v.Sign() > 0 && v.Cmp(ref.N) < 0 {
			in = append(in, v)
		}
	}
	for _, r := range in {
		for _, s := range in {
			for _, v := range []int{0, 1, 2, 3, 4, 27, 31, 255} {
				R.Run("build-then-parse", "rs", mc.D{"r": mc.HexBig(r), "s": mc.HexBig(s), "v": v})
			}
		}
	}
	cs := newSet()
	for L := 0; L <= 80; L++ {
		for _, f := range []byte{0x00, 0x01, 0xff} {
			cs.add(bytes.Repeat([]byte{f}, L))
		}
	}
	for _, r := range vals {
		for _, s := range vals {
			if r.BitLen() > 256 || s.BitLen() > 256 {
				continue
			}
			b := append(ref.B32(r), ref.B32(s)...)
			cs.add(b)
			cs.add(b[:63])
			cs.add(append(append([]byte{}, b...), 0, 0))
			if r.Cmp(ref.HalfN) == 0 {
				for v := 0; v < 256; v++ {
					cs.add(append(append([]byte{}, b...), byte(v)))
				}
			} else {
				cs.add(append(append([]byte{}, b...), 1))
			}
		}
	}
	for k := uint(0); k < 256; k++ { // limb-structured r / s around n and 2^256
		p2 := new(big.Int).Lsh(big.NewInt(1), k)
		for _, v := range []*big.Int{new(big.Int).Sub(ref.N, p2), new(big.Int).Sub(new(big.Int).Sub(ref.R256, big.NewInt(1)), p2), new(big.Int).Add(ref.N, p2)} {
			if v.Sign() >= 0 && v.BitLen() <= 256 {
				cs.add(append(ref.B32(v), ref.B32(big.NewInt(1))...))
				cs.add(append(ref.B32(big.NewInt(1)), ref.B32(v)...))
			}
		}
	}
	batch("compact", "ParseCompact*", runCompact, cs.out, func(b []byte) string {
		_, _, ok := ref.CompactParse(b)
		_, _, _, ok2 := ref.CompactRecoverableParse(b)
		return cls(ok || ok2)
	})

	lap("compact done")
	// (c) BIP-66
	bc := bip66Corpus(th)
	R.Bound("bip66_skeleton_strings", len(bc))
	R.Bound("bip66_skeletons_for_deviation", len(bip66Skels))
	batch("bip66", "IsValidSignatureEncodingBIP0066", runBIP66, bc, func(b []byte) string { return cls(ref.BIP66Valid(b)) })
	// deviations on the skeletons, explored in parallel without materialising them:
	// header / length / first-byte positions x all 256 values (quick: every 6th skeleton; thorough: every
	// skeleton, and every position on every 5th), truncations, extensions, deletions.
	var devAcc, devRej atomic.Int64
	mc.Par(len(bip66Skels), func(i int) {
		sk := bip66Skels[i]
		lr := int(sk[3])
		pos := []int{0, 1, 2, 3, 4, 5, 4 + lr, 5 + lr, 6 + lr, 7 + lr, len(sk) - 1, len(sk) - 2}
		if th && i%5 == 0 {
			pos = pos[:0]
			for p := range sk {
				pos = append(pos, p)
			}
		} else if !th && i%6 != 0 {
			return
		}
		one := func(b []byte) {
			if m := mc.Safe(func() string { return runBIP66(b) }); m != "" {
				R.Mismatch("IsValidSignatureEncodingBIP0066/1 deviation", "bip66", m, mc.D{"bytes": mc.Hex(b)})
			}
			if ref.BIP66Valid(b) {
				devAcc.Add(1)
			} else {
				devRej.Add(1)
			}
			R.State(mc.H([]byte("bip66"), b))
			R.T(1)
		}
		b := make([]byte, len(sk))
		for _, p := range pos {
			if p < 0 || p >= len(sk) {
				continue
			}
			for v := 0; v < 256; v++ {
				if byte(v) == sk[p] {
					continue
				}
				copy(b, sk)
				b[p] = byte(v)
				one(b)
			}
		}
		if i%40 == 0 {
			mc.Truncations(sk, one)
			mc.Extensions(sk, []byte{0, 1}, 2, one)
			mc.Delete1(sk, one)
		}
	})
	R.Class("IsValidSignatureEncodingBIP0066/1 deviation/reference accepts", devAcc.Load())
	R.Class("IsValidSignatureEncodingBIP0066/1 deviation/reference rejects", devRej.Load())
	R.NTs(devAcc.Load())
	// the DER corpus + a sighash byte, and the short strings
	var more [][]byte
	for _, b := range dc {
		more = append(more, append(append([]byte{}, b...), 0x01), b)
	}
	for _, b := range dd {
		more = append(more, append(append([]byte{}, b...), 0x01))
	}
	batch("bip66", "IsValidSignatureEncodingBIP0066/der corpus", runBIP66, more, func(b []byte) string { return cls(ref.BIP66Valid(b)) })
	batch("bip66", "IsValidSignatureEncodingBIP0066/short", runBIP66, short, func(b []byte) string { return cls(ref.BIP66Valid(b)) })
	R.Sample("bip66", map[string]any{"bytes": mc.Hex(bc[len(bc)/3]), "reference": ref.BIP66Valid(bc[len(bc)/3])})

	lap("bip66 done")
	// (d) SubjectPublicKeyInfo
	pts := mc.PointAlphabet(3, R.Seed, 2)
	sc := spkiCorpus(pts, th)
	R.Bound("spki_strings", len(sc))
	batch("spki", "ParseASN1PublicKey", runSPKI, sc, func(b []byte) string { _, ok := ref.SPKIParse(b); return cls(ok) })
	batch("spki", "ParseASN1PublicKey/short", runSPKI, short, func(b []byte) string { _, ok := ref.SPKIParse(b); return cls(ok) })
	R.Sample("spki", map[string]any{"bytes": mc.Hex(sc[0]), "reference": "accept"})
	R.Bound("deviations", "1 deviation: every position x all 256 values; 2 deviations over a grammar alphabet; truncate / extend(1..2) / insert / delete")
	R.Expect("ParseASN1Signature/reference accepts", "ParseASN1Signature/reference rejects", "ParseCompact*/reference accepts", "IsValidSignatureEncodingBIP0066/reference accepts",
		"IsValidSignatureEncodingBIP0066/reference rejects", "ParseASN1PublicKey/reference accepts", "ParseASN1PublicKey/reference rejects")
	R.Finish()
}
