// C13 — BIP-340 verification accepts exactly what the BIP-340 algorithm accepts.
//
// Keys x messages x constructed signatures (valid, odd-y R, infinite R, r/s at
// p/n boundaries, deviations by one, every signature length) against the
// BIP's Verify pseudo-code.
package main

import (
	"bytes"
	"fmt"
	"math/big"
	"runtime"

	"gitlab.com/yawning/secp256k1-voi/secec/bitcoin"

	"verif/lib"
	"verif/mc"
	"verif/ref"
)

var R *mc.Report

// runKey: NewSchnorrPublicKey accepts exactly the 32-byte x < p on the curve.
func runKey(b []byte) string {
	in := append([]byte{}, b...)
	var k *bitcoin.SchnorrPublicKey
	var err error
	if pn := lib.Try(func() { k, err = bitcoin.NewSchnorrPublicKey(in) }); pn != "" {
		return "panic: " + pn
	}
	var want ref.Pt
	ok := false
	if len(b) == 32 {
		want, ok = ref.BIP340LiftX(ref.OS2IP(b))
	}
	if ok != (err == nil) {
		return fmt.Sprintf("NewSchnorrPublicKey accepted=%v, lift_x succeeds=%v", err == nil, ok)
	}
	if !ok {
		if k != nil {
			return "error with non-nil key"
		}
		return ""
	}
	if !bytes.Equal(k.Bytes(), b) {
		return "Bytes() differs from the input"
	}
	if m := lib.CheckPoint(k.Point(), want); m != "" {
		return "Point() is not lift_x(x) (even y): " + m
	}
	for i := range in { // the caller reuses its buffer
		in[i] ^= 0xff
	}
	if !bytes.Equal(k.Bytes(), b) {
		return "key bytes alias the caller's buffer"
	}
	return ""
}

// runVerify: one (pk, msg, sig) through keys built three ways.
func runVerify(pk, msg, sig []byte) string {
	want := ref.BIP340Verify(pk, msg, sig)
	p, ok := ref.BIP340LiftX(ref.OS2IP(pk))
	if !ok || len(pk) != 32 {
		return "" // no key object can exist; covered by runKey
	}
	mk := []func() (*bitcoin.SchnorrPublicKey, error){
		func() (*bitcoin.SchnorrPublicKey, error) { return bitcoin.NewSchnorrPublicKey(append([]byte{}, pk...)) },
		func() (*bitcoin.SchnorrPublicKey, error) {
			return bitcoin.NewSchnorrPublicKeyFromPoint(lib.MkPT(p.Neg()))
		},
		func() (*bitcoin.SchnorrPublicKey, error) {
			return bitcoin.NewSchnorrPublicKeyFromPoint(lib.MkPTRep(p, big.NewInt(0xabcdef)))
		},
		func() (*bitcoin.SchnorrPublicKey, error) {
			return bitcoin.NewSchnorrPublicKeyFromECDSA(lib.MkPub(p.Neg())), nil
		},
	}
	for i, f := range mk {
		k, err := f()
		if err != nil {
			return fmt.Sprintf("key constructor %d failed: %v", i, err)
		}
		m, s := append([]byte{}, msg...), append([]byte{}, sig...)
		var got bool
		if pn := lib.Try(func() { got = k.Verify(m, s) }); pn != "" {
			return "Verify panic: " + pn
		}
		if got != want {
			return fmt.Sprintf("Verify (key built by constructor %d) = %v, BIP-340 Verify = %v", i, got, want)
		}
		if !bytes.Equal(m, msg) || !bytes.Equal(s, sig) {
			return "inputs modified"
		}
		if len(msg) == 0 { // the empty message as a nil slice is the same message
			var gotNil bool
			if pn := lib.Try(func() { gotNil = k.Verify(nil, s) }); pn != "" {
				return "Verify(nil message) panic: " + pn
			}
			if gotNil != want {
				return fmt.Sprintf("Verify with the empty message passed as a nil slice = %v, BIP-340 Verify = %v", gotNil, want)
			}
		}
		// history on the one key object: verification is a pure function of (key, message, signature), so a second
		// and third call answer the same, and the key still exposes its x-coordinate and the even-y point
		for n := 2; n <= 3; n++ {
			var again bool
			if pn := lib.Try(func() { again = k.Verify(m, s) }); pn != "" {
				return "Verify panic: " + pn
			}
			if again != want {
				return fmt.Sprintf("Verify call #%d on the same key object (constructor %d) = %v, BIP-340 Verify = %v: the answer depends on the key object's history", n, i, again, want)
			}
		}
		if !bytes.Equal(k.Bytes(), pk) {
			return "key bytes changed by verification"
		}
		if mm := lib.CheckPointLight(k.Point(), p); mm != "" {
			return "after verification the key no longer exposes the even-y point: " + mm
		}
	}
	return ""
}

// runVerifyDerived: verification keys that come out of a derivation history. One ECDSA private-key object (scalar
// d or n-d: both public-y parities occur) is the source of several Schnorr key pairs, one after the other, and of
// x-only keys derived from its public half; every one of them is the same BIP-340 key and must verify like it.
func runVerifyDerived(d *big.Int, msg, sig []byte) string {
	pk := ref.BIP340PubKey(d)
	want := ref.BIP340Verify(pk, msg, sig)
	for _, dd := range []*big.Int{d, ref.ZnNeg(d)} {
		esk := lib.MkPriv(dd)
		for i := 1; i <= 4; i++ {
			var k *bitcoin.SchnorrPublicKey
			route := "NewSchnorrPrivateKeyFromECDSA(k).PublicKey()"
			if i == 3 {
				route = "NewSchnorrPublicKeyFromECDSA(k.PublicKey())"
				k = bitcoin.NewSchnorrPublicKeyFromECDSA(esk.PublicKey())
			} else {
				k = bitcoin.NewSchnorrPrivateKeyFromECDSA(esk).PublicKey()
			}
			var got bool
			if pn := lib.Try(func() { got = k.Verify(append([]byte{}, msg...), append([]byte{}, sig...)) }); pn != "" {
				return "Verify panic: " + pn
			}
			if got != want {
				return fmt.Sprintf("Verify under the key from derivation #%d (%s) off one ECDSA key object = %v, BIP-340 Verify = %v", i, route, got, want)
			}
			if !bytes.Equal(k.Bytes(), pk) {
				return fmt.Sprintf("derivation #%d off one ECDSA key object exposes other key bytes", i)
			}
		}
	}
	return ""
}

func register() {
	mc.Register("verifyderived", func(d mc.D) string { return runVerifyDerived(d.Big("d"), d.B("msg"), d.B("sig")) })
	mc.Register("key", func(d mc.D) string { return runKey(d.B("bytes")) })
	mc.Register("verify", func(d mc.D) string {
		if d.I("gomaxprocs") == 1 {
			defer runtime.GOMAXPROCS(runtime.GOMAXPROCS(1))
		}
		return runVerify(d.B("pk"), d.B("msg"), d.B("sig"))
	})
}

type vc struct {
	pk, msg, sig []byte
	cls          string
}

func main() {
	R = mc.New("C13")
	register()
	mc.MaybeReplay()
	if err := ref.SelfTestVectors(); err != nil {
		R.Fail("selftest", "misc", map[string]any{"err": err.Error()}, nil)
	}
	R.Rule("states = distinct (pk, msg, sig) triples and key strings; a transition is one Verify (through keys built by four constructors) or one key import, compared with the BIP-340 pseudo-code; non-trivial = every triple that is not a plain valid signature")
	R.Assume("crypto/sha256, math/big; /verif/ref BIP-340 (validated on the 19 published vectors)")
	R.Config("amd64 default build")
	th := R.Thorough()
	one := big.NewInt(1)
	nm1 := new(big.Int).Sub(ref.N, one)

	// key strings
	pts := mc.PointAlphabet(map[bool]int{false: 3, true: 8}[th], R.Seed, 2)
	var keyStrs [][]byte
	for _, p := range pts {
		if !p.P.Inf {
			keyStrs = append(keyStrs, ref.B32(p.P.X))
			if v := new(big.Int).Add(p.P.X, ref.P); v.BitLen() <= 256 {
				keyStrs = append(keyStrs, ref.B32(v)) // alias x+p
			}
		}
	}
	for _, v := range []*big.Int{big.NewInt(0), big.NewInt(5), ref.P, new(big.Int).Add(ref.P, one), new(big.Int).Sub(ref.P, one), new(big.Int).Sub(ref.R256, one), ref.N} {
		keyStrs = append(keyStrs, ref.B32(v))
	}
	// limb-structured x values: p - 2^k, 2^256-1-2^k, 2^k, 2^k - 1 for every k (canonical-range checks are
	// multi-limb borrow chains; a slip in one limb only shows on values shaped like these)
	for k := uint(0); k < 256; k++ {
		p2 := new(big.Int).Lsh(one, k)
		for _, v := range []*big.Int{new(big.Int).Sub(ref.P, p2), new(big.Int).Sub(new(big.Int).Sub(ref.R256, one), p2), p2, new(big.Int).Sub(p2, one), new(big.Int).Add(ref.P, p2)} {
			if v.Sign() >= 0 && v.BitLen() <= 256 {
				keyStrs = append(keyStrs, ref.B32(v))
			}
		}
	}
	for L := 0; L <= 34; L++ {
		g := append(ref.B32(ref.Gx), 0, 0)
		keyStrs = append(keyStrs, g[:L], bytes.Repeat([]byte{0}, L))
	}
	keyStrs = append(keyStrs, ref.G().Compressed(), ref.G().Uncompressed())
	for _, b := range keyStrs {
		ok := false
		if len(b) == 32 {
			_, ok = ref.BIP340LiftX(ref.OS2IP(b))
		}
		if ok {
			R.Class("key/accept", 1)
		} else {
			R.Class("key/reject", 1)
		}
		R.State(mc.H([]byte("key"), b))
		R.Run("NewSchnorrPublicKey", "key", mc.D{"bytes": mc.Hex(b)})
	}

	// signatures
	ds := []*big.Int{one, big.NewInt(2), big.NewInt(3), big.NewInt(6), nm1, ref.HalfN, ref.Lambda}
	if th {
		ds = append(ds, big.NewInt(4), big.NewInt(5), big.NewInt(7), new(big.Int).Sub(ref.N, big.NewInt(2)), ref.ZnNeg(ref.Lambda))
	}
	var msgs [][]byte
	for _, L := range []int{0, 1, 31, 32, 33, 55, 56, 63, 64, 65, 100, 119, 120, 128, 129, 200, 300} {
		m := make([]byte, L)
		for i := range m {
			m[i] = byte(i*7 + L)
		}
		msgs = append(msgs, m)
	}
	auxs := [][]byte{make([]byte, 32), bytes.Repeat([]byte{0xff}, 32), ref.TaggedHash("verif/C13", []byte("aux"))}
	var cases []vc
	add := func(pk, msg, sig []byte, cls string) { cases = append(cases, vc{pk, msg, sig, cls}) }
	b32 := func(v *big.Int) []byte { return ref.B32(v) }
	for di, d := range ds {
		pk := ref.BIP340PubKey(d)
		for mi, msg := range msgs {
			for ai, aux := range auxs {
				if !th && (di+mi+ai)%2 == 1 {
					continue
				}
				sig, ok := ref.BIP340Sign(d, aux, msg)
				if !ok {
					continue
				}
				add(pk, msg, sig, "valid")
				if (mi+ai)%3 != 0 && !th {
					continue
				}
				r, s := ref.OS2IP(sig[:32]), ref.OS2IP(sig[32:])
				mod := func(nr, ns *big.Int, cls string) {
					if nr.Sign() < 0 || ns.Sign() < 0 || nr.BitLen() > 256 || ns.BitLen() > 256 {
						return
					}
					add(pk, msg, append(b32(nr), b32(ns)...), cls)
				}
				mod(new(big.Int).Add(r, one), s, "r+1")
				mod(new(big.Int).Sub(r, one), s, "r-1")
				mod(r, new(big.Int).Add(s, one), "s+1")
				mod(r, new(big.Int).Sub(s, one), "s-1")
				mod(r, new(big.Int).Sub(ref.N, s), "n-s")
				mod(r, new(big.Int).Add(s, ref.N), "s+n (non-canonical s)")
				mod(new(big.Int).Add(r, ref.P), s, "r+p (non-canonical r)")
				mod(ref.FpNeg(r), s, "p-r")
				for _, rv := range []*big.Int{new(big.Int).Sub(ref.P, one), ref.P, new(big.Int).Add(ref.P, one), new(big.Int).Sub(ref.R256, one), big.NewInt(0)} {
					mod(rv, s, "r boundary")
				}
				for _, sv := range []*big.Int{big.NewInt(0), nm1, ref.N, new(big.Int).Add(ref.N, one), new(big.Int).Sub(ref.R256, one)} {
					mod(r, sv, "s boundary")
				}
				// other key / other message
				od := ref.ZnAdd(d, one)
				if od.Sign() == 0 {
					od = big.NewInt(2)
				}
				add(ref.BIP340PubKey(od), msg, sig, "other key")
				add(pk, append(append([]byte{}, msg...), 0), sig, "message extended")
				if len(msg) > 0 {
					m2 := append([]byte{}, msg...)
					m2[len(m2)-1] ^= 1
					add(pk, m2, sig, "message bit flipped")
					add(pk, msg[:len(msg)-1], sig, "message truncated")
				}
				// every signature length 0..130 (class per length), content = valid signature cut / padded
				if mi == 3 && ai == 0 {
					long := append(append([]byte{}, sig...), bytes.Repeat([]byte{0}, 70)...)
					for L := 0; L <= 130; L++ {
						if L != 64 {
							add(pk, msg, long[:L], "signature length != 64")
						}
					}
					add(pk, msg, append(append([]byte{}, sig...), 0x01), "65 bytes (sig || sighash)")
				}
			}
			// R with odd y: sign with k used as is, choosing k with odd y(kG)
			for _, k := range []*big.Int{big.NewInt(1), big.NewInt(2), big.NewInt(3), big.NewInt(4), big.NewInt(5), big.NewInt(6)} {
				rp := ref.BaseMul(k)
				sig := ref.BIP340SignWithK(d, k, msg)
				if rp.Y.Bit(0) == 1 {
					add(pk, msg, sig, "R has odd y (s*G - e*P = R, x matches)")
				} else if mi%4 == 0 {
					add(pk, msg, sig, "valid (chosen nonce, even y)")
				}
				if mi > 2 && !th {
					break
				}
			}
			// everything consistent except the last comparison: r' = x(R) with ONE bit flipped, the challenge computed
			// over r' and s' = k + e'*d, so that s'G - e'P = R exactly (even y), and only "x(R) = r" can reject
			if mi == 4 && di < 2 {
				k := big.NewInt(7)
				for ref.BaseMul(k).Y.Bit(0) == 1 {
					k.Add(k, one)
				}
				rx := ref.BaseMul(k).X
				dd := new(big.Int).Set(d)
				if ref.BaseMul(d).Y.Bit(0) == 1 {
					dd.Sub(ref.N, d)
				}
				for bit := uint(0); bit < 256; bit++ {
					r2 := new(big.Int).Xor(rx, new(big.Int).Lsh(one, bit))
					if r2.Cmp(ref.P) >= 0 {
						continue
					}
					e2 := ref.BIP340Challenge(b32(r2), pk, msg)
					add(pk, msg, append(b32(r2), b32(ref.ZnAdd(k, ref.ZnMul(e2, dd)))...), "r differs from x(R) in one bit, all else consistent")
				}
			}
			// R = infinity: s = e*d for an arbitrary r
			for _, rx := range []*big.Int{ref.Gx, big.NewInt(1), new(big.Int).Sub(ref.P, one)} {
				pp := ref.BaseMul(d)
				dd := new(big.Int).Set(d)
				if pp.Y.Bit(0) == 1 {
					dd.Sub(ref.N, d)
				}
				e := ref.BIP340Challenge(b32(rx), pk, msg)
				add(pk, msg, append(b32(rx), b32(ref.ZnMul(e, dd))...), "R = infinity (s = e*d)")
				if mi > 1 && !th {
					break
				}
			}
		}
	}
	// EVERY message length 0..maxLen (valid signature + the same signature on the message with its last byte
	// flipped): internal buffer boundaries of the challenge hash are unknown to the check
	maxLen := 1100
	if th {
		maxLen = 2300
	}
	lens := []int{65535, 65536, 65537, 1 << 17} // and a few far beyond: no upper limit on a message
	for L := 0; L <= maxLen; L++ {
		lens = append(lens, L)
	}
	for _, L := range lens {
		m := make([]byte, L)
		for i := range m {
			m[i] = byte(i*31 + L)
		}
		d := ds[2+L%2]
		pk := ref.BIP340PubKey(d)
		sig, _ := ref.BIP340Sign(d, auxs[2], m)
		add(pk, m, sig, "valid (every message length)")
		if L > 0 {
			m2 := append([]byte{}, m...)
			m2[L-1] ^= 0x80
			add(pk, m2, sig, "last message byte flipped (every message length)")
		}
	}
	R.Bound("every_message_length", fmt.Sprintf("0..%d", maxLen))
	R.Bound("cases", len(cases))
	R.Bound("message_lengths", "0,1,31,32,33,55,56,63,64,65,100,119,120,128,129,200,300")
	R.Bound("signature_lengths", "every length 0..130")
	mc.Par(len(cases), func(i int) {
		c := cases[i]
		want := ref.BIP340Verify(c.pk, c.msg, c.sig)
		cls := c.cls
		if want {
			cls += " => accept"
		} else {
			cls += " => reject"
		}
		R.Class(cls, 1)
		R.T(4)
		h := mc.H(c.pk, c.msg, c.sig)
		R.State(h)
		if c.cls != "valid" {
			R.NT(h)
		}
		if m := mc.Safe(func() string { return runVerify(c.pk, c.msg, c.sig) }); m != "" {
			R.Mismatch("verify/"+c.cls, "verify", m, mc.D{"pk": mc.Hex(c.pk), "msg": mc.Hex(c.msg), "sig": mc.Hex(c.sig), "class": cls})
		}
		if R.WantSample(c.cls) {
			R.Sample(c.cls, map[string]any{"pk": mc.Hex(c.pk), "msg_len": len(c.msg), "sig": mc.Hex(c.sig), "bip340_verify": want})
		}
	})
	// verification keys with a derivation history (see runVerifyDerived): every signing scalar x a valid signature and
	// two that only a correct key rejects / accepts
	for _, d := range ds {
		msg := msgs[3]
		sig, _ := ref.BIP340Sign(d, auxs[2], msg)
		bad := append([]byte{}, sig...)
		bad[63] ^= 1
		for ci, c := range [][]byte{sig, bad} {
			R.T(8)
			R.Class("verify/keys with a derivation history", 1)
			if m := mc.Safe(func() string { return runVerifyDerived(d, msg, c) }); m != "" {
				R.Mismatch(fmt.Sprintf("verify/derived key/%d", ci), "verifyderived", m, mc.D{"d": mc.HexBig(d), "msg": mc.Hex(msg), "sig": mc.Hex(c)})
			}
		}
	}
	// the answer does not depend on the runtime configuration: the same cases (every 40th) on a scheduler restricted
	// to ONE processor (a 1-vCPU machine; code that farms work out to goroutines must have a working serial path)
	{
		prev := runtime.GOMAXPROCS(1)
		n1 := 0
		for i := 0; i < len(cases); i += 40 {
			c := cases[i]
			n1++
			R.T(1)
			if m := mc.Safe(func() string { return runVerify(c.pk, c.msg, c.sig) }); m != "" {
				R.Mismatch("verify/GOMAXPROCS=1/"+c.cls, "verify", m, mc.D{"pk": mc.Hex(c.pk), "msg": mc.Hex(c.msg), "sig": mc.Hex(c.sig), "class": c.cls, "gomaxprocs": 1})
			}
		}
		runtime.GOMAXPROCS(prev)
		R.Class("verify/cases repeated with GOMAXPROCS=1", int64(n1))
	}
	// cold start: verification and key import as the first library operations of a fresh process
	for i := 0; i < len(cases) && i < 400; i += 57 {
		c := cases[i]
		R.Cold("verify/"+c.cls, "verify", mc.D{"pk": mc.Hex(c.pk), "msg": mc.Hex(c.msg), "sig": mc.Hex(c.sig)})
	}
	R.Expect("valid => accept", "R has odd y (s*G - e*P = R, x matches) => reject", "R = infinity (s = e*d) => reject", "n-s => reject", "signature length != 64 => reject", "valid (every message length) => accept", "key/accept", "key/reject")
	R.Finish()
}
