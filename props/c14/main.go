// C14 — BIP-340 signing is the specified function of (key, aux randomness, message);
// derived Schnorr key pairs always expose the even-y point.
//
// All (d, aux, msg) over small alphabets through the signSchnorr hook and the
// public Sign with scripted readers, byte-for-byte against the BIP's Sign;
// every key-derivation route x point representative x parity.
package main

import (
	"bytes"
	"crypto"
	crand "crypto/rand"
	"fmt"
	"math/big"
	"runtime"

	"gitlab.com/yawning/secp256k1-voi/secec"
	"gitlab.com/yawning/secp256k1-voi/secec/bitcoin"

	"verif/lib"
	"verif/mc"
	"verif/ref"
)

var R *mc.Report

func mkSK(d *big.Int, route int) (*bitcoin.SchnorrPrivateKey, error) {
	switch route {
	case 1:
		return bitcoin.NewSchnorrPrivateKeyFromECDSA(lib.MkPriv(d)), nil
	}
	return bitcoin.NewSchnorrPrivateKey(ref.B32(d))
}

// checkPubKey: the exposed point has even y, Bytes() is its x.
func checkPubKey(pk *bitcoin.SchnorrPublicKey, q ref.Pt) string {
	even := q
	if q.Y.Bit(0) == 1 {
		even = q.Neg()
	}
	if !bytes.Equal(pk.Bytes(), ref.B32(q.X)) {
		return fmt.Sprintf("Bytes() = %x, expected x = %x", pk.Bytes(), ref.B32(q.X))
	}
	if m := lib.CheckPoint(pk.Point(), even); m != "" {
		return "Point() is not the even-y point: " + m
	}
	if h := bitcoin.VerifSchnorrPubInternals; h != nil {
		ip, ib := h(pk)
		if m := lib.CheckPointLight(ip, even); m != "" {
			return "internal point is not the even-y point: " + m
		}
		if !bytes.Equal(ib, ref.B32(q.X)) {
			return "internal xBytes differ from x(point)"
		}
	}
	return ""
}

// runSign: one (d, aux, msg), hook path and public path with a reader script.
func runSign(d *big.Int, aux, msg []byte, route int, mode string) string {
	want, ok := ref.BIP340Sign(d, aux, msg)
	if !ok {
		return ""
	}
	sk, err := mkSK(d, route)
	if err != nil {
		return "key construction failed: " + err.Error()
	}
	m := append([]byte{}, msg...)
	if h := bitcoin.VerifSignSchnorr; h != nil {
		var a [32]byte
		copy(a[:], aux)
		sig, err := h(&a, sk, m)
		if err != nil {
			return "signSchnorr failed: " + err.Error()
		}
		if !bytes.Equal(sig, want) {
			return fmt.Sprintf("signSchnorr = %x, BIP-340 Sign = %x", sig, want)
		}
		if !bytes.Equal(a[:], aux) {
			return "aux buffer modified"
		}
	}
	sc := mc.Script{Src: "hex:" + mc.Hex(aux), Mode: mode, FailAfter: -1}
	rd := sc.New()
	sig, err := sk.Sign(rd, m, nil)
	if err != nil {
		return fmt.Sprintf("Sign failed with a healthy reader (delivery %q): %v", mode, err)
	}
	if !bytes.Equal(sig, want) {
		return fmt.Sprintf("Sign (delivery %q) = %x, BIP-340 Sign = %x", mode, sig, want)
	}
	if rd.Consumed != 32 {
		return fmt.Sprintf("Sign consumed %d bytes of aux randomness, expected 32", rd.Consumed)
	}
	if len(msg) == 0 { // the empty message as a nil slice is the same message
		if sigN, err := sk.Sign(sc.New(), nil, nil); err != nil || !bytes.Equal(sigN, want) {
			return fmt.Sprintf("Sign with the empty message passed as a nil slice gives %x (err=%v), BIP-340 Sign = %x", sigN, err, want)
		}
		if !sk.PublicKey().Verify(nil, want) {
			return "the signature of the empty message does not verify when the message is passed as a nil slice"
		}
	}
	if !bytes.Equal(m, msg) {
		return "message modified"
	}
	pkb := ref.BIP340PubKey(d)
	if !ref.BIP340Verify(pkb, msg, sig) {
		return "REFERENCE INCONSISTENCY: reference signature does not verify"
	}
	if !sk.PublicKey().Verify(msg, sig) {
		return "signature does not verify under the key's own public key"
	}
	pk2, err := bitcoin.NewSchnorrPublicKey(pkb)
	if err != nil || !pk2.Verify(msg, sig) {
		return "signature does not verify under the x-only public key"
	}
	// history on the key pair object: after signing and verifying, it verifies again, still exposes the even-y point
	// and its x-coordinate, and signs the same message to the same bytes
	if !sk.PublicKey().Verify(msg, sig) || !pk2.Verify(msg, sig) {
		return "a second verification of the same signature on the same key object fails (the answer depends on the key object's history)"
	}
	if mm := checkPubKey(sk.PublicKey(), ref.BaseMul(d)); mm != "" {
		return "after sign/verify the key pair's public key: " + mm
	}
	if mm := checkPubKey(pk2, ref.BaseMul(d)); mm != "" {
		return "after verify the imported public key: " + mm
	}
	// the crypto.Signer options are not part of BIP-340: a message of ANY length is signed to the same bytes under every option value
	for oi, o := range []crypto.SignerOpts{crypto.SHA256, crypto.SHA512, crypto.Hash(0), &secec.ECDSAOptions{}, &secec.ECDSAOptions{Hash: crypto.SHA256, Encoding: secec.EncodingCompact, SelfVerify: true}} {
		if sigO, err := sk.Sign(sc.New(), m, o); err != nil || !bytes.Equal(sigO, want) {
			return fmt.Sprintf("Sign with signer options #%d (%T) on a %d-byte message gives %x (err=%v), BIP-340 Sign = %x", oi, o, len(msg), sigO, err, want)
		}
	}
	// the crypto.Signer route to the public key is the same key
	if pub, ok := sk.Public().(*bitcoin.SchnorrPublicKey); !ok {
		return "Public() does not return a *SchnorrPublicKey"
	} else {
		if mm := checkPubKey(pub, ref.BaseMul(d)); mm != "" {
			return "the key returned by Public(): " + mm
		}
		if !pub.Verify(msg, want) || !pub.Equal(sk.PublicKey()) {
			return "the key returned by Public() does not verify the signature / is not Equal to PublicKey()"
		}
	}
	// a FAILED self-check in the key's history (the error path of the mandatory self-verification, entered here
	// through the hook with a corrupted signature) leaves the key as it was
	if hs, hi := bitcoin.VerifVerifySchnorrSelf, bitcoin.VerifSchnorrPrivInternals; hs != nil && hi != nil {
		_, dInt, _ := hi(sk)
		bad := append([]byte{}, want...)
		bad[40] ^= 0x10
		if hs(dInt, sk.PublicKey().Bytes(), m, bad) {
			return "the self-check accepts a corrupted signature"
		}
	}
	if sig2, err := sk.Sign(sc.New(), m, nil); err != nil || !bytes.Equal(sig2, want) {
		return fmt.Sprintf("signing the same message again on the same key object gives %x (err=%v), BIP-340 Sign = %x", sig2, err, want)
	}
	return ""
}

// runFault: reader failing after j bytes => error, no signature.
func runFault(d *big.Int, msg []byte, j int, with bool, mode, errKind string) string {
	sk, _ := mkSK(d, 0)
	sc := mc.Script{Src: "counter", Mode: mode, FailAfter: j, FailWith: with, FailErr: errKind}
	sig, err := sk.Sign(sc.New(), msg, nil)
	if j < 32 {
		if err == nil || sig != nil {
			return fmt.Sprintf("reader failed after %d bytes but a signature was produced", j)
		}
		return ""
	}
	want, _ := ref.BIP340Sign(d, mc.Script{Src: "counter"}.Bytes(32), msg)
	if err != nil || !bytes.Equal(sig, want) {
		return fmt.Sprintf("reader delivering 32 bytes then failing: err=%v", err)
	}
	return ""
}

// runDerive: every private-key route for d.
func runDerive(d *big.Int) string {
	q := ref.BaseMul(d)
	// one source object, several derivations: every derived key is the same even-y key, and the ECDSA key it was
	// derived from still answers with its own (possibly odd-y) point afterwards
	esk := lib.MkPriv(d)
	for i := 0; i < 4; i++ {
		var pk *bitcoin.SchnorrPublicKey
		if i%2 == 0 {
			pk = bitcoin.NewSchnorrPrivateKeyFromECDSA(esk).PublicKey()
		} else {
			pk = bitcoin.NewSchnorrPublicKeyFromECDSA(esk.PublicKey())
		}
		if m := checkPubKey(pk, q); m != "" {
			return fmt.Sprintf("derivation #%d from one ECDSA key object: %s", i+1, m)
		}
		if m := lib.CheckPoint(esk.PublicKey().Point(), q); m != "" {
			return fmt.Sprintf("the ECDSA key's own point after %d Schnorr derivations from it: %s", i+1, m)
		}
		if !bytes.Equal(esk.PublicKey().Bytes(), q.Uncompressed()) {
			return fmt.Sprintf("the ECDSA key's own encoding after %d Schnorr derivations from it", i+1)
		}
	}
	for route := 0; route < 2; route++ {
		sk, err := mkSK(d, route)
		if err != nil {
			return err.Error()
		}
		if !bytes.Equal(sk.Bytes(), ref.B32(d)) || !bytes.Equal(sk.Scalar().Bytes(), ref.B32(d)) {
			return "Bytes()/Scalar() differ from d'"
		}
		if m := checkPubKey(sk.PublicKey(), q); m != "" {
			return fmt.Sprintf("route %d: %s", route, m)
		}
		wantD := new(big.Int).Set(d)
		if bitcoin.VerifSchnorrPrivInternals == nil {
			// without the layout hook the signing scalar is still pinned by the byte-exact signatures of runSign
			continue
		}
		dp, dn, _ := bitcoin.VerifSchnorrPrivInternals(sk)
		if q.Y.Bit(0) == 1 {
			wantD.Sub(ref.N, d)
		}
		if !bytes.Equal(dp.Bytes(), ref.B32(d)) {
			return "internal dPrime differs from the imported scalar"
		}
		if !bytes.Equal(dn.Bytes(), ref.B32(wantD)) {
			return fmt.Sprintf("internal signing scalar %x is not consistent with the even-y point (expected %x)", dn.Bytes(), wantD)
		}
		ev := ref.BaseMul(wantD)
		if ev.Y.Bit(0) != 0 || ev.X.Cmp(q.X) != 0 {
			return "REFERENCE INCONSISTENCY"
		}
	}
	return ""
}

// runDerivePub: public-key routes for a point (any representative, both parities).
func runDerivePub(q ref.Pt, z *big.Int) string {
	p := lib.MkPTRep(q, z)
	raw := lib.Raw(p)
	// object history: the caller's point has since been the receiver of decodes that FAILED (documented to leave the
	// receiver unchanged): well-formed but off-curve encodings in both formats, a non-canonical coordinate, a wrong length
	{
		g := ref.G()
		off := append([]byte{4}, append(ref.B32(g.X), ref.B32(new(big.Int).Add(g.Y, big.NewInt(1)))...)...)
		x := big.NewInt(1)
		for {
			if _, ok := ref.LiftX(x, 0); !ok {
				break
			}
			x.Add(x, big.NewInt(1))
		}
		for _, b := range [][]byte{off, append([]byte{2}, ref.B32(x)...), append([]byte{3}, ref.B32(ref.P)...), off[:40]} {
			if r, e := p.SetBytes(b); e == nil || r != nil {
				return "an invalid encoding was decoded"
			}
		}
		if lib.Raw(p) != raw {
			return "a failed decode modified its receiver (the point is about to be turned into a Schnorr public key)"
		}
	}
	k, err := bitcoin.NewSchnorrPublicKeyFromPoint(p)
	if q.Inf {
		if err == nil || k != nil {
			return "identity accepted"
		}
		return ""
	}
	if err != nil {
		return "rejected a valid point: " + err.Error()
	}
	if lib.Raw(p) != raw {
		return "caller's point modified"
	}
	if m := checkPubKey(k, q); m != "" {
		return "FromPoint: " + m
	}
	var epk *secec.PublicKey
	epk, err = secec.NewPublicKeyFromPoint(p)
	if err != nil {
		return err.Error()
	}
	k2 := bitcoin.NewSchnorrPublicKeyFromECDSA(epk)
	if m := checkPubKey(k2, q); m != "" {
		return "FromECDSA: " + m
	}
	for i := 2; i <= 3; i++ { // the same source object again: earlier and later derivations agree
		kn := bitcoin.NewSchnorrPublicKeyFromECDSA(epk)
		if m := checkPubKey(kn, q); m != "" {
			return fmt.Sprintf("FromECDSA, derivation #%d from one key object: %s", i, m)
		}
		if m := checkPubKey(k2, q); m != "" {
			return fmt.Sprintf("FromECDSA, the first derived key after derivation #%d: %s", i, m)
		}
		if m := lib.CheckPoint(epk.Point(), q); m != "" {
			return fmt.Sprintf("the ECDSA key's own point after %d derivations: %s", i, m)
		}
	}
	if !bytes.Equal(epk.Bytes(), q.Uncompressed()) {
		return "ECDSA public key changed by deriving a Schnorr key from it"
	}
	k3, err := bitcoin.NewSchnorrPublicKey(ref.B32(q.X))
	if err != nil {
		return err.Error()
	}
	if m := checkPubKey(k3, q); m != "" {
		return "x-only import: " + m
	}
	if !k.Equal(k2) || !k2.Equal(k3) || !k3.Equal(k) {
		return "the same x-only key built three ways is not Equal"
	}
	// caller mutates what it got
	pt := k.Point()
	pt.Double(pt)
	b := k.Bytes()
	b[0] ^= 1
	if m := checkPubKey(k, q); m != "" {
		return "after caller mutation: " + m
	}
	// ... and what it passed in: the point (later reused as an accumulator) and the ECDSA key's point copy
	p.Double(p)
	p.Negate(p)
	ep := epk.Point()
	ep.Double(ep)
	if m := checkPubKey(k, q); m != "" {
		return "after the caller reused the point it had passed to the from-point constructor: " + m
	}
	if m := checkPubKey(k2, q); m != "" {
		return "after the caller reused the point of the ECDSA key: " + m
	}
	return ""
}

func register() {
	mc.Register("sign", func(d mc.D) string { return runSign(d.Big("d"), d.B("aux"), d.B("msg"), d.I("route"), d.S("mode")) })
	mc.Register("fault", func(d mc.D) string {
		return runFault(d.Big("d"), d.B("msg"), d.I("j"), d.Bool("with"), d.S("mode"), d.S("err"))
	})
	mc.Register("derive", func(d mc.D) string { return runDerive(d.Big("d")) })
	mc.Register("derivepub", func(d mc.D) string { return runDerivePub(lib.HexPt(d.S("q")), d.Big("z")) })
}

func main() {
	R = mc.New("C14")
	register()
	mc.MaybeReplay()
	R.Rule("states = distinct (d, aux, msg) triples / keys / (point, representative) inputs; a transition is one signature (hook and public path under one reader delivery mode) compared byte for byte with the BIP-340 Sign pseudo-code, or one key derivation compared with the reference even-y point; non-trivial = triples where the key or the nonce point has odd y (negation needed)")
	R.Assume("crypto/sha256, math/big; /verif/ref BIP-340 (19 published vectors)")
	R.Config("amd64 default build")
	th := R.Thorough()
	one := big.NewInt(1)
	nm1 := new(big.Int).Sub(ref.N, one)
	if bitcoin.VerifSignSchnorr == nil {
		R.SkipHook("signSchnorr")
	}
	var ds []*big.Int
	for i := int64(1); i <= 12; i++ {
		ds = append(ds, big.NewInt(i))
	}
	ds = append(ds, nm1, new(big.Int).Sub(ref.N, big.NewInt(2)), ref.HalfN, new(big.Int).Add(ref.HalfN, one), ref.Lambda, ref.ZnNeg(ref.Lambda), new(big.Int).Lsh(one, 255), new(big.Int).Lsh(one, 128))
	if th {
		for i := 0; i < 20; i++ {
			ds = append(ds, ref.ModN(ref.OS2IP(ref.TaggedHash("verif/C14", []byte{byte(i)}))))
		}
	}
	var msgs [][]byte
	for _, L := range []int{0, 1, 31, 32, 33, 55, 56, 63, 64, 65, 100, 127, 128, 129, 191, 192, 256, 257, 1000} {
		m := make([]byte, L)
		for i := range m {
			m[i] = byte(i*13 + L)
		}
		msgs = append(msgs, m)
	}
	auxs := [][]byte{make([]byte, 32), bytes.Repeat([]byte{0xff}, 32), mc.Script{Src: "counter"}.Bytes(32), ref.TaggedHash("verif/C14", []byte("a1")), ref.TaggedHash("verif/C14", []byte("a2"))}
	modes := mc.DeliveryModes()
	R.Bound("keys", len(ds))
	R.Bound("message_lengths", "0,1,31,32,33,55,56,63,64,65,100,127,128,129,191,192,256,257,1000")
	R.Bound("aux_values", len(auxs))
	R.Bound("reader_delivery_modes", len(modes))
	type job struct {
		d        *big.Int
		aux, msg []byte
		route    int
		mode     string
	}
	var jobs []job
	for di, d := range ds {
		for mi, msg := range msgs {
			for ai, aux := range auxs {
				if !th && (di+mi+ai)%2 == 1 && di > 3 {
					continue
				}
				jobs = append(jobs, job{d, aux, msg, (di + mi) % 2, modes[(di*7+mi*3+ai)%len(modes)]})
			}
		}
	}
	// EVERY message length 0..maxLen for two keys (odd / even public y): internal block / buffer boundaries
	// of the tagged hashes are not known to the check, so no length is skipped
	maxLen := 1100
	if th {
		maxLen = 2300
	}
	R.Bound("every_message_length", fmt.Sprintf("0..%d", maxLen))
	lens := []int{65535, 65536, 65537, 1 << 17} // and a few far beyond: no upper limit on a message
	for L := 0; L <= maxLen; L++ {
		lens = append(lens, L)
	}
	for _, L := range lens {
		m := make([]byte, L)
		for i := range m {
			m[i] = byte(i*29 + L)
		}
		jobs = append(jobs, job{ds[2+L%2], auxs[3], m, L % 2, "full"})
	}
	// all delivery modes on one triple per key
	for _, d := range ds[:6] {
		for _, m := range modes {
			jobs = append(jobs, job{d, auxs[2], msgs[4], 0, m})
		}
	}
	mc.Par(len(jobs), func(i int) {
		j := jobs[i]
		R.T(2)
		q := ref.BaseMul(j.d)
		// class: public key parity x nonce point parity
		dd := new(big.Int).Set(j.d)
		if q.Y.Bit(0) == 1 {
			dd.Sub(ref.N, j.d)
		}
		ha := ref.TaggedHash("BIP0340/aux", j.aux)
		t := ref.B32(dd)
		for k := range t {
			t[k] ^= ha[k]
		}
		kp := ref.ModN(ref.OS2IP(ref.TaggedHash("BIP0340/nonce", t, ref.B32(q.X), j.msg)))
		rp := ref.BaseMul(kp)
		R.Class(fmt.Sprintf("sign/public key y odd=%d, nonce point y odd=%d", q.Y.Bit(0), rp.Y.Bit(0)), 1)
		h := mc.H(j.d.Bytes(), j.aux, j.msg)
		R.State(h)
		if q.Y.Bit(0) == 1 || rp.Y.Bit(0) == 1 {
			R.NT(h)
		}
		if m := mc.Safe(func() string { return runSign(j.d, j.aux, j.msg, j.route, j.mode) }); m != "" {
			R.Mismatch(fmt.Sprintf("sign/msglen=%d/route=%d", len(j.msg), j.route), "sign", m, mc.D{"d": mc.HexBig(j.d), "aux": mc.Hex(j.aux), "msg": mc.Hex(j.msg), "route": j.route, "mode": j.mode})
		}
	})
	R.Sample("sign", map[string]any{"d": "3", "aux": mc.Hex(auxs[0]), "msg_len": 32, "expect": "byte-equal to BIP-340 Sign; verifies under reference and implementation"})
	// reader faults at every byte
	for j := 0; j <= 32; j++ {
		for _, with := range []bool{false, true} {
			for _, mode := range []string{"full", "1", "chunks:13"} {
				for _, ek := range []string{"", "eof", "unexpected-eof"} {
					R.Run("sign/reader fault", "fault", mc.D{"d": mc.HexBig(ds[2]), "msg": mc.Hex(msgs[3]), "j": j, "with": with, "mode": mode, "err": ek})
				}
			}
		}
	}
	R.Class("sign/reader fault positions", 33)
	// nil reader = crypto/rand.Reader (scripted; sequential because it swaps a process-global)
	for _, d := range ds[:6] {
		aux := mc.Script{Src: "counter"}.Bytes(32)
		want, _ := ref.BIP340Sign(d, aux, msgs[3])
		sk, _ := mkSK(d, 0)
		old := crand.Reader
		rd := mc.Script{Src: "counter", Mode: "full", FailAfter: -1}.New()
		crand.Reader = rd
		sig, err := sk.Sign(nil, msgs[3], nil)
		crand.Reader = old
		R.T(1)
		if err != nil || !bytes.Equal(sig, want) || rd.Consumed != 32 {
			R.Fail("sign/nil reader (crypto/rand.Reader scripted)", "misc", map[string]any{"d": mc.HexBig(d), "err": fmt.Sprint(err), "consumed": rd.Consumed, "what": "Sign(nil reader) must be BIP-340 Sign with the 32 bytes read from crypto/rand.Reader as aux"}, nil)
		}
	}
	// key derivation
	for _, d := range ds {
		R.Run("derive/private", "derive", mc.D{"d": mc.HexBig(d)})
		R.Class(fmt.Sprintf("derive/private key with public y odd=%d", ref.BaseMul(d).Y.Bit(0)), 1)
	}
	pts := mc.PointAlphabet(map[bool]int{false: 4, true: 10}[th], R.Seed, 2)
	zs := mc.ZReps(R.Seed, 1)
	for _, p := range pts {
		for _, z := range zs {
			R.Run("derive/public", "derivepub", mc.D{"q": lib.PtHex(p.P), "z": fmt.Sprintf("%x", z.V)})
		}
		if !p.P.Inf {
			R.Class(fmt.Sprintf("derive/point with y odd=%d", p.P.Y.Bit(0)), int64(len(zs)))
		}
	}
	// invalid private keys
	for _, b := range [][]byte{ref.B32(big.NewInt(0)), ref.B32(ref.N), ref.B32(new(big.Int).Sub(ref.R256, one)), make([]byte, 31), make([]byte, 33), {}} {
		k, err := bitcoin.NewSchnorrPrivateKey(b)
		R.T(1)
		if err == nil || k != nil {
			R.Fail("derive/invalid private key accepted", "misc", map[string]any{"bytes": mc.Hex(b)}, nil)
		}
	}
	// key objects the caller drops right after the call, long messages, and a collector running all the time: the
	// signature is still the function of (key, aux, message) - nothing tied to the key object's lifetime (a finalizer
	// wiping the scalar, memory handed back early) may act while the call is in progress
	{
		stop := make(chan struct{})
		for g := 0; g < 2; g++ {
			go func() {
				for {
					select {
					case <-stop:
						return
					default:
						runtime.GC()
					}
				}
			}()
		}
		long := make([]byte, 1<<20)
		for i := range long {
			long[i] = byte(i * 7)
		}
		nGC := 120
		for i := 0; i < nGC; i++ {
			d := ds[i%len(ds)]
			long[0] = byte(i)
			want, ok := ref.BIP340Sign(d, auxs[2], long)
			if !ok {
				continue
			}
			R.T(1)
			var sig []byte
			var err error
			func() { // the key is reachable from nowhere but the call itself
				k, kerr := mkSK(d, i%2)
				if kerr != nil {
					err = kerr
					return
				}
				sig, err = k.Sign(mc.Script{Src: "hex:" + mc.Hex(auxs[2]), Mode: "full", FailAfter: -1}.New(), long, nil)
			}()
			if err != nil || !bytes.Equal(sig, want) {
				R.Fail("sign/dropped key object under garbage collection", "misc", map[string]any{"d": mc.HexBig(d), "message": "1 MiB pattern", "what": fmt.Sprintf("Sign on a key object that is unreachable after the call, with the collector running: err=%v, signature equals BIP-340 Sign = %v", err, bytes.Equal(sig, want))}, nil)
				break
			}
		}
		close(stop)
		R.Class("sign/dropped key objects under garbage collection", int64(nGC))
	}
	R.Expect("sign/public key y odd=0, nonce point y odd=0", "sign/public key y odd=0, nonce point y odd=1", "sign/public key y odd=1, nonce point y odd=0", "sign/public key y odd=1, nonce point y odd=1",
		"derive/private key with public y odd=0", "derive/private key with public y odd=1", "derive/point with y odd=0", "derive/point with y odd=1")
	// cold start: signing and derivation as the first library operations of a fresh process
	for _, d := range []*big.Int{big.NewInt(3), big.NewInt(6), new(big.Int).Sub(ref.N, big.NewInt(2))} {
		for route := 0; route < 2; route++ {
			R.Cold("sign", "sign", mc.D{"d": mc.HexBig(d), "aux": mc.Hex(bytes.Repeat([]byte{7}, 32)), "msg": mc.Hex([]byte("cold start")), "route": route, "mode": "full"})
		}
		R.Cold("derive", "derive", mc.D{"d": mc.HexBig(d)})
	}
	R.Finish()
}
