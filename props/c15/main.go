// C15 — hash-to-curve equals RFC 9380 (secp256k1 XMD:SHA-256 SSWU RO/NU) on every input.
//
// expand_message_xmd grid (DST x message x output lengths), the uniform-bytes
// map for every length 32..64 over a field alphabet that contains the SWU
// exceptional inputs, and the RO / NU suites end-to-end, against a reference
// written from RFC 9380 section 5.3.1 / 6.6.2 (the non-straight-line SWU form).
package main

import (
	"bytes"
	"fmt"
	"math/big"
	"os"
	"os/exec"

	secp256k1 "gitlab.com/yawning/secp256k1-voi"
	"gitlab.com/yawning/secp256k1-voi/secec/h2c"

	"verif/lib"
	"verif/mc"
	"verif/ref"
)

var R *mc.Report

func pat(n int, seed byte) []byte {
	b := make([]byte, n)
	for i := range b {
		b[i] = byte(i)*31 + seed
	}
	return b
}

func runXMD(dstLen, msgLen, outLen int) string {
	h := h2c.VerifExpandMessageXMD
	if h == nil {
		return ""
	}
	dst, msg := pat(dstLen, 'D'), pat(msgLen, 'M')
	d0, m0 := append([]byte{}, dst...), append([]byte{}, msg...)
	want, ok := ref.ExpandMessageXMD(msg, dst, outLen)
	out := bytes.Repeat([]byte{0xee}, outLen)
	var err error
	if pn := lib.Try(func() { err = h(out, dst, msg) }); pn != "" {
		return "panic: " + pn
	}
	if !ok {
		return "" // RFC ABORT region: outside the statement (recorded by the caller)
	}
	if err != nil {
		return "expand_message_xmd failed: " + err.Error()
	}
	if !bytes.Equal(out, want) {
		return fmt.Sprintf("expand_message_xmd differs from RFC 9380 5.3.1 (first bytes %x vs %x)", out[:min(8, len(out))], want[:min(8, len(want))])
	}
	if !bytes.Equal(dst, d0) || !bytes.Equal(msg, m0) {
		return "expand_message_xmd modified its inputs (DST / message)"
	}
	return ""
}

// runUniform: SetUniformBytes(src) with OS2IP(src) = u + k*p.
func runUniform(src []byte) string {
	in := append([]byte{}, src...)
	u := ref.ModP(ref.OS2IP(src))
	want := ref.MapToCurve(u)
	v := new(secp256k1.Point)
	var ret *secp256k1.Point
	if pn := lib.Try(func() { ret = v.SetUniformBytes(in) }); pn != "" {
		return "panic: " + pn
	}
	if ret != v {
		return "did not return the receiver"
	}
	if m := lib.CheckPoint(v, want); m != "" {
		return "SetUniformBytes: " + m
	}
	if !bytes.Equal(in, src) {
		return "input modified"
	}
	// receiver pre-loaded with another point: pure function of the input
	w := secp256k1.NewGeneratorPoint()
	w.SetUniformBytes(in)
	if lib.Raw(w) != lib.Raw(v) {
		return "result depends on the previous value of the receiver"
	}
	if hk := secp256k1.VerifSWU; hk != nil {
		x, y := hk(lib.MkFE(u))
		wx, wy := ref.MapToCurveSimpleSWU(u)
		if lib.FEVal(x).Cmp(wx) != 0 || lib.FEVal(y).Cmp(wy) != 0 {
			return fmt.Sprintf("map_to_curve_simple_swu(u) = (%x,%x), RFC 9380 6.6.2 gives (%x,%x)", lib.FEVal(x), lib.FEVal(y), wx, wy)
		}
	}
	return ""
}

// runSuiteFramed: DST and message are adjacent sub-slices of ONE caller buffer (tag slice with spare
// capacity, followed by the message, followed by a canary): the mapping must not write past its inputs.
func runSuiteFramed(ro bool, dstLen, msgLen int) string {
	frame := append(append(pat(dstLen, 'd'), pat(msgLen, 'm')...), bytes.Repeat([]byte{0xc7}, 40)...)
	orig := append([]byte{}, frame...)
	dst, msg := frame[:dstLen], frame[dstLen:dstLen+msgLen] // cap(dst) > len(dst)
	var want ref.Pt
	f := h2c.Secp256k1_XMD_SHA256_SSWU_NU
	if ro {
		want, _ = ref.HashToCurveRO(orig[:dstLen], orig[dstLen:dstLen+msgLen])
		f = h2c.Secp256k1_XMD_SHA256_SSWU_RO
	} else {
		want, _ = ref.EncodeToCurveNU(orig[:dstLen], orig[dstLen:dstLen+msgLen])
	}
	var p *secp256k1.Point
	var err error
	if pn := lib.Try(func() { p, err = f(dst, msg) }); pn != "" {
		return "panic: " + pn
	}
	if err != nil {
		return "suite failed: " + err.Error()
	}
	if m := lib.CheckPointLight(p, want); m != "" {
		return "DST and message adjacent in one buffer: " + m
	}
	if !bytes.Equal(frame, orig) {
		return "the caller's buffer was written to outside / inside the inputs (DST slice had spare capacity)"
	}
	return ""
}

func runSuite(ro bool, dstLen, msgLen int) string {
	dst, msg := pat(dstLen, 'd'), pat(msgLen, 'm')
	d0, m0 := append([]byte{}, dst...), append([]byte{}, msg...)
	var want ref.Pt
	var ok bool
	f := h2c.Secp256k1_XMD_SHA256_SSWU_NU
	if ro {
		want, ok = ref.HashToCurveRO(dst, msg)
		f = h2c.Secp256k1_XMD_SHA256_SSWU_RO
	} else {
		want, ok = ref.EncodeToCurveNU(dst, msg)
	}
	if !ok {
		return "REFERENCE ABORT"
	}
	// three calls from the SAME slices (a caller reusing its tag), then from fresh copies
	for i := 0; i < 3; i++ {
		var p *secp256k1.Point
		var err error
		if pn := lib.Try(func() { p, err = f(dst, msg) }); pn != "" {
			return "panic: " + pn
		}
		if err != nil {
			return "suite failed: " + err.Error()
		}
		if m := lib.CheckPoint(p, want); m != "" {
			return fmt.Sprintf("call %d from the same slices: %s", i+1, m)
		}
		if !bytes.Equal(dst, d0) || !bytes.Equal(msg, m0) {
			return fmt.Sprintf("inputs modified by call %d (not a pure function)", i+1)
		}
	}
	return ""
}

// runUniformSeq: a call of length l1 followed by a call of length l2 (history independence of the wide reduction).
func runUniformSeq(l1, l2 int) string {
	a := bytes.Repeat([]byte{0xff}, l1)
	b := pat(l2, 'u')
	v := new(secp256k1.Point)
	v.SetUniformBytes(a)
	w := new(secp256k1.Point)
	if w.SetUniformBytes(b) != w {
		return "SetUniformBytes did not return its receiver"
	}
	want := ref.MapToCurve(ref.ModP(ref.OS2IP(b)))
	if m := lib.CheckPointLight(w, want); m != "" {
		return fmt.Sprintf("SetUniformBytes(len %d) right after a call with len %d: %s", l2, l1, m)
	}
	return ""
}

func runIsoPole() string {
	hk := secp256k1.VerifIsoMap
	if hk == nil {
		return ""
	}
	for _, xp := range ref.IsoPoles() {
		_, _, onCurve := hk(lib.MkFE(xp), lib.MkFE(big.NewInt(1)))
		if onCurve != 0 {
			return fmt.Sprintf("iso_map at the pole x' = %x did not flag the zero denominator", xp)
		}
	}
	// ordinary point: flag set and value equals the reference
	x, y := ref.MapToCurveSimpleSWU(big.NewInt(3))
	ix, iy, on := hk(lib.MkFE(x), lib.MkFE(y))
	w := ref.IsoMap(x, y)
	if on != 1 || lib.FEVal(ix).Cmp(w.X) != 0 || lib.FEVal(iy).Cmp(w.Y) != 0 {
		return "iso_map(SWU(3)) differs from the reference"
	}
	return ""
}

func register() {
	mc.Register("xmd", func(d mc.D) string { return runXMD(d.I("dst_len"), d.I("msg_len"), d.I("out_len")) })
	mc.Register("uniform", func(d mc.D) string { return runUniform(d.B("src")) })
	mc.Register("suite", func(d mc.D) string { return runSuite(d.Bool("ro"), d.I("dst_len"), d.I("msg_len")) })
	mc.Register("suite-framed", func(d mc.D) string { return runSuiteFramed(d.Bool("ro"), d.I("dst_len"), d.I("msg_len")) })
	mc.Register("uniform-seq", func(d mc.D) string { return runUniformSeq(d.I("l1"), d.I("l2")) })
	mc.Register("isopole", func(d mc.D) string { return runIsoPole() })
}

func main() {
	R = mc.New("C15")
	register()
	mc.MaybeReplay()
	if err := ref.SelfTestH2C(); err != nil {
		R.Fail("selftest", "misc", map[string]any{"err": err.Error()}, nil)
	}
	if err := ref.SelfTestVectors(); err != nil {
		R.Fail("selftest-vectors", "misc", map[string]any{"err": err.Error()}, nil)
	}
	R.Rule("states = distinct (DST length, message length, output length) triples, uniform byte strings and (suite, DST, message) triples; a transition is one expand_message / map / suite call compared with the RFC 9380 reference (SWU in the section 6.6.2 form with inversions, isogeny constants validated by additivity + the RFC vectors); non-trivial = oversize DSTs, multi-block outputs, exceptional or boundary u, non-canonical (u + k*p) encodings")
	R.Assume("crypto/sha256, math/big; /verif/ref/h2c.go (RFC 9380 RO/NU and expand_message vectors reproduced; isogeny proved additive on E' samples)")
	R.Config("amd64 default build")
	th := R.Thorough()

	// (1) expand_message_xmd grid
	dstLens := []int{1, 2, 16, 38, 254, 255, 256, 257, 1000, 65535, 65536, 70000} // no upper limit on a tag: beyond the 2-byte length fields used elsewhere
	msgLens := []int{0, 1, 55, 56, 63, 64, 65, 119, 120, 1000}
	outLens := []int{1, 31, 32, 33, 48, 64, 96, 255, 256, 8160}
	if th {
		dstLens = append(dstLens, 3, 128, 253, 300, 511, 512, 4096)
		msgLens = append(msgLens, 2, 32, 127, 128, 129, 4096)
		outLens = append(outLens, 2, 63, 65, 97, 128, 1024, 4096, 8159)
	}
	if h2c.VerifExpandMessageXMD != nil {
		type g struct{ d, m, o int }
		var grid []g
		for _, d := range dstLens {
			for _, m := range msgLens {
				for _, o := range outLens {
					grid = append(grid, g{d, m, o})
				}
			}
		}
		mc.Par(len(grid), func(i int) {
			c := grid[i]
			R.T(1)
			h := mc.HS("xmd", fmt.Sprint(c))
			R.State(h)
			if c.d > 255 || c.o > 32 {
				R.NT(h)
			}
			if c.d > 255 {
				R.Class("xmd/oversize DST (> 255)", 1)
			} else {
				R.Class("xmd/DST <= 255", 1)
			}
			if m := mc.Safe(func() string { return runXMD(c.d, c.m, c.o) }); m != "" {
				R.Mismatch(fmt.Sprintf("xmd/dst>255=%v/blocks=%d", c.d > 255, (c.o+31)/32), "xmd", m, mc.D{"dst_len": c.d, "msg_len": c.m, "out_len": c.o})
			}
		})
		R.Bound("xmd_grid", fmt.Sprintf("DST lengths %v x message lengths %v x output lengths %v", dstLens, msgLens, outLens))
		R.Sample("xmd", map[string]any{"dst_len": 256, "msg_len": 63, "out_len": 96})
		// outside the statement: recorded, not judged
		for _, c := range [][3]int{{0, 5, 32}, {5, 5, 0}, {5, 5, 8161}, {5, 5, 65536}} {
			out := make([]byte, c[2])
			var err error
			pn := lib.Try(func() { err = h2c.VerifExpandMessageXMD(out, pat(c[0], 1), pat(c[1], 2)) })
			R.Note(fmt.Sprintf("observed, not judged: expand_message_xmd(dst_len=%d, out_len=%d) -> err=%v panic=%q", c[0], c[2], err != nil, pn))
		}
	} else {
		R.SkipHook("expandMessageXMD")
	}

	// (2) uniform bytes: every length 32..64, u over the field alphabet incl. exceptional inputs
	fe := mc.ModAlphabet(ref.P, mc.FieldConstants(), R.Seed, 8, false)
	if !th {
		var sub []mc.Val
		for i, v := range fe {
			if i%3 == 0 || len(v.Label) > 6 && (v.Label[:4] == "sqrt" || v.Label[:5] == "-sqrt") {
				sub = append(sub, v)
			}
		}
		fe = sub
	}
	exc, _ := ref.FpSqrt(ref.FpInv(big.NewInt(11)))
	fe = append(fe, mc.Val{Label: "exceptional u = sqrt(1/11)", V: exc}, mc.Val{Label: "exceptional u = -sqrt(1/11)", V: ref.FpNeg(exc)})
	// u values steered at the intermediates of the map: tv1 = Z*u^2 and tv2 = tv1^2 + tv1 (negated, tested for zero and
	// inverted by the map) are given stored-limb patterns - low limb all ones / around the low limb of p, half-word
	// structure, single limbs - by solving u^2 = T/Z, resp. t^2 + t = T and u^2 = t/Z, wherever the square roots exist
	{
		rinv := new(big.Int).ModInverse(ref.R256, ref.P)
		var pats [][4]uint64
		for _, lo := range []uint64{^uint64(0), 0xfffffffefffffc30, 0xfffffffefffffc2f, 0xfffffffefffffc2e, 1 << 63, 1} {
			for _, hi := range [][3]uint64{{0, 0, 0}, {^uint64(0), 0, 0}, {1, 2, 3}, {^uint64(0), ^uint64(0), 1<<63 - 1}} {
				pats = append(pats, [4]uint64{lo, hi[0], hi[1], hi[2]})
			}
		}
		for i, l := range mc.HalfWordLimbPatterns(ref.P) {
			if i%9 == 0 {
				pats = append(pats, l)
			}
		}
		zinv := ref.FpInv(ref.SwuZ)
		half := ref.FpInv(big.NewInt(2))
		n1, n2 := 0, 0
		for _, l := range pats {
			T := new(big.Int)
			for i := 3; i >= 0; i-- {
				T.Lsh(T, 64)
				T.Or(T, new(big.Int).SetUint64(l[i]))
			}
			if T.Cmp(ref.P) >= 0 {
				continue
			}
			T = ref.ModP(T.Mul(T, rinv))
			if u, ok := ref.FpSqrt(ref.FpMul(T, zinv)); ok {
				fe = append(fe, mc.Val{Label: fmt.Sprintf("steered: tv1 = Z*u^2 stored as %x", l), V: u})
				n1++
			}
			// t^2 + t = T  =>  t = (-1 +- sqrt(1 + 4T)) / 2
			if sq, ok := ref.FpSqrt(ref.ModP(new(big.Int).Add(big.NewInt(1), new(big.Int).Lsh(T, 2)))); ok {
				for _, sg := range []*big.Int{sq, ref.FpNeg(sq)} {
					t := ref.FpMul(ref.ModP(new(big.Int).Sub(sg, big.NewInt(1))), half)
					if u, ok := ref.FpSqrt(ref.FpMul(t, zinv)); ok {
						fe = append(fe, mc.Val{Label: fmt.Sprintf("steered: tv2 = tv1^2 + tv1 stored as %x", l), V: u})
						n2++
						break
					}
				}
			}
		}
		R.Bound("u_steered_at_tv1", n1)
		R.Bound("u_steered_at_tv2", n2)
	}
	for _, xp := range ref.IsoPoles() {
		_ = xp // poles of the isogeny are x' values, not u values: covered by runIsoPole
	}
	R.Bound("u_alphabet", len(fe))
	R.Bound("uniform_lengths", "every length 32..64")
	type uj struct {
		src []byte
		cls string
	}
	var ujs []uj
	for _, v := range fe {
		zu2 := ref.FpMul(ref.SwuZ, ref.FpSqr(v.V))
		cls := "gx1 non-square (second candidate x2)"
		x1, _ := ref.MapToCurveSimpleSWU(v.V)
		_ = x1
		switch {
		case ref.FpAdd(ref.FpSqr(zu2), zu2).Sign() == 0:
			cls = "exceptional (tv1 = 0)"
		default:
			// recompute x1 to classify
			tv1 := ref.FpInv(ref.FpAdd(ref.FpSqr(zu2), zu2))
			xx1 := ref.FpMul(ref.FpMul(ref.FpNeg(ref.IsoB), ref.FpInv(ref.IsoA)), ref.FpAdd(big.NewInt(1), tv1))
			gx1 := ref.FpAdd(ref.FpAdd(ref.FpMul(ref.FpSqr(xx1), xx1), ref.FpMul(ref.IsoA, xx1)), ref.IsoB)
			if ref.FpIsSquare(gx1) {
				cls = "gx1 square (first candidate x1)"
			}
		}
		cls += fmt.Sprintf(", sgn0(u)=%d", v.V.Bit(0))
		for L := 32; L <= 64; L++ {
			lim := new(big.Int).Lsh(big.NewInt(1), uint(8*L))
			kmax := new(big.Int).Div(new(big.Int).Sub(new(big.Int).Sub(lim, big.NewInt(1)), v.V), ref.P)
			ks := []*big.Int{big.NewInt(0), big.NewInt(1), big.NewInt(2), kmax, new(big.Int).Sub(kmax, big.NewInt(1)), new(big.Int).Rsh(kmax, 1),
				new(big.Int).Lsh(big.NewInt(1), uint(8*(L-32))), new(big.Int).Lsh(big.NewInt(1), uint(8*(L-32))/2)}
			seen := map[string]bool{}
			for _, k := range ks {
				if k.Sign() < 0 || k.Cmp(kmax) > 0 || seen[k.String()] {
					continue
				}
				seen[k.String()] = true
				val := new(big.Int).Add(v.V, new(big.Int).Mul(k, ref.P))
				src := val.FillBytes(make([]byte, L))
				ujs = append(ujs, uj{src, cls})
			}
		}
	}
	mc.Par(len(ujs), func(i int) {
		j := ujs[i]
		R.T(2)
		R.Class("uniform/"+j.cls, 1)
		h := mc.H(j.src)
		R.State(h)
		R.NT(h)
		if m := mc.Safe(func() string { return runUniform(j.src) }); m != "" {
			R.Mismatch(fmt.Sprintf("uniform/%s/len=%d", j.cls, len(j.src)), "uniform", m, mc.D{"src": mc.Hex(j.src), "class": j.cls})
		}
	})
	R.Sample("uniform", map[string]any{"src": mc.Hex(ujs[len(ujs)-1].src), "class": ujs[len(ujs)-1].cls})
	R.Run("iso_map/poles", "isopole", mc.D{})
	if secp256k1.VerifSWU == nil {
		R.SkipHook("swu")
	}

	// (3) RO / NU end-to-end, with slice reuse (purity)
	sd := []int{1, 2, 16, 49, 254, 255, 256, 257, 300, 1000, 65535, 65536, 65537, 100000}
	sm := []int{0, 1, 55, 56, 64, 119, 120, 1000, 65536, 100000}
	type sj struct {
		ro   bool
		d, m int
	}
	var sjs []sj
	for _, d := range sd {
		for _, m := range sm {
			sjs = append(sjs, sj{true, d, m}, sj{false, d, m})
		}
	}
	mc.Par(len(sjs), func(i int) {
		j := sjs[i]
		R.T(3)
		name := "NU"
		if j.ro {
			name = "RO"
		}
		R.Class("suite/"+name, 1)
		h := mc.HS("suite", fmt.Sprint(j))
		R.State(h)
		R.NT(h)
		if m := mc.Safe(func() string { return runSuite(j.ro, j.d, j.m) }); m != "" {
			R.Mismatch(fmt.Sprintf("suite/%s/dst>255=%v", name, j.d > 255), "suite", m, mc.D{"ro": j.ro, "dst_len": j.d, "msg_len": j.m})
		}
	})
	// every DST length 1..300 and every message length 0..300 (one axis at a time), plain and framed
	maxAxis := 300
	if th {
		maxAxis = 1100
	}
	type aj struct {
		ro   bool
		d, m int
	}
	var ajs []aj
	for L := 1; L <= maxAxis; L++ {
		ajs = append(ajs, aj{L%2 == 0, L, 33}, aj{L%2 == 1, 37, L - 1})
	}
	mc.Par(len(ajs), func(i int) {
		j := ajs[i]
		R.T(2)
		h := mc.HS("axis", fmt.Sprint(j))
		R.State(h)
		R.NT(h)
		if m := mc.Safe(func() string { return runSuite(j.ro, j.d, j.m) }); m != "" {
			R.Mismatch(fmt.Sprintf("suite/every length/dst>255=%v", j.d > 255), "suite", m, mc.D{"ro": j.ro, "dst_len": j.d, "msg_len": j.m})
		}
		if m := mc.Safe(func() string { return runSuiteFramed(j.ro, j.d, j.m) }); m != "" {
			R.Mismatch(fmt.Sprintf("suite/framed/dst>255=%v", j.d > 255), "suite-framed", m, mc.D{"ro": j.ro, "dst_len": j.d, "msg_len": j.m})
		}
	})
	R.Class("suite/every DST length and every message length (plain + framed in one buffer)", int64(len(ajs)))
	R.Bound("every_length_axis", fmt.Sprintf("DST 1..%d (msg 33), msg 0..%d (DST 37)", maxAxis, maxAxis-1))
	// history independence of the uniform-bytes map: every ordered pair of lengths 32..64
	for l1 := 32; l1 <= 64; l1++ {
		for l2 := 32; l2 <= 64; l2++ {
			R.Run("uniform/sequence of two lengths", "uniform-seq", mc.D{"l1": l1, "l2": l2})
		}
	}
	R.Class("uniform/ordered pairs of lengths (call history)", 33*33)
	R.Bound("suite_grid", fmt.Sprintf("DST lengths %v x message lengths %v x {RO,NU}, each called 3x from the same slices", sd, sm))
	R.Sample("suite", map[string]any{"suite": "RO", "dst_len": 257, "msg_len": 56})
	R.Expect("xmd/oversize DST (> 255)", "uniform/exceptional (tv1 = 0), sgn0(u)=0", "uniform/exceptional (tv1 = 0), sgn0(u)=1", "uniform/gx1 square (first candidate x1), sgn0(u)=0",
		"uniform/gx1 square (first candidate x1), sgn0(u)=1", "uniform/gx1 non-square (second candidate x2), sgn0(u)=0", "uniform/gx1 non-square (second candidate x2), sgn0(u)=1", "suite/RO", "suite/NU")
	// a program that links nothing but the hash-to-curve package (built by the driver with the same overlay): the
	// suites must work there too - what they need from the hash registry they have to pull in themselves
	if aux := os.Getenv("VERIF_AUX_BIN"); aux != "" {
		if _, err := os.Stat(aux); err == nil {
			out, _ := exec.Command(aux).CombinedOutput()
			ro, _ := ref.HashToCurveRO([]byte("QUUX-V01-CS02-with-secp256k1_XMD:SHA-256_SSWU_RO_"), []byte("abc"))
			nu, _ := ref.EncodeToCurveNU([]byte("QUUX-V01-CS02-with-secp256k1_XMD:SHA-256_SSWU_NU_"), []byte("abc"))
			want := fmt.Sprintf("RO %x\nNU %x\n", ro.Uncompressed(), nu.Uncompressed())
			R.T(2)
			R.Class("suite/minimal-link program (only the h2c package linked)", 2)
			if string(out) != want {
				o := string(out)
				if len(o) > 600 {
					o = o[:600]
				}
				R.Fail("suite/minimal-link program", "misc", map[string]any{"what": "a program importing only the hash-to-curve package does not produce the RFC 9380 points for msg=abc", "output": o, "expected": want}, nil)
			}
		} else {
			R.SkipHook("minimal-link program (did not build)")
		}
	}
	// cold start: each entry point as the first library operation of a fresh process (hash registration, constants)
	for _, ro := range []bool{true, false} {
		R.Cold("suite", "suite", mc.D{"ro": ro, "dst_len": 20, "msg_len": 5})
		R.Cold("suite/long tag", "suite", mc.D{"ro": ro, "dst_len": 300, "msg_len": 0})
	}
	R.Cold("uniform", "uniform", mc.D{"src": mc.Hex(bytes.Repeat([]byte{0x5a}, 48))})
	R.Cold("xmd", "xmd", mc.D{"dst_len": 16, "msg_len": 3, "out_len": 96})
	R.Finish()
}
