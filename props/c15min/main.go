// c15min: a program that links ONLY the hash-to-curve package (no other user of SHA-256, no test framework):
// whatever the suites need from the hash registry they must pull in themselves. Prints the two suite outputs for
// the RFC 9380 J.8 message "abc", or the panic. Run by the C15 check as a child process.
package main

import (
	"encoding/hex"
	"fmt"

	"gitlab.com/yawning/secp256k1-voi/secec/h2c"
)

func main() {
	defer func() {
		if x := recover(); x != nil {
			fmt.Println("PANIC:", x)
		}
	}()
	p, err := h2c.Secp256k1_XMD_SHA256_SSWU_RO([]byte("QUUX-V01-CS02-with-secp256k1_XMD:SHA-256_SSWU_RO_"), []byte("abc"))
	if err != nil {
		fmt.Println("RO error:", err)
		return
	}
	fmt.Println("RO", hex.EncodeToString(p.UncompressedBytes()))
	q, err := h2c.Secp256k1_XMD_SHA256_SSWU_NU([]byte("QUUX-V01-CS02-with-secp256k1_XMD:SHA-256_SSWU_NU_"), []byte("abc"))
	if err != nil {
		fmt.Println("NU error:", err)
		return
	}
	fmt.Println("NU", hex.EncodeToString(q.UncompressedBytes()))
}
