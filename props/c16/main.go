// C16 — multi- and double-scalar multiplication return the exact combination.
//
// ALL lists of length 0..3 over a scalar x point alphabet (longer lists over a
// sub-alphabet) for both MultiScalarMult variants, with every receiver
// placement and repeated pointers; DoubleScalarMultBasepointVartime over
// scalar pairs x points incl. cancelling and doubling combinations.
package main

import (
	"bytes"
	crand "crypto/rand"
	"fmt"
	"math/big"
	"strings"

	secp256k1 "gitlab.com/yawning/secp256k1-voi"

	"verif/lib"
	"verif/mc"
	"verif/ref"
)

type (
	Point  = secp256k1.Point
	Scalar = secp256k1.Scalar
)

var R *mc.Report

type pent struct {
	label string
	p     ref.Pt
	z     *big.Int
}

var (
	scAlpha []*big.Int
	ptAlpha []pent
)

func initAlpha() {
	one := big.NewInt(1)
	s := ref.ModN(ref.OS2IP(ref.TaggedHash("verif/C16", []byte("s"))))
	scAlpha = []*big.Int{big.NewInt(0), one, big.NewInt(2), new(big.Int).Sub(ref.N, one), big.NewInt(15), big.NewInt(16), s, ref.ZnNeg(s)}
	g := ref.G()
	p := g.Mul(ref.ModN(ref.OS2IP(ref.TaggedHash("verif/C16", []byte("p")))))
	ptAlpha = []pent{
		{"inf", ref.Infinity(), one}, {"G", g, one}, {"-G", g.Neg(), one}, {"2G", g.Double(), one}, {"P", p, one}, {"P (Z != 1)", p, big.NewInt(0x7777)},
	}
}

// runMSM: entries[i] = (scalar index, point index); sameObj: entries with equal
// indices share one *Scalar / *Point object; recv = -1 fresh zero-value, else entry index.
func runMSM(vartime bool, ents [][2]int, sameObj bool, recv int) string {
	l := len(ents)
	scs := make([]*Scalar, l)
	pts := make([]*Point, l)
	so, po := map[int]*Scalar{}, map[int]*Point{}
	want := ref.Infinity()
	for i, e := range ents {
		if sameObj {
			if so[e[0]] == nil {
				so[e[0]] = lib.MkSC(scAlpha[e[0]])
			}
			if po[e[1]] == nil {
				po[e[1]] = lib.MkPTRep(ptAlpha[e[1]].p, ptAlpha[e[1]].z)
			}
			scs[i], pts[i] = so[e[0]], po[e[1]]
		} else {
			scs[i], pts[i] = lib.MkSC(scAlpha[e[0]]), lib.MkPTRep(ptAlpha[e[1]].p, ptAlpha[e[1]].z)
		}
		want = want.Add(ptAlpha[e[1]].p.Mul(scAlpha[e[0]]))
	}
	v := new(Point)
	if recv >= 0 {
		v = pts[recv]
	}
	raws := make([]string, l)
	for i := range pts {
		raws[i] = lib.Raw(pts[i])
	}
	var ret *Point
	if vartime {
		ret = v.MultiScalarMultVartime(scs, pts)
	} else {
		ret = v.MultiScalarMult(scs, pts)
	}
	if ret != v {
		return "did not return the receiver"
	}
	if m := lib.CheckPointLight(v, want); m != "" {
		return m
	}
	for i := range pts {
		if pts[i] != v && lib.Raw(pts[i]) != raws[i] {
			return fmt.Sprintf("points[%d] modified", i)
		}
		if !bytes.Equal(scs[i].Bytes(), ref.B32(scAlpha[ents[i][0]])) {
			return fmt.Sprintf("scalars[%d] modified", i)
		}
	}
	return ""
}

// runLong: a long list (past any internal batch boundary) of deterministic terms s_i * (k_i G); receiver
// fresh (-1) or the list entry at index recv.
func runLong(vartime bool, n, recv int) string {
	scs := make([]*Scalar, n)
	pts := make([]*Point, n)
	acc := big.NewInt(0)
	for i := 0; i < n; i++ {
		s := ref.ModN(ref.OS2IP(ref.TaggedHash("verif/C16-long-s", []byte{byte(i), byte(i >> 8)})))
		k := big.NewInt(int64(i%13 + 1))
		if i%5 == 0 {
			s = big.NewInt(int64(i % 3)) // zero and small scalars inside the list
		}
		scs[i] = lib.MkSC(s)
		pts[i] = lib.MkPTRep(ref.G().Mul(k), big.NewInt(int64(i+2)))
		acc = ref.ZnAdd(acc, ref.ZnMul(s, k))
	}
	want := ref.BaseMul(acc)
	v := new(Point)
	if recv >= 0 {
		v = pts[recv]
	}
	if vartime {
		v.MultiScalarMultVartime(scs, pts)
	} else {
		v.MultiScalarMult(scs, pts)
	}
	return lib.CheckPointLight(v, want)
}

// runDigits: a two-entry list whose scalars are single hexadecimal digits d1*16^i, d2*16^j (every pair of
// window positions of the shared ladder: leading-zero skipping, first-non-zero-digit logic).
func runDigits(vartime bool, i, j, d1, d2 int) string {
	s1 := new(big.Int).Lsh(big.NewInt(int64(d1)), uint(4*i))
	s2 := new(big.Int).Lsh(big.NewInt(int64(d2)), uint(4*j))
	p1 := ref.G().Mul(big.NewInt(11))
	p2 := ref.G()
	want := p1.Mul(s1).Add(p2.Mul(s2))
	scs := []*Scalar{lib.MkSC(s1), lib.MkSC(s2)}
	pts := []*Point{lib.MkPTRep(p1, big.NewInt(3)), lib.MkPT(p2)}
	v := new(Point)
	if vartime {
		v.MultiScalarMultVartime(scs, pts)
	} else {
		v.MultiScalarMult(scs, pts)
	}
	return lib.CheckPointLight(v, want)
}

func runMismatch(vartime bool, ns, np int) string {
	scs := make([]*Scalar, ns)
	pts := make([]*Point, np)
	for i := range scs {
		scs[i] = lib.MkSC(big.NewInt(int64(i + 1)))
	}
	for i := range pts {
		pts[i] = secp256k1.NewGeneratorPoint()
	}
	v := secp256k1.NewIdentityPoint()
	pn := lib.Try(func() {
		if vartime {
			v.MultiScalarMultVartime(scs, pts)
		} else {
			v.MultiScalarMult(scs, pts)
		}
	})
	if pn == "" {
		return fmt.Sprintf("mismatched list lengths (%d scalars, %d points) were not refused", ns, np)
	}
	return ""
}

// runDSM: u1*G + u2*P.
func runDSM(u1, u2 *big.Int, p ref.Pt, z *big.Int, aliased bool) string {
	want := ref.BaseMul(u1).Add(p.Mul(u2))
	a, b := lib.MkSC(u1), lib.MkSC(u2)
	pt := lib.MkPTRep(p, z)
	raw := lib.Raw(pt)
	v := pt
	if !aliased {
		v = new(Point)
	}
	ret := v.DoubleScalarMultBasepointVartime(a, b, pt)
	if ret != v {
		return "did not return the receiver"
	}
	if m := lib.CheckPointLight(v, want); m != "" {
		return m
	}
	if !aliased && lib.Raw(pt) != raw {
		return "point operand modified"
	}
	if !bytes.Equal(a.Bytes(), ref.B32(u1)) || !bytes.Equal(b.Bytes(), ref.B32(u2)) {
		return "scalar operand modified"
	}
	// the same scalar object for u1 and u2
	if u1.Cmp(u2) == 0 {
		w := new(Point)
		if w.DoubleScalarMultBasepointVartime(a, a, lib.MkPTRep(p, z)) != w {
			return "did not return the receiver"
		}
		if m := lib.CheckPointLight(w, want); m != "" {
			return "u1 and u2 the same object: " + m
		}
	}
	return ""
}

func entsD(ents [][2]int) []int {
	var o []int
	for _, e := range ents {
		o = append(o, e[0], e[1])
	}
	return o
}

func dEnts(l []int) [][2]int {
	var o [][2]int
	for i := 0; i+1 < len(l); i += 2 {
		o = append(o, [2]int{l[i], l[i+1]})
	}
	return o
}

func register() {
	mc.Register("msm", func(d mc.D) string {
		return runMSM(d.Bool("vartime"), dEnts(d.IL("entries")), d.Bool("same_objects"), d.I("recv"))
	})
	mc.Register("long", func(d mc.D) string { return runLong(d.Bool("vartime"), d.I("n"), d.I("recv")) })
	mc.Register("digits", func(d mc.D) string { return runDigits(d.Bool("vartime"), d.I("i"), d.I("j"), d.I("d1"), d.I("d2")) })
	mc.Register("mismatch", func(d mc.D) string { return runMismatch(d.Bool("vartime"), d.I("ns"), d.I("np")) })
	mc.Register("dsm", func(d mc.D) string {
		return runDSM(d.Big("u1"), d.Big("u2"), lib.HexPt(d.S("p")), d.Big("z"), d.Bool("aliased"))
	})
}

func main() {
	R = mc.New("C16")
	initAlpha()
	register()
	mc.MaybeReplay()
	R.Rule("states = distinct (scalar,point) lists and (u1,u2,P) triples; a transition is one multi- / double-scalar multiplication under one pointer pattern (receiver placement, repeated objects), compared with the reference sum of double-and-add terms; non-trivial = lists with zero scalars, identity points, repeated or mutually inverse points, receiver inside the list, and sums that pass through the identity or a doubling")
	R.Assume("math/big; reference sum of s_i*P_i")
	R.Config("amd64 default build")
	th := R.Thorough()
	// which alphabet indices are in play
	sIdx := []int{0, 1, 3, 4, 6, 7}
	pIdx := []int{0, 1, 2, 4, 5}
	if th {
		sIdx = []int{0, 1, 2, 3, 4, 5, 6, 7}
		pIdx = []int{0, 1, 2, 3, 4, 5}
	}
	var alpha [][2]int
	for _, s := range sIdx {
		for _, p := range pIdx {
			alpha = append(alpha, [2]int{s, p})
		}
	}
	R.Bound("entry_alphabet", fmt.Sprintf("%d scalars {0,1,2,n-1,15,16,s,-s} x %d points {inf,G,-G,2G,P,P(Z!=1)} = %d entries", len(sIdx), len(pIdx), len(alpha)))
	R.Bound("list_lengths_complete", "0..3 (all lists); 4..%d over a 3x3 sub-alphabet")
	var lists [][][2]int
	var rec func(cur [][2]int, left int, al [][2]int)
	rec = func(cur [][2]int, left int, al [][2]int) {
		if left == 0 {
			lists = append(lists, append([][2]int{}, cur...))
			return
		}
		for _, e := range al {
			rec(append(cur, e), left-1, al)
		}
	}
	for L := 0; L <= 3; L++ {
		rec(nil, L, alpha)
	}
	n3 := len(lists)
	sub := [][2]int{}
	for _, s := range []int{1, 3, 7} {
		for _, p := range []int{1, 2, 5} {
			sub = append(sub, [2]int{s, p})
		}
	}
	maxL := 4
	if th {
		maxL = 5
	}
	for L := 4; L <= maxL; L++ {
		rec(nil, L, sub)
	}
	R.Bound("lists", len(lists))
	R.Bound("list_len_max", maxL)
	mc.Par(len(lists), func(i int) {
		if R.Expired() {
			return
		}
		ents := lists[i]
		var t int64
		for _, vt := range []bool{false, true} {
			// receiver: fresh, or each entry (all for len<=3; first and last beyond)
			recvs := []int{-1}
			for k := range ents {
				if len(ents) <= 3 || k == 0 || k == len(ents)-1 {
					recvs = append(recvs, k)
				}
			}
			for _, rv := range recvs {
				for _, same := range []bool{true, false} {
					if !same && (rv >= 0 || i%4 != 0) && !th {
						continue
					}
					t++
					if m := mc.Safe(func() string { return runMSM(vt, ents, same, rv) }); m != "" {
						R.Mismatch(fmt.Sprintf("msm/vartime=%v/len=%d/receiver in list=%v", vt, len(ents), rv >= 0), "msm", m,
							mc.D{"vartime": vt, "entries": entsD(ents), "same_objects": same, "recv": rv, "meaning": "entries = (scalar index, point index) pairs into {0,1,2,n-1,15,16,s,-s} x {inf,G,-G,2G,P,P'}"})
					}
				}
			}
		}
		R.T(t)
		h := mc.HS("list", fmt.Sprint(ents))
		R.State(h)
		R.NT(h)
	})
	R.Class("lists/all of length 0..3", int64(n3))
	R.Class("lists/length 4+ over the sub-alphabet", int64(len(lists)-n3))
	R.Sample("msm", map[string]any{"entries": [][2]string{{"n-1", "G"}, {"1", "G"}, {"s", "P (Z != 1)"}}, "receiver": "points[2]", "model": "s*P (first two terms cancel)"})
	if R.Expired() {
		R.Cap("list enumeration stopped by the internal time budget")
	}
	// long lists: every length 5..40 and lengths around powers of two up to 260, receiver fresh / first / last /
	// at and around each power-of-two index (internal batching boundaries are unknown to the check)
	var lens []int
	for n := 5; n <= 40; n++ {
		lens = append(lens, n)
	}
	for _, b := range []int{64, 128, 256} {
		for d := -1; d <= 2; d++ {
			lens = append(lens, b+d)
		}
	}
	type lj struct {
		vt      bool
		n, recv int
	}
	var ljs []lj
	for _, n := range lens {
		recvs := map[int]bool{-1: true, 0: true, n - 1: true, n / 2: true}
		for _, b := range []int{63, 64, 65, 127, 128, 129, 255, 256} {
			if b < n {
				recvs[b] = true
			}
		}
		for rv := range recvs {
			for _, vt := range []bool{false, true} {
				if !th && n > 40 && rv > 0 && rv < n-1 && vt != (rv%2 == 0) {
					continue
				}
				ljs = append(ljs, lj{vt, n, rv})
			}
		}
	}
	mc.Par(len(ljs), func(i int) {
		j := ljs[i]
		R.T(1)
		h := mc.HS("long", fmt.Sprint(j))
		R.State(h)
		R.NT(h)
		if m := mc.Safe(func() string { return runLong(j.vt, j.n, j.recv) }); m != "" {
			R.Mismatch(fmt.Sprintf("msm/long list/vartime=%v/receiver in list=%v", j.vt, j.recv >= 0), "long", m, mc.D{"vartime": j.vt, "n": j.n, "recv": j.recv})
		}
	})
	R.Class("lists/long (5..40, 63..66, 127..130, 255..258 terms) x receiver placements", int64(len(ljs)))
	// all pairs of digit positions (64 x 64) x digit pairs, both variants
	type dj2 struct{ i, j int }
	var dps []dj2
	for i := 0; i < 64; i++ {
		for j := 0; j < 64; j++ {
			dps = append(dps, dj2{i, j})
		}
	}
	digs := [][2]int{{1, 3}, {15, 1}}
	if th {
		digs = append(digs, [2]int{8, 8}, [2]int{1, 0}, [2]int{0, 7})
	}
	mc.Par(len(dps), func(n int) {
		c := dps[n]
		for _, dg := range digs {
			if c.i == 63 && dg[0] >= 8 || c.j == 63 && dg[1] >= 8 {
				continue // keep the scalar below n
			}
			for _, vt := range []bool{false, true} {
				R.T(1)
				if m := mc.Safe(func() string { return runDigits(vt, c.i, c.j, dg[0], dg[1]) }); m != "" {
					R.Mismatch(fmt.Sprintf("msm/single-digit scalars/vartime=%v", vt), "digits", m, mc.D{"vartime": vt, "i": c.i, "j": c.j, "d1": dg[0], "d2": dg[1]})
				}
			}
		}
		R.State(mc.HS("digits", fmt.Sprint(c)))
	})
	R.Class("lists/two single-digit scalars, all 64x64 digit positions", int64(len(dps)))
	// mismatched lengths
	for ns := 0; ns <= 3; ns++ {
		for np := 0; np <= 3; np++ {
			if ns == np {
				continue
			}
			for _, vt := range []bool{false, true} {
				R.Run("msm/mismatched lengths", "mismatch", mc.D{"vartime": vt, "ns": ns, "np": np})
			}
		}
	}
	R.Class("mismatched length pairs", 12*2)

	// DoubleScalarMultBasepointVartime
	us := []*big.Int{big.NewInt(0), big.NewInt(1), big.NewInt(2), new(big.Int).Sub(ref.N, big.NewInt(1)), ref.HalfN, ref.Lambda, scAlpha[6], scAlpha[7], big.NewInt(0xff), new(big.Int).Lsh(big.NewInt(1), 128)}
	for gi, v := range mc.GLVScalars(false) {
		if strings.HasPrefix(v.Label, "rounding") || strings.HasPrefix(v.Label, "quotient") {
			if th || strings.Contains(v.Label, "m=ffffffffffffffff,") || gi%11 == 0 {
				us = append(us, v.V)
			}
		} else if th && gi%9 == 0 {
			us = append(us, v.V)
		}
	}
	type dj struct {
		u1, u2 *big.Int
		p      pent
		cls    string
	}
	var djs []dj
	for _, u1 := range us {
		for _, u2 := range us {
			for _, p := range ptAlpha {
				djs = append(djs, dj{u1, u2, p, "alphabet"})
			}
		}
	}
	// cancelling / doubling combinations: P = kG, u1 = -+ u2*k
	for _, k := range []*big.Int{big.NewInt(1), big.NewInt(2), big.NewInt(7), scAlpha[6], new(big.Int).Sub(ref.N, big.NewInt(1))} {
		p := pent{fmt.Sprintf("%xG", k), ref.G().Mul(k), big.NewInt(5)}
		for _, u2 := range us {
			djs = append(djs, dj{ref.ZnNeg(ref.ZnMul(u2, k)), u2, p, "u1*G = -u2*P (sum is the identity)"})
			djs = append(djs, dj{ref.ZnMul(u2, k), u2, p, "u1*G = u2*P (final addition is a doubling)"})
		}
	}
	mc.Par(len(djs), func(i int) {
		j := djs[i]
		for _, al := range []bool{false, true} {
			R.T(1)
			if m := mc.Safe(func() string { return runDSM(j.u1, j.u2, j.p.p, j.p.z, al) }); m != "" {
				R.Mismatch(fmt.Sprintf("dsm/%s/aliased=%v", j.cls, al), "dsm", m, mc.D{"u1": mc.HexBig(j.u1), "u2": mc.HexBig(j.u2), "p": lib.PtHex(j.p.p), "z": fmt.Sprintf("%x", j.p.z), "aliased": al})
			}
		}
		R.Class("dsm/"+j.cls, 1)
		h := mc.HS("dsm", j.u1.String(), j.u2.String(), j.p.label)
		R.State(h)
		if j.cls != "alphabet" {
			R.NT(h)
		}
	})
	R.Sample("dsm", map[string]any{"u1": "-u2*7", "u2": "lambda", "P": "7G (Z=5)", "model": "identity"})
	R.Expect("lists/all of length 0..3", "dsm/u1*G = -u2*P (sum is the identity)", "dsm/u1*G = u2*P (final addition is a doubling)", "mismatched length pairs")
	// the sums are functions of the lists alone: with the process-wide default entropy source (crypto/rand.Reader) stuck
	// at a constant, or FAILING, every entry point still returns the exact combination (with a failing source it may
	// refuse by panicking - it has no error result - but never return anything else). Sequential: the reader is global.
	{
		saved := crand.Reader
		n := 0
		for _, src := range []mc.Script{{Src: "zero", Mode: "full", FailAfter: -1}, {Src: "ff", Mode: "full", FailAfter: -1}, {Src: "counter", Mode: "full", FailAfter: 0}, {Src: "counter", Mode: "full", FailAfter: 7}} {
			for _, vt := range []bool{false, true} {
				for _, ents := range [][][2]int{{{4, 3}}, {{6, 4}}, {{4, 3}, {2, 1}}, {{6, 4}, {3, 3}, {1, 5}}} {
					crand.Reader = src.New()
					m := mc.Safe(func() string { return runMSM(vt, ents, false, -1) })
					n++
					R.T(1)
					if m != "" && !(src.FailAfter >= 0 && strings.HasPrefix(m, "panic")) {
						R.Fail("msm/default entropy source stuck or failing", "misc", map[string]any{"crypto_rand_reader": src.String(), "vartime": vt, "entries": fmt.Sprint(ents), "what": m}, nil)
					}
				}
				crand.Reader = src.New()
				m := mc.Safe(func() string {
					return runDSM(big.NewInt(5), big.NewInt(0x7777), ref.G().Mul(big.NewInt(7)), big.NewInt(2), false)
				})
				n++
				R.T(1)
				if m != "" && !(src.FailAfter >= 0 && strings.HasPrefix(m, "panic")) {
					R.Fail("dsm/default entropy source stuck or failing", "misc", map[string]any{"crypto_rand_reader": src.String(), "what": m}, nil)
				}
			}
		}
		crand.Reader = saved
		R.Class("combinations with crypto/rand.Reader stuck at a constant or failing", int64(n))
	}
	// cold start: every entry point as the first library operation of a fresh process
	for _, vt := range []bool{false, true} {
		R.Cold("msm/long list", "long", mc.D{"vartime": vt, "n": 7, "recv": -1})
		R.Cold("msm/digits", "digits", mc.D{"vartime": vt, "i": 3, "j": 40, "d1": 9, "d2": 14})
	}
	for _, u := range [][2]int64{{5, 3}, {0, 9}, {11, 0}} {
		R.Cold("dsm", "dsm", mc.D{"u1": mc.HexBig(big.NewInt(u[0])), "u2": mc.HexBig(big.NewInt(u[1])), "p": lib.PtHex(ref.G().Mul(big.NewInt(7))), "z": "2", "aliased": false})
	}
	R.Finish()
}
