// C17 — secret-handling operations run a secret-independent control and lookup pattern.
//
// 2-safety by enumeration on the INSTRUMENTED real code (every basic block,
// function entry and non-literal index value of the library packages reports
// to the injected trace monitor): each secret-handling operation is run for
// every secret of an alphabet with all public co-inputs fixed; all traces must
// be identical, no routine named *Vartime* may be entered, per-block counters
// must coincide. Built and run for both the assembly and the purego configuration.
package main

import (
	"bytes"
	"crypto"
	"fmt"
	"math/big"
	"os"
	"os/exec"
	"sort"
	"strings"

	secp256k1 "gitlab.com/yawning/secp256k1-voi"
	"gitlab.com/yawning/secp256k1-voi/secec"
	"gitlab.com/yawning/secp256k1-voi/secec/bitcoin"

	"verif/lib"
	"verif/mc"
	"verif/ref"
)

var (
	R   *mc.Report
	cfg string
)

type trace struct {
	hash     uint64
	events   uint64
	nb, nf   uint64
	ni       uint64
	counts   []uint32
	vartime  []string
	panicked string
}

// traced runs f with the monitor on and returns the trace signature.
func traced(f func(), record bool) (t trace, log []uint64) {
	secp256k1.VerifRTReset()
	secp256k1.VerifRTRecord(record)
	secp256k1.VerifRTOn(true)
	t.panicked = lib.Try(f)
	secp256k1.VerifRTOn(false)
	t.hash = secp256k1.VerifRTHash()
	t.events, t.nb, t.nf, t.ni = secp256k1.VerifRTStats()
	t.counts = append([]uint32{}, secp256k1.VerifRTCounts()...)
	for id, c := range t.counts {
		if c > 0 {
			if fn := secp256k1.VerifRTFuncName(id); fn != "" && strings.Contains(strings.ToLower(fn), "vartime") {
				t.vartime = append(t.vartime, fn)
			}
		}
	}
	if record {
		log = secp256k1.VerifRTLog()
	}
	return
}

func describe(ev uint64) string {
	kind := ev >> 60
	v := ev & (1<<60 - 1)
	switch kind {
	case 1:
		return fmt.Sprintf("block %s", secp256k1.VerifRTSite(int(v)))
	case 2:
		return fmt.Sprintf("enter %s (%s)", secp256k1.VerifRTFuncName(int(v)), secp256k1.VerifRTSite(int(v)))
	case 3:
		return fmt.Sprintf("index value %d at %s", v&0xffffffff, secp256k1.VerifRTSite(int(v>>32)))
	}
	return fmt.Sprint(ev)
}

// op: prep builds all objects from (secret) OUTSIDE the traced region and
// returns the closure that performs exactly the secret-handling call.
type op struct {
	name    string
	secrets []mc.Val
	prep    func(sec *big.Int) func()
}

var ops []op

func findOp(n string) *op {
	for i := range ops {
		if ops[i].name == n {
			return &ops[i]
		}
	}
	return nil
}

// runPair compares the traces of two secrets for one operation (the replayable unit).
func runPair(o *op, a, b *big.Int) string {
	ta, la := traced(o.prep(a), true)
	tb, lb := traced(o.prep(b), true)
	if ta.panicked != "" || tb.panicked != "" {
		return fmt.Sprintf("panic: %s %s", ta.panicked, tb.panicked)
	}
	if len(ta.vartime) > 0 {
		return "entered variable-time routine(s): " + strings.Join(ta.vartime, ", ")
	}
	if len(tb.vartime) > 0 {
		return "entered variable-time routine(s): " + strings.Join(tb.vartime, ", ")
	}
	if ta.hash == tb.hash && ta.events == tb.events {
		return ""
	}
	// locate the first divergence
	n := len(la)
	if len(lb) < n {
		n = len(lb)
	}
	for i := 0; i < n; i++ {
		if la[i] != lb[i] {
			prev := ""
			if i > 0 {
				prev = " after " + describe(la[i-1])
			}
			return fmt.Sprintf("traces diverge at event %d%s: secret A -> %s ; secret B -> %s (events %d vs %d)", i, prev, describe(la[i]), describe(lb[i]), ta.events, tb.events)
		}
	}
	return fmt.Sprintf("one trace is a prefix of the other (events %d vs %d); next: %s", ta.events, tb.events, func() string {
		if len(la) > n {
			return describe(la[n])
		}
		if len(lb) > n {
			return describe(lb[n])
		}
		return "?"
	}())
}

// ---------------------------------------------------------------- traces that depend on the call history
//
// A trace may legitimately depend on the PUBLIC call history (a table built on first use), never on the secrets. When the
// in-process sequence shows two different traces for one operation and re-running the pair does not (the library kept
// state from the earlier calls), the question "secret or history?" is decided with two fresh processes: sequence
// A = (s_0 .. s_k) and sequence B = (s_0, s_0 .. s_0) have the same public history at every position, so their traces
// must agree position by position; a difference is a secret-dependent path (for example a cache keyed by secret-derived
// values that turns the earlier secrets into hits or misses).

// seqChild (child process): runs the operation once per secret, cold start, prints one trace signature per line.
func seqChild(opName string, secrets []string) {
	o := findOp(opName)
	if o == nil {
		fmt.Println("ERR unknown operation")
		os.Exit(0)
	}
	for _, h := range secrets {
		v, _ := new(big.Int).SetString(h, 16)
		t, _ := traced(o.prep(v), false)
		fmt.Printf("T %016x %d %s|%s\n", t.hash, t.events, t.panicked, strings.Join(t.vartime, ","))
	}
	os.Exit(0)
}

func runSeqProcess(opName string, secrets []string) ([]string, string) {
	cmd := exec.Command(os.Args[0], "-c17seq", opName, strings.Join(secrets, ","))
	// one processor and no collector: pools and caches inside the library behave the same way in every child
	cmd.Env = append(os.Environ(), "GOMAXPROCS=1", "GOGC=off")
	out, err := cmd.Output()
	if err != nil {
		return nil, "child process: " + err.Error()
	}
	var lines []string
	for _, l := range strings.Split(string(out), "\n") {
		if strings.HasPrefix(l, "T ") {
			lines = append(lines, l)
		}
	}
	if len(lines) != len(secrets) {
		return nil, fmt.Sprintf("child process printed %d traces for %d secrets", len(lines), len(secrets))
	}
	return lines, ""
}

// runSeq: the replayable unit for history-dependent traces (two fresh processes).
func runSeq(opName string, secrets []string) string {
	a, e := runSeqProcess(opName, secrets)
	if e != "" {
		return e
	}
	same := make([]string, len(secrets))
	for i := range same {
		same[i] = secrets[0]
	}
	b, e := runSeqProcess(opName, same)
	if e != "" {
		return e
	}
	// each sequence is run a second time: only paths that are reproducible for a fixed sequence are compared (a path
	// that changes from run to run with identical inputs depends on the runtime - scheduling, the collector emptying a
	// pool - not on the secrets; not judged)
	a2, e1 := runSeqProcess(opName, secrets)
	b2, e2 := runSeqProcess(opName, same)
	if e1 != "" || e2 != "" {
		return e1 + e2
	}
	for i := range a {
		if a[i] != a2[i] || b[i] != b2[i] {
			return ""
		}
	}
	for i := range a {
		if a[i] != b[i] {
			return fmt.Sprintf("call #%d of the operation in a fresh process follows another path when the secrets of the calls so far are (s_0 .. s_%d) than when they are all s_0 - same public history, different secrets (trace signatures %s vs %s)", i+1, i, a[i], b[i])
		}
	}
	return ""
}

func register() {
	mc.Register("seq", func(d mc.D) string { return runSeq(d.S("op"), strings.Split(d.S("secrets"), ",")) })
	mc.Register("pair", func(d mc.D) string {
		o := findOp(d.S("op"))
		if o == nil {
			return "unknown operation"
		}
		return runPair(o, d.Big("secret_a"), d.Big("secret_b"))
	})
}

// ---------------------------------------------------------------- alphabets

func secretScalars(th bool) []mc.Val {
	one := big.NewInt(1)
	var out []mc.Val
	seen := map[string]bool{}
	add := func(l string, v *big.Int) {
		v = ref.ModN(v)
		if v.Sign() == 0 || seen[v.String()] {
			return
		}
		seen[v.String()] = true
		out = append(out, mc.Val{Label: l, V: v})
	}
	add("1", one)
	add("2", big.NewInt(2))
	add("n-1", new(big.Int).Sub(ref.N, one))
	add("n-2", new(big.Int).Sub(ref.N, big.NewInt(2)))
	add("(n-1)/2", ref.HalfN)
	add("(n+1)/2", new(big.Int).Add(ref.HalfN, one))
	add("lambda", ref.Lambda)
	add("-lambda", ref.ZnNeg(ref.Lambda))
	for _, h := range []string{"0000000000000000000000000000000000000000000000000000000000000f00", "000000000000000000000000000000010000000000000000000000000000000", "0f0f0f0f0f0f0f0f0f0f0f0f0f0f0f0f0f0f0f0f0f0f0f0f0f0f0f0f0f0f0f0f",
		"f0f0f0f0f0f0f0f0f0f0f0f0f0f0f0f0f0f0f0f0f0f0f0f0f0f0f0f0f0f0f0f0", "00000000000000000000000000000000ffffffffffffffffffffffffffffffff", "ffffffffffffffffffffffffffffffff00000000000000000000000000000000",
		"1000000000000000000000000000000000000000000000000000000000000000", "fffffffffffffffffffffffffffffffebaaedce6af48a03bbfd25e8cd0364140", "0000000100000000000000000000000000000000000000000000000000000000",
		"00000000000000000000000000000000000000000000000000000000000000ff", "7fffffffffffffffffffffffffffffffffffffffffffffffffffffffffffffff", "8000000000000000000000000000000000000000000000000000000000000000"} {
		v, _ := new(big.Int).SetString(h, 16)
		add("pattern "+h[:6]+"..", v)
	}
	// GLV-steered: all four sign classes, small halves (leading zero bytes in the split), extreme halves
	glv := mc.GLVScalars(false)
	step := 6
	if th {
		step = 2
	}
	for i := 0; i < len(glv); i++ {
		// every rounding-bit / quotient-boundary scalar (an intermediate carry decides), a sample of the rest
		if i%step == 0 || strings.HasPrefix(glv[i].Label, "rounding") || strings.HasPrefix(glv[i].Label, "quotient") || strings.HasPrefix(glv[i].Label, "GLV corner") {
			add("glv: "+glv[i].Label, glv[i].V)
		}
	}
	nr := 12
	if th {
		nr = 96
		for _, v := range mc.GLVScalars(true) {
			add("glv(full): "+v.Label, v.V)
		}
	}
	for i := 0; i < nr; i++ {
		add(fmt.Sprintf("pseudo-random #%d", i), ref.OS2IP(ref.TaggedHash("verif/C17", []byte{byte(i)})))
	}
	return out
}

func secretFE(th bool) []mc.Val {
	fe := mc.ModAlphabet(ref.P, mc.FieldConstants(), 1, 4, false)
	var out []mc.Val
	step := 4
	if th {
		step = 1
	}
	for i := 0; i < len(fe); i += step {
		out = append(out, fe[i])
	}
	return out
}

var fixedDigest = ref.TaggedHash("verif/C17", []byte("public digest"))

func buildOps(th bool) {
	sc := secretScalars(th)
	fe := secretFE(th)
	scArith := mc.ModAlphabet(ref.N, mc.ScalarConstants(), 1, 4, false)
	if !th {
		var s []mc.Val
		for i, v := range scArith {
			// quick: every 4th value, plus everything around the half order and the limb boundaries of n
			if i%4 == 0 || strings.HasPrefix(v.Label, "(m-1)/2") || strings.HasPrefix(v.Label, "m-") || strings.HasPrefix(v.Label, "limb") {
				s = append(s, v)
			}
		}
		scArith = s
	}
	// values whose limbs coincide with those of (n-1)/2 from the top down (a comparison that exits at the first differing limb)
	for l := 0; l < 4; l++ {
		for _, dl := range []int64{-1, 1} {
			v := new(big.Int).Add(ref.HalfN, new(big.Int).Lsh(big.NewInt(dl), uint(64*l)))
			scArith = append(scArith, mc.Val{Label: fmt.Sprintf("(n-1)/2 %+d*2^%d", dl, 64*l), V: ref.ModN(v)})
		}
	}
	pubP := ref.G().Mul(big.NewInt(0x1234567))
	pubS := ref.ModN(ref.OS2IP(ref.TaggedHash("verif/C17", []byte("public scalar"))))
	pubFE := ref.ModP(ref.OS2IP(ref.TaggedHash("verif/C17", []byte("public fe"))))

	// field arithmetic (secret operand a; co-operand fixed)
	type FE = secp256k1.VerifFE
	fops := map[string]func(z, a, b *FE){
		"Add": func(z, a, b *FE) { z.Add(a, b) }, "Subtract": func(z, a, b *FE) { z.Subtract(a, b) }, "Multiply": func(z, a, b *FE) { z.Multiply(a, b) },
		"Square": func(z, a, b *FE) { z.Square(a) }, "Negate": func(z, a, b *FE) { z.Negate(a) }, "Invert": func(z, a, b *FE) { z.Invert(a) },
		"Sqrt": func(z, a, b *FE) { z.Sqrt(a) }, "SqrtRatio": func(z, a, b *FE) { z.SqrtRatio(a, b) }, "Equal": func(z, a, b *FE) { a.Equal(b) },
		"IsZero": func(z, a, b *FE) { a.IsZero() }, "IsOdd": func(z, a, b *FE) { a.IsOdd() }, "Bytes": func(z, a, b *FE) { a.Bytes() },
		"ConditionalSelect(ctrl=secret parity)": func(z, a, b *FE) { z.ConditionalSelect(a, b, a.IsOdd()) }, "ConditionalNegate(ctrl=secret parity)": func(z, a, b *FE) { z.ConditionalNegate(a, a.IsOdd()) },
		"Pow2k(5)": func(z, a, b *FE) { z.Pow2k(a, 5) },
	}
	var fnames []string
	for n := range fops {
		fnames = append(fnames, n)
	}
	sort.Strings(fnames)
	for _, n := range fnames {
		f := fops[n]
		ops = append(ops, op{"field." + n, fe, func(sec *big.Int) func() {
			a, b, z := lib.MkFE(sec), lib.MkFE(pubFE), new(FE)
			return func() { f(z, a, b) }
		}})
	}
	ops = append(ops, op{"field.SetCanonicalBytes(secret bytes)", fe, func(sec *big.Int) func() {
		b := ref.A32(sec)
		z := new(FE)
		return func() { z.SetCanonicalBytes(b) }
	}})
	// scalar arithmetic
	type SC = secp256k1.Scalar
	sops := map[string]func(z, a, b *SC){
		"Add": func(z, a, b *SC) { z.Add(a, b) }, "Subtract": func(z, a, b *SC) { z.Subtract(a, b) }, "Multiply": func(z, a, b *SC) { z.Multiply(a, b) },
		"Square": func(z, a, b *SC) { z.Square(a) }, "Negate": func(z, a, b *SC) { z.Negate(a) }, "Invert": func(z, a, b *SC) { z.Invert(a) },
		"Equal": func(z, a, b *SC) { a.Equal(b) }, "IsZero": func(z, a, b *SC) { a.IsZero() }, "IsGreaterThanHalfN": func(z, a, b *SC) { a.IsGreaterThanHalfN() },
		"Bytes": func(z, a, b *SC) { a.Bytes() }, "Sum(a,b,a)": func(z, a, b *SC) { z.Sum(a, b, a) }, "Product(a,b,a)": func(z, a, b *SC) { z.Product(a, b, a) },
		"ConditionalSelect(ctrl=secret half-order test)": func(z, a, b *SC) { z.ConditionalSelect(a, b, a.IsGreaterThanHalfN()) },
		"ConditionalNegate(ctrl=secret half-order test)": func(z, a, b *SC) { z.ConditionalNegate(a, a.IsGreaterThanHalfN()) },
	}
	var snames []string
	for n := range sops {
		snames = append(snames, n)
	}
	sort.Strings(snames)
	for _, n := range snames {
		f := sops[n]
		ops = append(ops, op{"scalar." + n, scArith, func(sec *big.Int) func() {
			a, b, z := lib.MkSC(sec), lib.MkSC(pubS), secp256k1.NewScalar()
			return func() { f(z, a, b) }
		}})
	}
	// comparisons against a fixed operand: secrets EQUAL to it and secrets whose stored (Montgomery) limbs agree with it
	// in the low 0..3 limbs and differ in the next one - a limb loop that stops at the first difference runs a
	// different number of times for each of them
	nearSecrets := func(pub, m *big.Int) []mc.Val {
		rinv := new(big.Int).ModInverse(new(big.Int).Lsh(big.NewInt(1), 256), m)
		out := []mc.Val{{Label: "equal to the fixed operand", V: new(big.Int).Set(pub)}}
		for k := uint(0); k < 4; k++ {
			d := new(big.Int).Mul(new(big.Int).Lsh(big.NewInt(1), 64*k), rinv)
			out = append(out, mc.Val{Label: fmt.Sprintf("stored limbs agree with the fixed operand below limb %d", k), V: new(big.Int).Mod(new(big.Int).Add(pub, d), m)})
		}
		return out
	}
	ops = append(ops, op{"scalar.Equal(secret, fixed operand) for secrets sharing low stored limbs with it", nearSecrets(pubS, ref.N), func(sec *big.Int) func() {
		a, b := lib.MkSC(sec), lib.MkSC(pubS)
		return func() { a.Equal(b); b.Equal(a) }
	}})
	ops = append(ops, op{"field.Equal(secret, fixed operand) for secrets sharing low stored limbs with it", nearSecrets(pubFE, ref.P), func(sec *big.Int) func() {
		a, b := lib.MkFE(sec), lib.MkFE(pubFE)
		return func() { a.Equal(b); b.Equal(a) }
	}})
	ops = append(ops, op{"PrivateKey.Equal(fixed key) for secrets sharing low stored limbs with it", nearSecrets(pubS, ref.N), func(sec *big.Int) func() {
		a, b := lib.MkPriv(sec), lib.MkPriv(pubS)
		return func() { a.Equal(b) }
	}})
	ops = append(ops, op{"scalar.SetCanonicalBytes / SetBytes (secret bytes)", scArith, func(sec *big.Int) func() {
		b := ref.A32(sec)
		z := secp256k1.NewScalar()
		return func() { z.SetCanonicalBytes(b); z.SetBytes(b) }
	}})

	// point multiplication: the scalar 0 is a legitimate secret here (e.g. a commitment to the amount 0), unlike for keys
	sc0 := append([]mc.Val{{Label: "0", V: new(big.Int)}}, sc...)
	ops = append(ops, op{"Point.ScalarMult(secret s, public P)", sc0, func(sec *big.Int) func() {
		s, p, v := lib.MkSC(sec), lib.MkPT(pubP), new(secp256k1.Point)
		return func() { v.ScalarMult(s, p) }
	}})
	ops = append(ops, op{"Point.ScalarBaseMult(secret s)", sc0, func(sec *big.Int) func() {
		s, v := lib.MkSC(sec), new(secp256k1.Point)
		return func() { v.ScalarBaseMult(s) }
	}})
	for _, l := range []int{1, 2, 3} {
		l := l
		ops = append(ops, op{fmt.Sprintf("Point.MultiScalarMult(%d secret scalars, public points)", l), sc0, func(sec *big.Int) func() {
			var ss []*secp256k1.Scalar
			var ps []*secp256k1.Point
			for i := 0; i < l; i++ {
				ss = append(ss, lib.MkSC(ref.ZnAdd(ref.ZnMul(sec, big.NewInt(int64(2*i+1))), big.NewInt(int64(i)))))
				ps = append(ps, lib.MkPT(pubP.Mul(big.NewInt(int64(i+1)))))
			}
			v := new(secp256k1.Point)
			return func() { v.MultiScalarMult(ss, ps) }
		}})
	}
	// secret POINT (public scalar): the complete formulas have no exceptional cases
	var pvals []mc.Val
	for i, p := range mc.PointAlphabet(3, 1, 2) {
		pvals = append(pvals, mc.Val{Label: p.Label, V: big.NewInt(int64(i))})
	}
	palpha := mc.PointAlphabet(3, 1, 2)
	ops = append(ops, op{"Point.ScalarMult(public s, secret P incl. identity)", pvals, func(sec *big.Int) func() {
		s, p, v := lib.MkSC(pubS), lib.MkPT(palpha[sec.Int64()].P), new(secp256k1.Point)
		return func() { v.ScalarMult(s, p) }
	}})
	// group operations on a secret point: the complete formulas must not branch on it. (Encoding a point is a
	// PUBLISHED OUTPUT operation - its length reveals the identity - and is not in the property's list; it is not traced here.)
	ops = append(ops, op{"Point.Add/Double/Negate/Subtract/Equal/IsIdentity(secret P incl. identity)", pvals, func(sec *big.Int) func() {
		p, q, v := lib.MkPT(palpha[sec.Int64()].P), lib.MkPT(pubP), new(secp256k1.Point)
		return func() {
			v.Add(p, q)
			v.Double(p)
			v.Negate(p)
			v.Subtract(q, p)
			p.Equal(q)
			p.IsIdentity()
			v.ConditionalSelect(p, q, p.IsIdentity())
			v.ConditionalNegate(p, p.IsIdentity())
		}
	}})

	// keys
	ops = append(ops, op{"secec.NewPrivateKey(secret bytes) + public key derivation", sc, func(sec *big.Int) func() {
		b := ref.B32(sec)
		return func() { secec.NewPrivateKey(b) }
	}})
	ops = append(ops, op{"secec.NewPrivateKeyFromScalar(secret)", sc, func(sec *big.Int) func() {
		s := lib.MkSC(sec)
		return func() { secec.NewPrivateKeyFromScalar(s) }
	}})
	ops = append(ops, op{"PrivateKey.ECDH(public peer)", sc, func(sec *big.Int) func() {
		k, peer := lib.MkPriv(sec), lib.MkPub(pubP)
		return func() { k.ECDH(peer) }
	}})
	ops = append(ops, op{"PrivateKey.Bytes/Scalar accessors", sc, func(sec *big.Int) func() {
		k := lib.MkPriv(sec)
		return func() { k.Bytes(); k.Scalar() }
	}})
	// ECDSA signing: secret key; digest public; entropy: constant reader and the RFC 6979 selector
	type so struct {
		name string
		opts func() crypto.SignerOpts
	}
	for _, o := range []so{
		{"nil", func() crypto.SignerOpts { return nil }},
		{"{compact,SelfVerify}", func() crypto.SignerOpts {
			return &secec.ECDSAOptions{Encoding: secec.EncodingCompact, SelfVerify: true}
		}},
		{"{recoverable}", func() crypto.SignerOpts { return &secec.ECDSAOptions{Encoding: secec.EncodingCompactRecoverable} }},
	} {
		o := o
		for _, rd := range []string{"constant reader", "RFC 6979"} {
			rd := rd
			// the ASN.1 encoder's length logic depends on the PUBLISHED r,s: compare only compact encodings byte-patterns;
			// for ASN.1 (nil options) use SignRaw + the trace of everything before encoding
			name := fmt.Sprintf("PrivateKey.Sign(secret key, %s, opts=%s)", rd, o.name)
			ops = append(ops, op{name, sc, func(sec *big.Int) func() {
				k := lib.MkPriv(sec)
				return func() {
					var r interface{ Read([]byte) (int, error) }
					if rd == "RFC 6979" {
						r = secec.RFC6979SHA256()
					} else {
						r = mc.Script{Src: "counter", Mode: "full", FailAfter: -1}.New()
					}
					if o.name == "nil" {
						k.SignRaw(r, fixedDigest)
					} else {
						k.Sign(r, fixedDigest, o.opts())
					}
				}
			}})
		}
	}
	// Schnorr
	ops = append(ops, op{"bitcoin.NewSchnorrPrivateKey(secret bytes)", sc, func(sec *big.Int) func() {
		b := ref.B32(sec)
		return func() { bitcoin.NewSchnorrPrivateKey(b) }
	}})
	ops = append(ops, op{"bitcoin.NewSchnorrPrivateKeyFromECDSA(secret key)", sc, func(sec *big.Int) func() {
		k := lib.MkPriv(sec)
		return func() { bitcoin.NewSchnorrPrivateKeyFromECDSA(k) }
	}})
	ops = append(ops, op{"SchnorrPrivateKey.Sign(secret key, fixed aux)", sc, func(sec *big.Int) func() {
		k, _ := bitcoin.NewSchnorrPrivateKey(ref.B32(sec))
		msg := []byte("public message")
		return func() { k.Sign(mc.Script{Src: "counter", Mode: "full", FailAfter: -1}.New(), msg, nil) }
	}})
}

func main() {
	R = mc.New("C17")
	cfg = os.Getenv("VERIF_RUN")
	if cfg == "" {
		cfg = "asm"
	}
	R.Config(cfg + " (instrumented: " + fmt.Sprint(secp256k1.VerifRTNumIDs()) + " sites)")
	buildOps(R.Thorough())
	register()
	if len(os.Args) == 4 && os.Args[1] == "-c17seq" {
		seqChild(os.Args[2], strings.Split(os.Args[3], ","))
	}
	mc.MaybeReplay()
	R.Rule("states = (operation, secret) pairs; a transition is one execution of the operation on the instrumented library with the trace monitor on; all traces of one operation (ordered basic blocks, function entries, every non-literal index value) must be identical and free of *Vartime* routines; non-trivial = secrets chosen to flip a potential secret-dependent decision (0-/F-heavy nibbles, 1, n-1, all four GLV sign classes, halves with leading zero bytes, both public-y parities)")
	R.Assume("path equality over the alphabet is evidence for all secrets to the extent the alphabet spans the code's secret-dependent decisions; NOT visible to this monitor: the SSE2 assembly (equivalence with the instrumented portable code is C19), instruction-level timing, compiler-introduced branches, stdlib / x/crypto / tuplehash code called with secret bytes")
	R.Bound("operations", len(ops))
	nsec := 0
	for i := range ops {
		o := &ops[i]
		if R.Expired() {
			R.Cap("stopped by the internal time budget before " + o.name)
			break
		}
		nsec += len(o.secrets)
		var base trace
		var baseSec *big.Int
		sigs := map[uint64]int{}
		rebased := 0
		for si, s := range o.secrets {
			t, _ := traced(o.prep(s.V), false)
			R.T(1)
			R.State(mc.HS(cfg, o.name, s.V.String()))
			R.NT(mc.HS(o.name, s.V.String()))
			sigs[t.hash]++
			bad := ""
			switch {
			case t.panicked != "":
				bad = "panic: " + t.panicked
			case len(t.vartime) > 0:
				bad = "entered variable-time routine(s): " + strings.Join(t.vartime, ", ")
			case si == 0:
				base, baseSec = t, s.V
			case t.hash != base.hash || t.events != base.events || !equalCounts(t.counts, base.counts):
				bad = "trace differs from the first secret's trace"
			}
			if bad != "" {
				d := mc.D{"op": o.name, "secret_a": mc.HexBig(orZero(baseSec, s.V)), "secret_b": mc.HexBig(s.V), "label_b": s.Label, "config": cfg}
				m := runPair(o, orZero(baseSec, s.V), s.V)
				if m == "" && bad == "trace differs from the first secret's trace" {
					// not reproducible as a pair: the library kept state from the earlier calls. Secret or public history?
					var hx []string
					for _, q := range o.secrets[:si+1] {
						hx = append(hx, q.V.Text(16))
					}
					R.T(int64(2 * len(hx)))
					if ms := runSeq(o.name, hx); ms != "" {
						R.Mismatch("ct/"+o.name+"/history/"+cfg, "seq", ms, mc.D{"op": o.name, "secrets": strings.Join(hx, ","), "config": cfg})
						break
					}
					// the path depends on the position in the process only (public history): compare the rest with this trace
					rebased++
					R.Class(cfg+"/operations whose path depends on the public call history only (two-process comparison)", 1)
					if rebased <= 3 {
						base, baseSec = t, s.V
						continue
					}
					break
				}
				if m == "" {
					m = bad
				}
				R.Mismatch("ct/"+o.name+"/"+cfg, "pair", m, d)
				break
			}
		}
		R.Class(fmt.Sprintf("%s/operations with exactly one trace signature", cfg), b2i(len(sigs) == 1))
		if i < 4 || strings.Contains(o.name, "ScalarMult(secret") || strings.Contains(o.name, "Sign(secret key, constant") {
			R.Sample(o.name, map[string]any{"operation": o.name, "config": cfg, "secrets": len(o.secrets), "events_per_trace": base.events, "blocks": base.nb, "function_entries": base.nf, "index_events": base.ni, "distinct_trace_signatures": len(sigs)})
		}
	}
	// memory-access pattern of the table lookups, probed with page protection: works for the SSE2 assembly too
	for _, proj := range []bool{false, true} {
		name := "lookupAffinePoint"
		if proj {
			name = "lookupProjectivePoint"
		}
		m, n := lib.ProbeLookupAccess(proj)
		R.T(int64(n))
		switch {
		case strings.HasPrefix(m, "SKIP"):
			R.SkipHook("address-based lookup hooks / mmap: " + m)
		case m != "":
			R.Fail("ct/lookup access pattern/"+name+"/"+cfg, "probe", map[string]any{"routine": name, "config": cfg, "mismatch": m}, func() bool { mm, _ := lib.ProbeLookupAccess(proj); return mm != "" })
		default:
			R.Class(cfg+"/lookup routines that read every table entry for every index (page-protection probe)", 1)
			R.States(int64(n))
			R.NTs(int64(n))
		}
	}
	R.Sample("lookup access probe", map[string]any{"config": cfg, "method": "table placed so that entries e..14 lie in a PROT_NONE page; for every e in 0..14 and every index 0..15 the lookup must fault, i.e. it reads entry e whatever the index; e = 15 is the no-fault control"})
	R.Bound("secrets_total", nsec)
	_ = bytes.Equal
	R.Expect(cfg + "/operations with exactly one trace signature")
	R.Finish()
}

func orZero(a, b *big.Int) *big.Int {
	if a == nil {
		return b
	}
	return a
}

func b2i(b bool) int64 {
	if b {
		return 1
	}
	return 0
}

func equalCounts(a, b []uint32) bool {
	if len(a) != len(b) {
		return false
	}
	for i := range a {
		if a[i] != b[i] {
			return false
		}
	}
	return true
}
