// C18 — no invalid objects via the API; aliasing and caller mutation are harmless.
//
// (a) explicit-state BFS over API call sequences on a pool of objects: every
// operation instance = method x assignment of pool slots to receiver and
// arguments (which IS the alias enumeration), incl. failing decodes and
// uninitialised operands, against a slot-wise reference state;
// (b) reflection-driven uninitialised-operand matrix;
// (c) reflection-driven key immutability matrix.
package main

import (
	"bytes"
	"crypto/sha256"
	"encoding/binary"
	"fmt"
	"math/big"
	"reflect"
	"sort"
	"strings"
	"sync"

	secp256k1 "gitlab.com/yawning/secp256k1-voi"
	"gitlab.com/yawning/secp256k1-voi/secec"
	"gitlab.com/yawning/secp256k1-voi/secec/bitcoin"

	"verif/lib"
	"verif/mc"
	"verif/ref"
)

type (
	Point  = secp256k1.Point
	Scalar = secp256k1.Scalar
)

var R *mc.Report

const (
	nP = 3
	nS = 2
)

// ---------------------------------------------------------------- states

type praw struct {
	x, y, z [4]uint64
	valid   bool
}

type istate struct { // implementation state: exact stored representation of every slot
	P [nP]praw
	S [nS][4]uint64
}

type mstate struct { // model state; P[i] == nil means Uninit
	P [nP]*ref.Pt
	S [nS]*big.Int
}

// key is a 128-bit digest of the exact stored representation (limbs and validity flags of every slot).
func (s istate) key() [16]byte {
	var b [(nP*12+nS*4)*8 + nP]byte
	o := 0
	put := func(l [4]uint64) {
		for _, w := range l {
			binary.LittleEndian.PutUint64(b[o:], w)
			o += 8
		}
	}
	for i := range s.P {
		put(s.P[i].x)
		put(s.P[i].y)
		put(s.P[i].z)
		if s.P[i].valid {
			b[o] = 1
		}
		o++
	}
	for i := range s.S {
		put(s.S[i])
	}
	h := sha256.Sum256(b[:])
	var k [16]byte
	copy(k[:], h[:16])
	return k
}

func materialise(s istate) ([]*Point, []*Scalar) {
	ps := make([]*Point, nP)
	ss := make([]*Scalar, nS)
	for i := range ps {
		ps[i] = new(Point)
		var x, y, z secp256k1.VerifFE
		secp256k1.VerifFESetLimbs(&x, s.P[i].x)
		secp256k1.VerifFESetLimbs(&y, s.P[i].y)
		secp256k1.VerifFESetLimbs(&z, s.P[i].z)
		secp256k1.VerifPointSetXYZ(ps[i], &x, &y, &z, s.P[i].valid)
	}
	for i := range ss {
		ss[i] = secp256k1.NewScalar()
		secp256k1.VerifScalarSetLimbs(ss[i], s.S[i])
	}
	return ps, ss
}

func capture(ps []*Point, ss []*Scalar) istate {
	var s istate
	for i, p := range ps {
		x, y, z, v := secp256k1.VerifPointXYZ(p)
		s.P[i] = praw{secp256k1.VerifFELimbs(x), secp256k1.VerifFELimbs(y), secp256k1.VerifFELimbs(z), v}
	}
	for i, c := range ss {
		s.S[i] = secp256k1.VerifScalarLimbs(c)
	}
	return s
}

func limbsBig(l [4]uint64) *big.Int {
	v := new(big.Int)
	for i := 3; i >= 0; i-- {
		v.Lsh(v, 64)
		v.Or(v, new(big.Int).SetUint64(l[i]))
	}
	return v
}

// conforms checks the implementation state against the model state.
func conforms(is istate, ms mstate) string {
	ps, ss := materialise(is)
	for i := range ps {
		if ms.P[i] == nil {
			if is.P[i].valid {
				return fmt.Sprintf("point slot %d is marked valid but the model says it was never initialised", i)
			}
			continue
		}
		got, bad := lib.PTVal(ps[i])
		if bad != "" {
			return fmt.Sprintf("point slot %d holds an invalid object: %s", i, bad)
		}
		if !got.Equal(*ms.P[i]) {
			return fmt.Sprintf("point slot %d = %v, model %v", i, got, *ms.P[i])
		}
	}
	for i := range ss {
		if limbsBig(is.S[i]).Cmp(ref.N) >= 0 {
			return fmt.Sprintf("scalar slot %d is not canonical", i)
		}
		if v := lib.SCVal(ss[i]); v.Cmp(ms.S[i]) != 0 {
			return fmt.Sprintf("scalar slot %d = %x, model %x", i, v, ms.S[i])
		}
	}
	return ""
}

// ---------------------------------------------------------------- operations

// opinst is one operation instance: name + slot assignment.
type opinst struct {
	name string
	// uses: point slots read as operands (must be initialised, else panic expected)
	uses []int
	// apply on the implementation; returns (returned pointer == receiver or n/a, error returned)
	impl func(ps []*Point, ss []*Scalar) (okRet bool, err error)
	// model transition; fail=true: the call must return an error and leave everything unchanged
	model func(ms *mstate) (fail bool)
	// window: returns false if the resulting model state leaves the explored window (pruned)
}

var (
	opinsts []opinst
	encs    [][]byte // encodings used by decode operations
)

func inWindow(p ref.Pt) bool {
	if p.Inf {
		return true
	}
	for k := 1; k <= 8; k++ {
		q := ref.G().Mul(big.NewInt(int64(k)))
		if p.X.Cmp(q.X) == 0 {
			return true
		}
	}
	return windowExtra[p.Key()]
}

var windowExtra = map[string]bool{}

func scWindow(s *big.Int) bool {
	return s.BitLen() <= 3 || new(big.Int).Sub(ref.N, s).BitLen() <= 3
}

func cp(p ref.Pt) *ref.Pt { q := p; return &q }

func buildOps() {
	g := ref.G()
	uni := bytes.Repeat([]byte{0x42}, 48)
	uniPt := ref.MapToCurve(ref.ModP(ref.OS2IP(uni)))
	windowExtra[uniPt.Key()] = true
	windowExtra[uniPt.Neg().Key()] = true
	encs = [][]byte{g.Compressed(), g.Mul(big.NewInt(2)).Uncompressed(), {0}, // valid
		append([]byte{2}, ref.B32(big.NewInt(5))...),                                                       // x^3+7 non-residue
		append([]byte{4}, append(ref.B32(ref.Gx), ref.B32(new(big.Int).Add(ref.Gy, big.NewInt(1)))...)...), // off curve
		append([]byte{3}, ref.B32(ref.P)...),                                                               // x = p
		{7}, {}, append(g.Compressed(), 0)}
	add := func(o opinst) { opinsts = append(opinsts, o) }
	for v := 0; v < nP; v++ {
		v := v
		add(opinst{fmt.Sprintf("P%d.Identity()", v), nil, func(ps []*Point, ss []*Scalar) (bool, error) { return ps[v].Identity() == ps[v], nil },
			func(ms *mstate) bool { ms.P[v] = cp(ref.Infinity()); return false }})
		add(opinst{fmt.Sprintf("P%d.Generator()", v), nil, func(ps []*Point, ss []*Scalar) (bool, error) { return ps[v].Generator() == ps[v], nil },
			func(ms *mstate) bool { ms.P[v] = cp(g); return false }})
		add(opinst{fmt.Sprintf("P%d.SetUniformBytes(fixed)", v), nil, func(ps []*Point, ss []*Scalar) (bool, error) { return ps[v].SetUniformBytes(uni) == ps[v], nil },
			func(ms *mstate) bool { ms.P[v] = cp(uniPt); return false }})
		for ei, e := range encs {
			e, ei := e, ei
			for k, nm := range []string{"SetBytes", "SetCompressedBytes", "SetUncompressedBytes"} {
				k := k
				if k > 0 && ei > 4 {
					continue
				}
				add(opinst{fmt.Sprintf("P%d.%s(enc#%d)", v, nm, ei), nil, func(ps []*Point, ss []*Scalar) (bool, error) {
					var r *Point
					var err error
					switch k {
					case 0:
						r, err = ps[v].SetBytes(e)
					case 1:
						r, err = ps[v].SetCompressedBytes(e)
					case 2:
						r, err = ps[v].SetUncompressedBytes(e)
					}
					if err != nil {
						return r == nil, err
					}
					return r == ps[v], nil
				}, func(ms *mstate) bool {
					var p ref.Pt
					var err error
					switch k {
					case 0:
						p, err = ref.DecodePoint(e)
					case 1:
						p, err = ref.DecodeCompressed(e)
					case 2:
						p, err = ref.DecodeUncompressed(e)
					}
					if err != nil {
						return true
					}
					ms.P[v] = cp(p)
					return false
				}})
			}
		}
		for p := 0; p < nP; p++ {
			p := p
			un := func(name string, f func(v, p *Point) *Point, m func(ref.Pt) ref.Pt) {
				add(opinst{fmt.Sprintf("P%d.%s(P%d)", v, name, p), []int{p}, func(ps []*Point, ss []*Scalar) (bool, error) { return f(ps[v], ps[p]) == ps[v], nil },
					func(ms *mstate) bool { ms.P[v] = cp(m(*ms.P[p])); return false }})
			}
			un("Double", func(v, p *Point) *Point { return v.Double(p) }, ref.Pt.Double)
			un("Negate", func(v, p *Point) *Point { return v.Negate(p) }, ref.Pt.Neg)
			un("Set", func(v, p *Point) *Point { return v.Set(p) }, func(a ref.Pt) ref.Pt { return a })
			un("ConditionalNegate(ctrl=1)", func(v, p *Point) *Point { return v.ConditionalNegate(p, 1) }, ref.Pt.Neg)
			un("ConditionalNegate(ctrl=2)", func(v, p *Point) *Point { return v.ConditionalNegate(p, 2) }, ref.Pt.Neg)
			un("ConditionalNegate(ctrl=0)", func(v, p *Point) *Point { return v.ConditionalNegate(p, 0) }, func(a ref.Pt) ref.Pt { return a })
			for s := 0; s < nS; s++ {
				s := s
				add(opinst{fmt.Sprintf("P%d.ScalarMult(S%d,P%d)", v, s, p), []int{p}, func(ps []*Point, ss []*Scalar) (bool, error) { return ps[v].ScalarMult(ss[s], ps[p]) == ps[v], nil },
					func(ms *mstate) bool { ms.P[v] = cp(ms.P[p].Mul(ms.S[s])); return false }})
				if p == v || (p+v+s)%2 == 0 {
					add(opinst{fmt.Sprintf("P%d.DoubleScalarMultBasepointVartime(S%d,S%d,P%d)", v, s, 1-s, p), []int{p}, func(ps []*Point, ss []*Scalar) (bool, error) {
						return ps[v].DoubleScalarMultBasepointVartime(ss[s], ss[1-s], ps[p]) == ps[v], nil
					}, func(ms *mstate) bool { ms.P[v] = cp(ref.BaseMul(ms.S[s]).Add(ms.P[p].Mul(ms.S[1-s]))); return false }})
				}
			}
			for q := 0; q < nP; q++ {
				q := q
				bin := func(name string, f func(v, p, q *Point) *Point, m func(a, b ref.Pt) ref.Pt) {
					add(opinst{fmt.Sprintf("P%d.%s(P%d,P%d)", v, name, p, q), []int{p, q}, func(ps []*Point, ss []*Scalar) (bool, error) { return f(ps[v], ps[p], ps[q]) == ps[v], nil },
						func(ms *mstate) bool { ms.P[v] = cp(m(*ms.P[p], *ms.P[q])); return false }})
				}
				bin("Add", func(v, p, q *Point) *Point { return v.Add(p, q) }, ref.Pt.Add)
				bin("Subtract", func(v, p, q *Point) *Point { return v.Subtract(p, q) }, ref.Pt.Sub)
				bin("ConditionalSelect(ctrl=1)", func(v, p, q *Point) *Point { return v.ConditionalSelect(p, q, 1) }, func(a, b ref.Pt) ref.Pt { return b })
				if p != q {
					bin("ConditionalSelect(ctrl=1<<63)", func(v, p, q *Point) *Point { return v.ConditionalSelect(p, q, 1<<63) }, func(a, b ref.Pt) ref.Pt { return b })
					bin("ConditionalSelect(ctrl=0)", func(v, p, q *Point) *Point { return v.ConditionalSelect(p, q, 0) }, func(a, b ref.Pt) ref.Pt { return a })
				}
				for _, vt := range []bool{false, true} {
					vt := vt
					if (p+q+v)%2 == 1 && p != v && q != v {
						continue
					}
					nm := "MultiScalarMult"
					if vt {
						nm = "MultiScalarMultVartime"
					}
					add(opinst{fmt.Sprintf("P%d.%s([S0,S1],[P%d,P%d])", v, nm, p, q), []int{p, q}, func(ps []*Point, ss []*Scalar) (bool, error) {
						scs, pts := []*Scalar{ss[0], ss[1]}, []*Point{ps[p], ps[q]}
						if vt {
							return ps[v].MultiScalarMultVartime(scs, pts) == ps[v], nil
						}
						return ps[v].MultiScalarMult(scs, pts) == ps[v], nil
					}, func(ms *mstate) bool { ms.P[v] = cp(ms.P[p].Mul(ms.S[0]).Add(ms.P[q].Mul(ms.S[1]))); return false }})
				}
			}
		}
		for s := 0; s < nS; s++ {
			s := s
			add(opinst{fmt.Sprintf("P%d.ScalarBaseMult(S%d)", v, s), nil, func(ps []*Point, ss []*Scalar) (bool, error) { return ps[v].ScalarBaseMult(ss[s]) == ps[v], nil },
				func(ms *mstate) bool { ms.P[v] = cp(ref.BaseMul(ms.S[s])); return false }})
		}
	}
	// observers: must panic on an uninitialised operand, must not change anything otherwise
	for p := 0; p < nP; p++ {
		p := p
		add(opinst{fmt.Sprintf("observe(P%d): IsIdentity/IsYOdd/CompressedBytes/UncompressedBytes/Equal(self)", p), []int{p}, func(ps []*Point, ss []*Scalar) (bool, error) {
			ps[p].IsIdentity()
			ps[p].IsYOdd()
			ps[p].CompressedBytes()
			ps[p].UncompressedBytes()
			ps[p].Equal(ps[p])
			secp256k1.NewPointFrom(ps[p])
			return true, nil
		}, func(ms *mstate) bool { return false }})
		for q := 0; q < nP; q++ {
			q := q
			if q == p {
				continue
			}
			add(opinst{fmt.Sprintf("P%d.Equal(P%d)", p, q), []int{p, q}, func(ps []*Point, ss []*Scalar) (bool, error) { ps[p].Equal(ps[q]); return true, nil },
				func(ms *mstate) bool { return false }})
		}
	}
	// scalars
	for v := 0; v < nS; v++ {
		v := v
		for a := 0; a < nS; a++ {
			a := a
			add(opinst{fmt.Sprintf("S%d.Negate(S%d)", v, a), nil, func(ps []*Point, ss []*Scalar) (bool, error) { return ss[v].Negate(ss[a]) == ss[v], nil },
				func(ms *mstate) bool { ms.S[v] = ref.ZnNeg(ms.S[a]); return false }})
			for b := 0; b < nS; b++ {
				b := b
				add(opinst{fmt.Sprintf("S%d.Add(S%d,S%d)", v, a, b), nil, func(ps []*Point, ss []*Scalar) (bool, error) { return ss[v].Add(ss[a], ss[b]) == ss[v], nil },
					func(ms *mstate) bool { ms.S[v] = ref.ZnAdd(ms.S[a], ms.S[b]); return false }})
				add(opinst{fmt.Sprintf("S%d.Product(S%d,S%d,S%d)", v, a, b, a), nil, func(ps []*Point, ss []*Scalar) (bool, error) { return ss[v].Product(ss[a], ss[b], ss[a]) == ss[v], nil },
					func(ms *mstate) bool { ms.S[v] = ref.ZnMul(ref.ZnMul(ms.S[a], ms.S[b]), ms.S[a]); return false }})
				add(opinst{fmt.Sprintf("S%d.Sum(S%d,S%d,S%d)", v, a, b, b), nil, func(ps []*Point, ss []*Scalar) (bool, error) { return ss[v].Sum(ss[a], ss[b], ss[b]) == ss[v], nil },
					func(ms *mstate) bool { ms.S[v] = ref.ZnAdd(ref.ZnAdd(ms.S[a], ms.S[b]), ms.S[b]); return false }})
				add(opinst{fmt.Sprintf("S%d.Subtract(S%d,S%d)", v, a, b), nil, func(ps []*Point, ss []*Scalar) (bool, error) { return ss[v].Subtract(ss[a], ss[b]) == ss[v], nil },
					func(ms *mstate) bool { ms.S[v] = ref.ZnSub(ms.S[a], ms.S[b]); return false }})
				add(opinst{fmt.Sprintf("S%d.Multiply(S%d,S%d)", v, a, b), nil, func(ps []*Point, ss []*Scalar) (bool, error) { return ss[v].Multiply(ss[a], ss[b]) == ss[v], nil },
					func(ms *mstate) bool { ms.S[v] = ref.ZnMul(ms.S[a], ms.S[b]); return false }})
			}
		}
		for _, val := range []*big.Int{big.NewInt(2), ref.N, new(big.Int).Sub(ref.R256, big.NewInt(1))} {
			val := val
			add(opinst{fmt.Sprintf("S%d.SetCanonicalBytes(%x..)", v, ref.B32(val)[:2]), nil, func(ps []*Point, ss []*Scalar) (bool, error) {
				r, err := ss[v].SetCanonicalBytes(ref.A32(val))
				if err != nil {
					return r == nil, err
				}
				return r == ss[v], nil
			}, func(ms *mstate) bool {
				if val.Cmp(ref.N) >= 0 {
					return true
				}
				ms.S[v] = new(big.Int).Set(val)
				return false
			}})
		}
	}
}

// step applies one operation instance to a state. Returns successor states or a mismatch.
// leaf=true: the call panicked as required (post-panic state is not promised and not judged).
func step(is istate, ms mstate, o *opinst) (nis istate, nms mstate, leaf bool, mismatch string) {
	ps, ss := materialise(is)
	mustPanic := false
	for _, u := range o.uses {
		if ms.P[u] == nil {
			mustPanic = true
		}
	}
	var okRet bool
	var err error
	pn := lib.Try(func() { okRet, err = o.impl(ps, ss) })
	if mustPanic {
		if pn == "" {
			return is, ms, true, "an uninitialised (zero-value) Point was used as an operand and the call returned instead of panicking"
		}
		return is, ms, true, ""
	}
	if pn != "" {
		return is, ms, true, "unexpected panic: " + pn
	}
	nms = ms
	fail := o.model(&nms)
	nis = capture(ps, ss)
	if fail {
		if err == nil {
			return nis, ms, true, "a call that must fail (invalid encoding) returned no error"
		}
		if !okRet {
			return nis, ms, true, "a failing call returned a non-nil object"
		}
		if nis != is {
			return nis, ms, true, "a failing call modified its receiver (or another object)"
		}
		return is, ms, false, ""
	}
	if err != nil {
		return nis, nms, true, "unexpected error: " + err.Error()
	}
	if !okRet {
		return nis, nms, true, "the call did not return its receiver"
	}
	if m := conforms(nis, nms); m != "" {
		return nis, nms, true, m
	}
	return nis, nms, false, ""
}

type node struct {
	is   istate
	ms   mstate
	path []int // operation instance indices from the initial state
}

func initialState() (istate, mstate) {
	var is istate
	var ms mstate
	// P0: zero value (uninitialised); P1 = 3G with Z != 1; P2 = identity as (0, Y != 1, 0)
	p1 := lib.MkPTRep(ref.G().Mul(big.NewInt(3)), big.NewInt(0x55))
	p2 := lib.MkPTRep(ref.Infinity(), big.NewInt(9))
	ps := []*Point{new(Point), p1, p2}
	ss := []*Scalar{lib.MkSC(big.NewInt(2)), lib.MkSC(new(big.Int).Sub(ref.N, big.NewInt(1)))}
	is = capture(ps, ss)
	ms.P[1] = cp(ref.G().Mul(big.NewInt(3)))
	ms.P[2] = cp(ref.Infinity())
	ms.S[0] = big.NewInt(2)
	ms.S[1] = new(big.Int).Sub(ref.N, big.NewInt(1))
	return is, ms
}

// replayPath re-executes a path from the initial state on fresh objects.
func replayPath(path []int) string {
	is, ms := initialState()
	for i, oi := range path {
		if oi < 0 || oi >= len(opinsts) {
			return "bad path"
		}
		var leaf bool
		var m string
		is, ms, leaf, m = step(is, ms, &opinsts[oi])
		if m != "" {
			return fmt.Sprintf("step %d (%s): %s", i+1, opinsts[oi].name, m)
		}
		if leaf && i != len(path)-1 {
			return ""
		}
	}
	return ""
}

func pathNames(path []int) []string {
	var o []string
	for _, i := range path {
		o = append(o, opinsts[i].name)
	}
	return o
}

func bfs(depth int) {
	is0, ms0 := initialState()
	seen := map[[16]byte]struct{}{is0.key(): {}}
	frontier := []node{{is0, ms0, nil}}
	var mu sync.Mutex
	var pruned, leaves int64
	for d := 1; d <= depth; d++ {
		var next []node
		var newLast int64
		mc.Par(len(frontier), func(i int) {
			if R.Expired() {
				return
			}
			n := frontier[i]
			var local []node
			var lastKeys [][16]byte
			var t, pr, lv int64
			for oi := range opinsts {
				o := &opinsts[oi]
				t++
				nis, nms, leaf, m := step(n.is, n.ms, o)
				if m != "" {
					path := append(append([]int{}, n.path...), oi)
					R.Mismatch("bfs/"+strings.SplitN(o.name, "(", 2)[0][3:]+"/"+classify(m), "path", m, mc.D{"path": path, "ops": pathNames(path)})
					continue
				}
				if leaf {
					lv++
					continue
				}
				// window pruning
				out := false
				for _, p := range nms.P {
					if p != nil && !inWindow(*p) {
						out = true
					}
				}
				for _, s := range nms.S {
					if !scWindow(s) {
						out = true
					}
				}
				if out {
					pr++
					continue
				}
				if d == depth { // last level: the state is counted, not expanded — keep its key only
					lastKeys = append(lastKeys, nis.key())
					continue
				}
				local = append(local, node{nis, nms, append(append([]int{}, n.path...), oi)})
			}
			R.T(t)
			mu.Lock()
			pruned += pr
			leaves += lv
			for _, c := range local {
				k := c.is.key()
				if _, ok := seen[k]; !ok {
					seen[k] = struct{}{}
					next = append(next, c)
				}
			}
			for _, k := range lastKeys {
				if _, ok := seen[k]; !ok {
					seen[k] = struct{}{}
					newLast++
				}
			}
			mu.Unlock()
		})
		R.Class(fmt.Sprintf("bfs/depth %d: new states", d), int64(len(next))+newLast)
		// deterministic order
		sort.Slice(next, func(a, b int) bool { return fmt.Sprint(next[a].path) < fmt.Sprint(next[b].path) })
		frontier = next
		if d == depth {
			break
		}
		capN := 8000 // quick: depth 3 is complete (about 6.3 k states at depth 2)
		if R.Thorough() {
			capN = 1 << 30 // thorough: depth 4 is complete unless the internal time budget stops it (reported as a cap)
		}
		if len(frontier) > capN {
			R.Cap(fmt.Sprintf("BFS depth %d: %d new states, expanding an evenly spaced %d of them at the next level", d, len(frontier), capN))
			step := len(frontier) / capN
			var sub []node
			for i := 0; i < len(frontier); i += step {
				sub = append(sub, frontier[i])
			}
			frontier = sub
		}
	}
	R.States(int64(len(seen)))
	R.NTs(int64(len(seen)))
	R.Class("bfs/transitions leaving the window (pruned)", pruned)
	R.Class("bfs/panic leaves (uninitialised operand refused)", leaves)
	R.Bound("bfs_depth", depth)
	R.Bound("operation_instances", len(opinsts))
	if R.Expired() {
		R.Cap("BFS stopped by the internal time budget")
	}
}

func classify(m string) string {
	switch {
	case strings.Contains(m, "uninitialised"):
		return "uninitialised operand accepted"
	case strings.Contains(m, "failing call"):
		return "failed call not a no-op"
	case strings.Contains(m, "invalid object"):
		return "invalid object"
	case strings.Contains(m, "model"):
		return "state differs from model"
	}
	return "other"
}

// ---------------------------------------------------------------- (b) uninitialised-operand matrix

func validArg(t reflect.Type) (reflect.Value, bool) {
	switch t {
	case reflect.TypeOf((*Point)(nil)):
		return reflect.ValueOf(lib.MkPTRep(ref.G().Mul(big.NewInt(5)), big.NewInt(3))), true
	case reflect.TypeOf((*Scalar)(nil)):
		return reflect.ValueOf(lib.MkSC(big.NewInt(7))), true
	case reflect.TypeOf([]*Point(nil)):
		return reflect.ValueOf([]*Point{secp256k1.NewGeneratorPoint(), lib.MkPT(ref.G().Double())}), true
	case reflect.TypeOf([]*Scalar(nil)):
		return reflect.ValueOf([]*Scalar{lib.MkSC(big.NewInt(2)), lib.MkSC(big.NewInt(3))}), true
	case reflect.TypeOf(uint64(0)):
		return reflect.ValueOf(uint64(1)), true
	case reflect.TypeOf([]byte(nil)):
		return reflect.ValueOf(bytes.Repeat([]byte{0x21}, 48)), true
	}
	return reflect.Value{}, false
}

var zeroScalars bool

func uninitMatrix() {
	pt := reflect.TypeOf((*Point)(nil))
	var unclassified []string
	n := 0
	for i := 0; i < pt.NumMethod(); i++ {
		m := pt.Method(i)
		mt := m.Type
		args := make([]reflect.Value, mt.NumIn())
		ok := true
		for a := 1; a < mt.NumIn(); a++ {
			v, good := validArg(mt.In(a))
			if !good {
				ok = false
			}
			args[a] = v
		}
		if !ok {
			unclassified = append(unclassified, m.Name+" (argument type not constructible by the harness)")
			continue
		}
		setter := mt.NumOut() >= 1 && mt.Out(0) == pt
		if strings.HasPrefix(m.Name, "Set") && strings.Contains(m.Name, "Bytes") && m.Name != "SetUniformBytes" {
			// decoders: the byte argument decides success; receiver is write-only. Covered by the BFS and C06.
			args[1] = reflect.ValueOf(ref.G().Compressed())
			if m.Name == "SetUncompressedBytes" {
				args[1] = reflect.ValueOf(ref.G().Uncompressed())
			}
		}
		call := func(zero int) (panicked bool) {
			in := make([]reflect.Value, len(args))
			copy(in, args)
			for a := 1; a < len(in); a++ { // fresh valid objects each time
				if v, good := validArg(mt.In(a)); good && in[a].Kind() != reflect.Slice || mt.In(a) != reflect.TypeOf([]byte(nil)) && good {
					in[a] = v
				}
			}
			in[0] = reflect.ValueOf(lib.MkPT(ref.G().Mul(big.NewInt(9))))
			switch {
			case zero == 0:
				in[0] = reflect.ValueOf(new(Point))
			case zero >= 400: // ONE zero-value object in every *Point argument position (valid receiver)
				z := reflect.ValueOf(new(Point))
				for a := 1; a < len(in); a++ {
					if mt.In(a) == pt {
						in[a] = z
					}
				}
			case zero >= 300: // the SAME zero-value object is the receiver and argument zero-300 (z.Op(z, ...), z.Equal(z))
				z := reflect.ValueOf(new(Point))
				in[0], in[zero-300] = z, z
			case zero >= 200: // element of a []*Point, paired with a ZERO scalar at the same index
				s := in[zero-200].Interface().([]*Point)
				s[1] = new(Point)
				for a := 1; a < len(in); a++ {
					if ss, ok := in[a].Interface().([]*Scalar); ok {
						ss[1] = secp256k1.NewScalar()
					}
				}
			case zero >= 100: // element of a []*Point
				s := in[zero-100].Interface().([]*Point)
				s[1] = new(Point)
			default:
				in[zero] = reflect.ValueOf(new(Point))
			}
			if zero >= 500 && zero < 700 { // a list of ONE element: the uninitialised point (600+: paired with a zero scalar)
				a := zero - 500
				if zero >= 600 {
					a = zero - 600
				}
				in[a] = reflect.ValueOf([]*Point{new(Point)})
				for b := 1; b < len(in); b++ {
					if _, ok := in[b].Interface().([]*Scalar); ok {
						sc := lib.MkSC(big.NewInt(5))
						if zero >= 600 {
							sc = secp256k1.NewScalar()
						}
						in[b] = reflect.ValueOf([]*Scalar{sc})
					}
				}
			}
			if zeroScalars { // every scalar operand is zero: "nothing to compute" must not mean "nothing to check"
				for b := 1; b < len(in); b++ {
					switch v := in[b].Interface().(type) {
					case *Scalar:
						in[b] = reflect.ValueOf(secp256k1.NewScalar())
					case []*Scalar:
						for i := range v {
							v[i] = secp256k1.NewScalar()
						}
					}
				}
			}
			return lib.Try(func() { m.Func.Call(in) }) != ""
		}
		// baseline: all operands valid => no panic
		R.T(1)
		n++
		if lib.Try(func() {
			in := make([]reflect.Value, len(args))
			copy(in, args)
			in[0] = reflect.ValueOf(lib.MkPT(ref.G().Mul(big.NewInt(9))))
			m.Func.Call(in)
		}) != "" {
			R.Fail("uninit/"+m.Name+"/valid operands panic", "misc", map[string]any{"method": m.Name}, nil)
		}
		// receiver
		R.T(1)
		n++
		if setter {
			if call(0) {
				R.Fail("uninit/"+m.Name+"/zero-value receiver rejected", "misc", map[string]any{"method": m.Name, "what": "a setter must accept a zero-value (write-only) receiver"}, nil)
			}
		} else if !call(0) {
			R.Fail("uninit/"+m.Name+"/zero-value receiver accepted", "misc", map[string]any{"method": m.Name, "what": "an observer computed on an uninitialised Point instead of panicking"}, nil)
		}
		for a := 1; a < mt.NumIn(); a++ {
			// the same cells again with every scalar operand zero, and with one-element lists
			zeroScalars = true
			switch mt.In(a) {
			case pt:
				R.T(1)
				n++
				if !call(a) {
					R.Fail(fmt.Sprintf("uninit/%s/arg %d zero-value accepted when the scalar operands are zero", m.Name, a), "misc", map[string]any{"method": m.Name, "arg": a, "what": "uninitialised Point operand did not panic when every scalar operand is zero"}, nil)
				}
			case reflect.TypeOf([]*Point(nil)):
				R.T(1)
				n++
				if !call(100 + a) {
					R.Fail(fmt.Sprintf("uninit/%s/list element zero-value accepted when all scalars are zero", m.Name), "misc", map[string]any{"method": m.Name, "what": "uninitialised Point inside a list did not panic when every scalar is zero"}, nil)
				}
			}
			zeroScalars = false
			if mt.In(a) == reflect.TypeOf([]*Point(nil)) {
				R.T(2)
				n += 2
				if !call(500 + a) {
					R.Fail(fmt.Sprintf("uninit/%s/one-element list with a zero-value point accepted", m.Name), "misc", map[string]any{"method": m.Name, "what": "uninitialised Point as the only list element did not panic"}, nil)
				}
				if !call(600 + a) {
					R.Fail(fmt.Sprintf("uninit/%s/one-element list with a zero-value point and a zero scalar accepted", m.Name), "misc", map[string]any{"method": m.Name, "what": "uninitialised Point as the only list element, paired with a zero scalar, did not panic"}, nil)
				}
			}
			switch mt.In(a) {
			case pt:
				R.T(1)
				n++
				if !call(a) {
					R.Fail(fmt.Sprintf("uninit/%s/arg %d zero-value accepted", m.Name, a), "misc", map[string]any{"method": m.Name, "arg": a, "what": "uninitialised Point operand did not panic"}, nil)
				}
				R.T(2)
				n += 2
				if !call(300 + a) {
					R.Fail(fmt.Sprintf("uninit/%s/arg %d zero-value accepted when it is also the receiver", m.Name, a), "misc", map[string]any{"method": m.Name, "arg": a, "what": "the same uninitialised Point as receiver and operand did not panic"}, nil)
				}
				if !call(400) {
					R.Fail(fmt.Sprintf("uninit/%s/one zero-value object in every point argument accepted", m.Name), "misc", map[string]any{"method": m.Name, "what": "uninitialised Point operand (the same object in every argument position) did not panic"}, nil)
				}
			case reflect.TypeOf([]*Point(nil)):
				R.T(1)
				n++
				if !call(100 + a) {
					R.Fail(fmt.Sprintf("uninit/%s/list element zero-value accepted", m.Name), "misc", map[string]any{"method": m.Name, "what": "uninitialised Point inside a list did not panic"}, nil)
				}
				R.T(1)
				n++
				if !call(200 + a) {
					R.Fail(fmt.Sprintf("uninit/%s/list element zero-value with zero scalar accepted", m.Name), "misc", map[string]any{"method": m.Name, "what": "uninitialised Point inside a list, paired with a zero scalar, did not panic"}, nil)
				}
			}
		}
	}
	// package-level functions taking *Point
	fns := map[string]func(p *Point){
		"secp256k1.NewPointFrom":               func(p *Point) { secp256k1.NewPointFrom(p) },
		"secec.NewPublicKeyFromPoint":          func(p *Point) { secec.NewPublicKeyFromPoint(p) },
		"bitcoin.NewSchnorrPublicKeyFromPoint": func(p *Point) { bitcoin.NewSchnorrPublicKeyFromPoint(p) },
	}
	for name, f := range fns {
		R.T(2)
		n += 2
		if lib.Try(func() { f(new(Point)) }) == "" {
			R.Fail("uninit/"+name, "misc", map[string]any{"function": name, "what": "uninitialised Point accepted"}, nil)
		}
		if lib.Try(func() { f(secp256k1.NewGeneratorPoint()) }) != "" {
			R.Fail("uninit/"+name+"/valid", "misc", map[string]any{"function": name, "what": "valid point panics"}, nil)
		}
	}
	R.Class("uninitialised-operand matrix cells", int64(n))
	if len(unclassified) > 0 {
		R.Note("unclassified methods (listed, not judged): " + strings.Join(unclassified, "; "))
	}
}

// ---------------------------------------------------------------- (c) key immutability matrix

// observe collects every observation of a key: all zero-argument accessors returning []byte / *Scalar / *Point, plus behaviour.
func observe(k any) string {
	var sb strings.Builder
	v := reflect.ValueOf(k)
	t := v.Type()
	for i := 0; i < t.NumMethod(); i++ {
		m := t.Method(i)
		if m.Type.NumIn() != 1 || m.Type.NumOut() != 1 {
			continue
		}
		out := m.Func.Call([]reflect.Value{v})[0]
		switch o := out.Interface().(type) {
		case []byte:
			fmt.Fprintf(&sb, "%s=%x;", m.Name, o)
		case *Scalar:
			fmt.Fprintf(&sb, "%s=%x;", m.Name, o.Bytes())
		case *Point:
			fmt.Fprintf(&sb, "%s=%x;", m.Name, o.UncompressedBytes())
		}
	}
	dg := ref.TaggedHash("verif/C18", []byte("digest"))
	peer := lib.MkPub(ref.G().Mul(big.NewInt(77)))
	switch key := k.(type) {
	case *secec.PrivateKey:
		sig, _ := key.Sign(secec.RFC6979SHA256(), dg, nil)
		sh, _ := key.ECDH(peer)
		fmt.Fprintf(&sb, "sig=%x;ecdh=%x;pub=%s", sig, sh, observe(key.PublicKey()))
	case *secec.PublicKey:
		sh, _ := lib.MkPriv(big.NewInt(5)).ECDH(key)
		fmt.Fprintf(&sb, "ecdh=%x;verify=%v", sh, key.Verify(dg, ref.DERBuildSig(big.NewInt(1), big.NewInt(1)), nil))
	case *bitcoin.SchnorrPrivateKey:
		sig, _ := key.Sign(mc.Script{Src: "zero", Mode: "full", FailAfter: -1}.New(), dg, nil)
		fmt.Fprintf(&sb, "sig=%x;pub=%s", sig, observe(key.PublicKey()))
	case *bitcoin.SchnorrPublicKey:
		fmt.Fprintf(&sb, "verify=%v", key.Verify(dg, make([]byte, 64)))
	}
	return sb.String()
}

// scribble mutates every value handed out by the key's accessors.
func scribble(k any) int {
	v := reflect.ValueOf(k)
	t := v.Type()
	n := 0
	for i := 0; i < t.NumMethod(); i++ {
		m := t.Method(i)
		if m.Type.NumIn() != 1 || m.Type.NumOut() != 1 {
			continue
		}
		out := m.Func.Call([]reflect.Value{v})[0]
		switch o := out.Interface().(type) {
		case []byte:
			for j := range o {
				o[j] ^= 0xff
			}
			n++
		case *Scalar:
			o.Add(o, lib.MkSC(big.NewInt(1)))
			n++
		case *Point:
			o.Double(o)
			o.Identity()
			n++
		}
	}
	return n
}

// retain collects the []byte results of all accessors (the originals and private copies).
func retain(k any) (held, copies [][]byte) {
	v := reflect.ValueOf(k)
	t := v.Type()
	for i := 0; i < t.NumMethod(); i++ {
		m := t.Method(i)
		if m.Type.NumIn() != 1 || m.Type.NumOut() != 1 {
			continue
		}
		if b, ok := m.Func.Call([]reflect.Value{v})[0].Interface().([]byte); ok {
			held = append(held, b)
			copies = append(copies, append([]byte{}, b...))
		}
	}
	return
}

func immutability() {
	d := ref.ModN(ref.OS2IP(ref.TaggedHash("verif/C18", []byte("d"))))
	for ref.BaseMul(d).Y.Bit(0) == 0 {
		d = ref.ZnAdd(d, big.NewInt(1))
	}
	q := ref.BaseMul(d)
	dg := ref.TaggedHash("verif/C18", []byte("digest"))
	r, s, v := ref.ECDSASignRFC6979(d, dg)
	type ctor struct {
		name string
		mk   func() (key any, mutate func())
	}
	flip := func(b []byte) func() {
		return func() {
			for i := range b {
				b[i] ^= 0xff
			}
		}
	}
	ctors := []ctor{
		{"secec.NewPrivateKey(bytes)", func() (any, func()) { b := ref.B32(d); k, _ := secec.NewPrivateKey(b); return k, flip(b) }},
		{"secec.NewPrivateKeyFromScalar(s)", func() (any, func()) {
			sc := lib.MkSC(d)
			k, _ := secec.NewPrivateKeyFromScalar(sc)
			return k, func() { sc.Add(sc, sc); sc.Zero() }
		}},
		{"secec.NewPublicKey(uncompressed)", func() (any, func()) { b := q.Uncompressed(); k, _ := secec.NewPublicKey(b); return k, flip(b) }},
		{"secec.NewPublicKey(compressed)", func() (any, func()) { b := q.Compressed(); k, _ := secec.NewPublicKey(b); return k, flip(b) }},
		{"secec.NewPublicKeyFromPoint(p)", func() (any, func()) {
			p := lib.MkPTRep(q, big.NewInt(0x31))
			k, _ := secec.NewPublicKeyFromPoint(p)
			return k, func() { p.Double(p); p.Identity() }
		}},
		{"secec.ParseASN1PublicKey(uncompressed)", func() (any, func()) {
			b := ref.SPKIBuild(q.Uncompressed())
			k, _ := secec.ParseASN1PublicKey(b)
			return k, flip(b)
		}},
		{"secec.ParseASN1PublicKey(compressed)", func() (any, func()) {
			b := ref.SPKIBuild(q.Compressed())
			k, _ := secec.ParseASN1PublicKey(b)
			return k, flip(b)
		}},
		{"secec.RecoverPublicKey(digest,r,s,v)", func() (any, func()) {
			dgc := append([]byte{}, dg...)
			rs, ss := lib.MkSC(r), lib.MkSC(s)
			k, _ := secec.RecoverPublicKey(dgc, rs, ss, v)
			return k, func() { flip(dgc)(); rs.Zero(); ss.Add(ss, ss) }
		}},
		{"PrivateKey.PublicKey()", func() (any, func()) { k := lib.MkPriv(d); return k.PublicKey(), func() {} }},
		{"bitcoin.NewSchnorrPrivateKey(bytes)", func() (any, func()) { b := ref.B32(d); k, _ := bitcoin.NewSchnorrPrivateKey(b); return k, flip(b) }},
		{"bitcoin.NewSchnorrPrivateKeyFromECDSA(sk)", func() (any, func()) {
			sk := lib.MkPriv(d)
			k := bitcoin.NewSchnorrPrivateKeyFromECDSA(sk)
			return k, func() { scribble(sk); scribble(sk.PublicKey()) }
		}},
		{"bitcoin.NewSchnorrPublicKey(bytes)", func() (any, func()) { b := ref.B32(q.X); k, _ := bitcoin.NewSchnorrPublicKey(b); return k, flip(b) }},
		{"bitcoin.NewSchnorrPublicKeyFromPoint(p)", func() (any, func()) {
			p := lib.MkPTRep(q, big.NewInt(0x32))
			k, _ := bitcoin.NewSchnorrPublicKeyFromPoint(p)
			return k, func() { p.Negate(p); p.Identity() }
		}},
		{"bitcoin.NewSchnorrPublicKeyFromPoint(-p) (the other y parity)", func() (any, func()) {
			p := lib.MkPTRep(q.Neg(), big.NewInt(0x33))
			k, _ := bitcoin.NewSchnorrPublicKeyFromPoint(p)
			return k, func() { p.Double(p); p.Negate(p) }
		}},
		{"bitcoin.NewSchnorrPublicKeyFromECDSA(pk of -p) (the other y parity)", func() (any, func()) {
			pk := lib.MkPub(q.Neg())
			k := bitcoin.NewSchnorrPublicKeyFromECDSA(pk)
			return k, func() { scribble(pk) }
		}},
		{"bitcoin.NewSchnorrPublicKeyFromECDSA(pk)", func() (any, func()) {
			pk := lib.MkPub(q)
			k := bitcoin.NewSchnorrPublicKeyFromECDSA(pk)
			return k, func() { scribble(pk) }
		}},
		{"ECDSA key after deriving Schnorr keys from it", func() (any, func()) {
			sk := lib.MkPriv(d)
			return sk, func() {
				s1 := bitcoin.NewSchnorrPrivateKeyFromECDSA(sk)
				scribble(s1)
				scribble(s1.PublicKey())
				scribble(bitcoin.NewSchnorrPublicKeyFromECDSA(sk.PublicKey()))
			}
		}},
	}
	cells := 0
	for _, c := range ctors {
		key, mutate := c.mk()
		if key == nil || reflect.ValueOf(key).IsNil() {
			R.Fail("immutability/"+c.name+"/constructor failed", "misc", nil, nil)
			continue
		}
		before := observe(key)
		// fresh twin built the same way, never touched: the expected observation
		twin, _ := c.mk()
		if observe(twin) != before {
			R.Fail("immutability/"+c.name+"/nondeterministic", "misc", map[string]any{"what": "two keys built identically observe differently"}, nil)
		}
		mutate() // caller mutates everything it passed in
		R.T(1)
		cells++
		if after := observe(key); after != before {
			R.Fail("immutability/"+c.name+"/input mutated after construction", "immut", map[string]any{"constructor": c.name, "what": "mutating the values passed to the constructor changed the key's behaviour", "before": trunc(before), "after": trunc(after)}, nil)
			continue
		}
		// retained outputs: values handed out earlier must not change when a twin key (same value, other object)
		// is observed and ITS outputs are scribbled over (shared backing arrays / shared scratch objects)
		held, heldCopies := retain(key)
		tw2, _ := c.mk()
		observe(tw2)
		scribble(tw2)
		R.T(1)
		cells++
		for i := range held {
			if !bytes.Equal(held[i], heldCopies[i]) {
				R.Fail("immutability/"+c.name+"/retained output changed", "immut", map[string]any{"constructor": c.name, "what": "a byte slice returned earlier by an accessor changed when another key object was used (shared backing array)"}, nil)
				break
			}
		}
		n := scribble(key) // caller mutates everything the key handed out
		if pk, ok := key.(*secec.PrivateKey); ok {
			n += scribble(pk.PublicKey())
		}
		if sk, ok := key.(*bitcoin.SchnorrPrivateKey); ok {
			n += scribble(sk.PublicKey())
		}
		R.T(int64(n))
		cells += n
		if after := observe(key); after != before {
			R.Fail("immutability/"+c.name+"/accessor result mutated", "immut", map[string]any{"constructor": c.name, "what": "mutating values returned by the key's accessors changed the key's behaviour", "before": trunc(before), "after": trunc(after)}, nil)
		}
	}
	R.Class("immutability matrix cells (constructor x mutated value)", int64(cells))
	R.Sample("immutability", map[string]any{"constructor": ctors[4].name, "steps": "build key; mutate the point passed in; mutate every []byte / *Scalar / *Point returned by every accessor (enumerated by reflection); all observations (accessors, RFC 6979 signature, ECDH, Verify) must be unchanged"})
}

// constructors: a constructor that must fail returns no object; whatever it returns is a valid object.
func constructors() {
	n := 0
	bad := func(name string, obj any, err error) {
		n++
		R.T(1)
		isNil := obj == nil || reflect.ValueOf(obj).IsNil()
		if err == nil || !isNil {
			R.Fail("constructors/"+name, "misc", map[string]any{"constructor": name, "what": "a call that must fail returned an object (or no error)"}, nil)
		}
	}
	one := big.NewInt(1)
	// RecoverPublicKey with s*R = e*G: Q is the point at infinity
	for _, k := range []*big.Int{one, big.NewInt(2), big.NewInt(0x1234567)} {
		rp := ref.BaseMul(k)
		r := ref.ModN(rp.X)
		for _, s := range []*big.Int{one, big.NewInt(7), ref.HalfN} {
			e := ref.ZnMul(s, k)
			q, err := secec.RecoverPublicKey(ref.B32(e), lib.MkSC(r), lib.MkSC(s), byte(rp.Y.Bit(0)))
			bad("RecoverPublicKey(s*R = e*G)", q, err)
			q2, err2 := secec.RecoverPublicKey(ref.B32(e), lib.MkSC(r), lib.MkSC(ref.ZnNeg(s)), byte(rp.Y.Bit(0)^1))
			bad("RecoverPublicKey(-s*(-R) = e*G)", q2, err2)
		}
	}
	q, err := secec.NewPublicKeyFromPoint(secp256k1.NewIdentityPoint())
	bad("NewPublicKeyFromPoint(identity)", q, err)
	q, err = secec.NewPublicKeyFromPoint(lib.MkPTRep(ref.Infinity(), big.NewInt(5)))
	bad("NewPublicKeyFromPoint(identity, Y != 1)", q, err)
	q, err = secec.NewPublicKey([]byte{0})
	bad("NewPublicKey(00)", q, err)
	q, err = secec.ParseASN1PublicKey(ref.SPKIBuild([]byte{0}))
	bad("ParseASN1PublicKey(identity)", q, err)
	sq, err := bitcoin.NewSchnorrPublicKeyFromPoint(secp256k1.NewIdentityPoint())
	bad("NewSchnorrPublicKeyFromPoint(identity)", sq, err)
	pk, err := secec.NewPrivateKeyFromScalar(secp256k1.NewScalar())
	bad("NewPrivateKeyFromScalar(0)", pk, err)
	pk, err = secec.NewPrivateKey(make([]byte, 32))
	bad("NewPrivateKey(0)", pk, err)
	pk, err = secec.NewPrivateKey(ref.B32(ref.N))
	bad("NewPrivateKey(n)", pk, err)
	spk, err := bitcoin.NewSchnorrPrivateKey(ref.B32(ref.N))
	bad("NewSchnorrPrivateKey(n)", spk, err)
	p, err := secp256k1.NewPointFromCoords(ref.A32(big.NewInt(5)), ref.A32(big.NewInt(1)))
	bad("NewPointFromCoords(off curve)", p, err)
	p, err = secp256k1.RecoverPoint(lib.MkSC(big.NewInt(5)), 0)
	bad("RecoverPoint(non x-coordinate)", p, err)
	R.Class("constructors that must fail and return no object", int64(n))
	// a constructor that cannot fail returns a valid object for EVERY input: the uniform-bytes map at and around its
	// exceptional arguments (u = 0, u^2 = 1/11 where the SWU denominator vanishes), in every admissible length and
	// in the encodings that only reach them after reduction mod p
	m := 0
	inv11 := ref.FpInv(big.NewInt(11))
	us := []*big.Int{new(big.Int), big.NewInt(1), ref.FpNeg(big.NewInt(1))}
	if sq, ok := ref.FpSqrt(inv11); ok {
		us = append(us, sq, ref.FpNeg(sq))
	}
	for _, u := range us {
		for _, l := range []int{32, 48, 64} {
			for _, mult := range []int64{0, 1, 5} { // u, u + p, u + 5p
				v := new(big.Int).Add(u, new(big.Int).Mul(ref.P, big.NewInt(mult)))
				if v.BitLen() > 8*l {
					continue
				}
				b := v.FillBytes(make([]byte, l))
				m++
				R.T(1)
				pt := secp256k1.NewIdentityPoint()
				msg := mc.Safe(func() string {
					if pt.SetUniformBytes(b) != pt {
						return "did not return the receiver"
					}
					return lib.CheckPoint(pt, ref.MapToCurve(u))
				})
				if msg != "" {
					R.Fail("constructors/SetUniformBytes(exceptional u)", "misc", map[string]any{"bytes": mc.Hex(b), "what": msg}, nil)
				}
			}
		}
	}
	R.Class("constructors that cannot fail, at their exceptional arguments", int64(m))
}

func trunc(s string) string {
	if len(s) > 400 {
		return s[:400] + "..."
	}
	return s
}

func main() {
	R = mc.New("C18")
	buildOps()
	mc.Register("path", func(d mc.D) string { return replayPath(d.IL("path")) })
	mc.MaybeReplay()
	R.Rule("states = distinct exact implementation states (stored limbs + validity flags of a 3-point / 2-scalar pool) reached by API call sequences from an initial pool (one zero-value point, one Z != 1 point, one identity with Y != 1); a transition is one operation instance (method x slot assignment = alias pattern) executed on the real objects and on the slot-wise reference model; after every step every slot must conform (flag, on-curve raw coordinates, abstract value; canonical scalars), uninitialised operands must panic, failing decodes must be no-ops; non-trivial = every reached state")
	R.Assume("math/big; /verif/ref; abstract points restricted to the window {kG: |k| <= 8} and two hash-to-curve images, scalars to |s| < 8 (transitions leaving the window are counted and pruned)")
	R.Config("amd64 default build")
	depth := 3
	if R.Thorough() {
		depth = 4
	}
	R.Sample("operation instance", map[string]any{"name": opinsts[len(opinsts)/3].name, "meaning": "Pn / Sn are pool slots; the same slot in several positions is the aliasing"})
	uninitMatrix()
	immutability()
	constructors()
	if R.Thorough() {
		R.SetBudget(3000) // the complete depth-4 search needs about 2*10^8 transitions
	}
	bfs(depth)
	R.Expect("bfs/panic leaves (uninitialised operand refused)", "uninitialised-operand matrix cells", "immutability matrix cells (constructor x mutated value)")
	R.Finish()
}
