// C19 — assembly and pure-Go builds are observationally identical.
//
// (a) the SSE2 lookups against a renamed copy of the portable ones in ONE
// binary (and both against the specification "entry idx-1 or the identity"),
// for all 16 indices x single-bit / all-ones / tagged / random table contents
// in every slot and limb, inside a canary-guarded destination;
// (b) a transcript of public-API enumerations produced by both builds and
// compared line by line.
package main

import (
	"bufio"
	"bytes"
	"crypto/sha256"
	"fmt"
	"math/big"
	"math/rand"
	"os"
	"os/exec"
	"path/filepath"
	"strings"

	secp256k1 "gitlab.com/yawning/secp256k1-voi"
	"gitlab.com/yawning/secp256k1-voi/secec"
	"gitlab.com/yawning/secp256k1-voi/secec/bitcoin"
	"gitlab.com/yawning/secp256k1-voi/secec/h2c"

	"verif/lib"
	"verif/mc"
	"verif/ref"
)

var (
	R   *mc.Report
	cfg string
)

type ptab = [15][3][4]uint64
type atab = [15][2][4]uint64

var poison = [4]uint64{0xdeadbeefdeadbeef, 0x0123456789abcdef, 0xfeedfacefeedface, 0x0badc0de0badc0de}

// montOne is the stored (Montgomery) form of 1: the y-limbs of the identity (0,1,0).
func montOne() [4]uint64 { return secp256k1.VerifFELimbs(lib.MkFE(big.NewInt(1))) }

// runProj: one projective lookup, asm/current vs portable copy vs specification.
func runProj(t *ptab, idx uint64, preValid bool) string {
	h := secp256k1.VerifLookupProjective
	if h == nil {
		return ""
	}
	pre := [3][4]uint64{poison, poison, poison}
	out, valid, ok := h(t, pre, preValid, idx)
	if idx == 0 {
		// the implicit entry 0 is the identity: any representative (0, Y != 0, 0) is one; WHICH one is only
		// constrained by "the assembly returns exactly what the portable routine returns" (checked below)
		if out[0] != ([4]uint64{}) || out[2] != ([4]uint64{}) || out[1] == ([4]uint64{}) || out[1] == poison {
			return fmt.Sprintf("lookupProjectivePoint(idx=0) = %x is not an identity representative (0, Y != 0, 0)", out)
		}
	} else if out != t[idx-1] {
		return fmt.Sprintf("lookupProjectivePoint(idx=%d) = %x, specification (entry idx-1) = %x", idx, out, t[idx-1])
	}
	if !ok {
		return "lookupProjectivePoint wrote outside the coordinate bytes of the destination (canary / padding / table modified)"
	}
	// "writing only the coordinate bytes of the destination" is stated for the SSE2 routines; the portable
	// routine initialises the destination through Identity(), which also sets the (internal) flag.
	if cfg == "asm" && valid != preValid {
		return "the SSE2 lookupProjectivePoint changed the destination's isValid flag (must write only the coordinate bytes)"
	}
	if hr := secp256k1.VerifLookupProjectiveRef; hr != nil {
		o2, _, ok2 := hr(t, pre, preValid, idx)
		if o2 != out || !ok2 {
			return fmt.Sprintf("assembly and portable lookupProjectivePoint disagree at idx=%d: asm %x, portable %x", idx, out, o2)
		}
	}
	return ""
}

func runAff(t *atab, idx uint64) string {
	h := secp256k1.VerifLookupAffine
	if h == nil {
		return ""
	}
	// callers always pass a zero-valued destination; for idx = 0 the routine's result is masked by the caller
	pre := [2][4]uint64{}
	if idx != 0 {
		pre = [2][4]uint64{poison, poison}
	}
	out, ok := h(t, pre, idx)
	var want [2][4]uint64
	if idx != 0 {
		want = t[idx-1]
	}
	if out != want {
		return fmt.Sprintf("lookupAffinePoint(idx=%d) = %x, specification = %x", idx, out, want)
	}
	if !ok {
		return "lookupAffinePoint wrote outside the coordinate bytes of the destination"
	}
	if hr := secp256k1.VerifLookupAffineRef; hr != nil {
		o2, ok2 := hr(t, pre, idx)
		if o2 != out || ok2 != ok {
			return fmt.Sprintf("assembly and portable lookupAffinePoint disagree at idx=%d: asm %x, portable %x", idx, out, o2)
		}
	}
	return ""
}

// table builders (deterministic from a small descriptor, for replay)
func projTable(kind string, slot, limb, bit int, seed int64) *ptab {
	t := new(ptab)
	switch kind {
	case "single-bit":
		t[slot][limb/4][limb%4] = 1 << uint(bit)
	case "all-ones":
		t[slot][limb/4][limb%4] = ^uint64(0)
	case "tagged":
		for s := 0; s < 15; s++ {
			for l := 0; l < 12; l++ {
				t[s][l/4][l%4] = uint64(0xA000000000000000) | uint64(s)<<32 | uint64(l)<<8 | uint64(seed&0xff)
			}
		}
	case "random":
		r := rand.New(rand.NewSource(seed))
		for s := 0; s < 15; s++ {
			for l := 0; l < 12; l++ {
				t[s][l/4][l%4] = r.Uint64()
			}
		}
	case "all-slots-ones":
		for s := 0; s < 15; s++ {
			for l := 0; l < 12; l++ {
				t[s][l/4][l%4] = ^uint64(0)
			}
		}
	}
	return t
}

func affTable(kind string, slot, limb, bit int, seed int64) *atab {
	p := projTable(kind, slot, 0, 0, seed)
	t := new(atab)
	switch kind {
	case "single-bit":
		t[slot][limb/4][limb%4] = 1 << uint(bit)
	case "all-ones":
		t[slot][limb/4][limb%4] = ^uint64(0)
	default:
		for s := 0; s < 15; s++ {
			t[s][0], t[s][1] = p[s][0], p[s][2]
		}
	}
	return t
}

func register() {
	mc.Register("proj", func(d mc.D) string {
		return runProj(projTable(d.S("kind"), d.I("slot"), d.I("limb"), d.I("bit"), int64(d.I("seed"))), uint64(d.I("idx")), d.Bool("pre_valid"))
	})
	mc.Register("aff", func(d mc.D) string {
		return runAff(affTable(d.S("kind"), d.I("slot"), d.I("limb"), d.I("bit"), int64(d.I("seed"))), uint64(d.I("idx")))
	})
}

func exploreLookups() {
	if secp256k1.VerifLookupProjective == nil {
		R.SkipHook("lookups")
		return
	}
	if secp256k1.VerifLookupProjectiveRef == nil && cfg == "asm" {
		R.SkipHook("renamed portable lookups (asm-vs-portable comparison in one binary); the specification comparison still runs")
	}
	if h := secp256k1.VerifLayout; h != nil {
		sz, ox, oy, oz, ov, sa := h()
		R.T(1)
		if sz != 0x68 || ox != 0 || oy != 32 || oz != 64 || ov != 96 || sa != 0x40 {
			R.Fail("layout/"+cfg, "misc", map[string]any{"what": "struct layout differs from the offsets the assembly hard-codes (Point 0x68: x@0 y@32 z@64 flag@96; affinePoint 0x40)", "got": fmt.Sprint(sz, ox, oy, oz, ov, sa)}, nil)
		}
	}
	type tcase struct {
		kind            string
		slot, limb, bit int
		seed            int64
	}
	var pc, ac []tcase
	for slot := 0; slot < 15; slot++ {
		for limb := 0; limb < 12; limb++ {
			for bit := 0; bit < 64; bit++ {
				pc = append(pc, tcase{"single-bit", slot, limb, bit, 0})
				if limb < 8 {
					ac = append(ac, tcase{"single-bit", slot, limb, bit, 0})
				}
			}
			pc = append(pc, tcase{"all-ones", slot, limb, 0, 0})
			if limb < 8 {
				ac = append(ac, tcase{"all-ones", slot, limb, 0, 0})
			}
		}
	}
	nr := 40
	if R.Thorough() {
		nr = 2000
	}
	for s := 0; s < nr; s++ {
		pc = append(pc, tcase{"random", 0, 0, 0, R.Seed*1000 + int64(s)})
		ac = append(ac, tcase{"random", 0, 0, 0, R.Seed*1000 + int64(s)})
	}
	for s := 0; s < 4; s++ {
		pc = append(pc, tcase{"tagged", 0, 0, 0, int64(s)})
		ac = append(ac, tcase{"tagged", 0, 0, 0, int64(s)})
	}
	pc = append(pc, tcase{"all-slots-ones", 0, 0, 0, 0}, tcase{"zero", 0, 0, 0, 0})
	ac = append(ac, tcase{"all-slots-ones", 0, 0, 0, 0}, tcase{"zero", 0, 0, 0, 0})
	mc.Par(len(pc), func(i int) {
		c := pc[i]
		t := projTable(c.kind, c.slot, c.limb, c.bit, c.seed)
		for idx := uint64(0); idx < 16; idx++ {
			for _, pv := range []bool{true, false} {
				R.T(1)
				if m := mc.Safe(func() string { return runProj(t, idx, pv) }); m != "" {
					R.Mismatch(fmt.Sprintf("lookup/projective/%s/idx=%d/%s", c.kind, idx, cfg), "proj", m, mc.D{"kind": c.kind, "slot": c.slot, "limb": c.limb, "bit": c.bit, "seed": int(c.seed), "idx": int(idx), "pre_valid": pv})
				}
			}
		}
		R.State(mc.HS(cfg, "p", fmt.Sprint(c)))
	})
	mc.Par(len(ac), func(i int) {
		c := ac[i]
		t := affTable(c.kind, c.slot, c.limb, c.bit, c.seed)
		for idx := uint64(0); idx < 16; idx++ {
			R.T(1)
			if m := mc.Safe(func() string { return runAff(t, idx) }); m != "" {
				R.Mismatch(fmt.Sprintf("lookup/affine/%s/idx=%d/%s", c.kind, idx, cfg), "aff", m, mc.D{"kind": c.kind, "slot": c.slot, "limb": c.limb, "bit": c.bit, "seed": int(c.seed), "idx": int(idx)})
			}
		}
		R.State(mc.HS(cfg, "a", fmt.Sprint(c)))
	})
	// tables at every 8-byte alignment class (the Go allocator only promises 8-byte alignment for these types)
	if m, n := lib.ProbeLookupAlignment(); strings.HasPrefix(m, "SKIP") {
		R.SkipHook("address-based lookup hooks / mmap: " + m)
	} else {
		R.T(int64(n))
		if m != "" {
			R.Fail("lookup/alignment/"+cfg, "probe", map[string]any{"config": cfg, "mismatch": m}, func() bool { mm, _ := lib.ProbeLookupAlignment(); return mm != "" })
		} else {
			R.Class(cfg+"/lookups on tables at address mod 16 in {0, 8} (harness-managed memory)", int64(n))
		}
	}
	R.NTs(int64(len(pc) + len(ac)))
	R.Class(cfg+"/projective tables x 16 indices x 2 flag states", int64(len(pc)))
	R.Class(cfg+"/affine tables x 16 indices", int64(len(ac)))
	R.Sample("lookup", map[string]any{"config": cfg, "table": "slot 7, limb 9 (z[1]) = 1<<63, all else zero", "indices": "0..15", "compared": "96 coordinate bytes vs specification and vs the other implementation; canary, padding, isValid, table read-only"})
	R.Note("observed, not judged: for index 0 the affine lookup's output is masked by its only caller; it is exercised with the caller's zero-valued destination")
}

// ---------------------------------------------------------------- (b) transcripts

func sum(parts ...[]byte) string {
	h := sha256.New()
	for _, p := range parts {
		h.Write(p)
		h.Write([]byte{0xff})
	}
	return fmt.Sprintf("%x", h.Sum(nil)[:12])
}

// enc is what a transcript line records about a resulting point: its encodings, and whether the OBJECT is a valid
// representative at all (raw coordinates on the curve or (0, Y != 0, 0), flag set) - a degenerate (0,0,0) encodes like
// the identity and compares Equal to everything, but it is not the same result.
func enc(p *secp256k1.Point) []byte {
	if p == nil {
		return []byte("nil")
	}
	_, bad := lib.PTVal(p)
	return []byte(string(p.UncompressedBytes()) + "|" + string(p.CompressedBytes()) + "|" + bad)
}

func transcript(th bool) []string {
	var lines []string
	emit := func(key string, parts ...[]byte) { lines = append(lines, key+" "+sum(parts...)) }
	guard := func(key string, f func()) {
		if pn := lib.Try(f); pn != "" {
			lines = append(lines, key+" PANIC "+pn)
		}
	}
	one := big.NewInt(1)
	sc := mc.GLVScalars(false)
	base := mc.ModAlphabet(ref.N, mc.ScalarConstants(), 1, 4, false)
	for i, v := range base {
		if i%3 == 0 || th {
			sc = append(sc, v)
		}
	}
	pts := mc.PointAlphabet(2, 1, 1)
	// fixed-base: all single bytes + alphabet
	for i := 0; i < 32; i++ {
		for b := 1; b < 256; b++ {
			if !th && b%5 != 0 && b > 16 {
				continue
			}
			s := new(big.Int).Lsh(big.NewInt(int64(b)), uint(8*i))
			if s.Cmp(ref.N) >= 0 {
				continue
			}
			guard("basemul", func() {
				emit(fmt.Sprintf("basemul byte %d@%d", b, i), enc(new(secp256k1.Point).ScalarBaseMult(lib.MkSC(s))))
			})
		}
	}
	for i, s := range sc {
		guard("basemul", func() { emit(fmt.Sprintf("basemul sc#%d", i), enc(new(secp256k1.Point).ScalarBaseMult(lib.MkSC(s.V)))) })
		for pi, p := range pts {
			if (i+pi)%4 != 0 && !th {
				continue
			}
			guard("mul", func() {
				pt := lib.MkPTRep(p.P, big.NewInt(int64(3+pi)))
				emit(fmt.Sprintf("scalarmult sc#%d pt#%d", i, pi), enc(new(secp256k1.Point).ScalarMult(lib.MkSC(s.V), pt)),
					enc(new(secp256k1.Point).DoubleScalarMultBasepointVartime(lib.MkSC(s.V), lib.MkSC(s.V), pt)))
			})
		}
	}
	// multi-scalar
	for i := 0; i+2 < len(sc); i += 3 {
		guard("msm", func() {
			ss := []*secp256k1.Scalar{lib.MkSC(sc[i].V), lib.MkSC(sc[i+1].V), lib.MkSC(sc[i+2].V)}
			ps := []*secp256k1.Point{lib.MkPT(pts[i%len(pts)].P), lib.MkPT(pts[(i+1)%len(pts)].P), lib.MkPTRep(pts[(i+2)%len(pts)].P, big.NewInt(9))}
			emit(fmt.Sprintf("msm #%d", i), enc(new(secp256k1.Point).MultiScalarMult(ss, ps)), enc(new(secp256k1.Point).MultiScalarMultVartime(ss, ps)),
				enc(new(secp256k1.Point).MultiScalarMult(ss[:2], ps[:2])))
		})
	}
	// ECDSA (RFC 6979), ECDH, Schnorr, h2c
	keys := []*big.Int{one, big.NewInt(2), new(big.Int).Sub(ref.N, one), ref.HalfN, ref.Lambda}
	for i := 0; i < 12; i++ {
		keys = append(keys, ref.ModN(ref.OS2IP(ref.TaggedHash("verif/C19", []byte{byte(i)}))))
	}
	for ki, d := range keys {
		for m := 0; m < 6; m++ {
			dg := ref.TaggedHash("verif/C19-dg", []byte{byte(m), byte(ki)})
			guard("ecdsa", func() {
				k := lib.MkPriv(d)
				sig, err := k.Sign(secec.RFC6979SHA256(), dg, &secec.ECDSAOptions{Encoding: secec.EncodingCompactRecoverable, SelfVerify: true})
				sig2, _ := k.Sign(mc.Script{Src: "counter", Mode: "full", FailAfter: -1}.New(), dg, nil)
				ok := k.PublicKey().Verify(dg, sig2, nil)
				var rec []byte
				if err == nil {
					r, s, v, _ := secec.ParseCompactRecoverableSignature(sig)
					if q, e2 := secec.RecoverPublicKey(dg, r, s, v); e2 == nil {
						rec = q.Bytes()
					}
				}
				emit(fmt.Sprintf("ecdsa key#%d msg#%d", ki, m), sig, sig2, []byte(fmt.Sprint(ok, err)), rec, k.PublicKey().Bytes())
			})
			guard("schnorr", func() {
				k, _ := bitcoin.NewSchnorrPrivateKey(ref.B32(d))
				sig, err := k.Sign(mc.Script{Src: "zero", Mode: "full", FailAfter: -1}.New(), dg[:m*5], nil)
				emit(fmt.Sprintf("schnorr key#%d msg#%d", ki, m), sig, []byte(fmt.Sprint(err, k.PublicKey().Verify(dg[:m*5], sig))), k.PublicKey().Bytes())
			})
		}
		for kj, d2 := range keys {
			if (ki+kj)%3 != 0 && !th {
				continue
			}
			guard("ecdh", func() {
				sh, err := lib.MkPriv(d).ECDH(lib.MkPriv(d2).PublicKey())
				emit(fmt.Sprintf("ecdh %d,%d", ki, kj), sh, []byte(fmt.Sprint(err)))
			})
		}
	}
	for i := 0; i < 40; i++ {
		guard("h2c", func() {
			dst := bytes.Repeat([]byte{byte('a' + i%7)}, 1+i*7)
			msg := bytes.Repeat([]byte{byte(i)}, i*3)
			p1, e1 := h2c.Secp256k1_XMD_SHA256_SSWU_RO(dst, msg)
			p2, e2 := h2c.Secp256k1_XMD_SHA256_SSWU_NU(dst, msg)
			emit(fmt.Sprintf("h2c #%d", i), enc(p1), enc(p2), []byte(fmt.Sprint(e1, e2)))
		})
	}
	// call shapes: "every public operation on every input" includes HOW an operation is called - the receiver among
	// the operands, the same object in several slots, zero scalars and identity points at every list position. All lists
	// of length 0..3 over 5 scalars x 4 points, both multi-scalar variants, receiver fresh / each list entry; the
	// double-scalar and single multiplications with the receiver as the point operand; the group operations under all
	// five alias patterns.
	{
		sv := []*big.Int{big.NewInt(0), one, big.NewInt(2), new(big.Int).Sub(ref.N, one), big.NewInt(0x1234567)}
		g := ref.G()
		type pv struct {
			p ref.Pt
			z int64
		}
		pvs := []pv{{ref.Infinity(), 1}, {g, 1}, {g.Neg(), 1}, {g.Mul(big.NewInt(7)), 3}}
		type ent struct{ s, p int }
		var ents []ent
		for si := range sv {
			for pi := range pvs {
				ents = append(ents, ent{si, pi})
			}
		}
		var lists [][]ent
		lists = append(lists, nil)
		for a := range ents {
			lists = append(lists, []ent{ents[a]})
			for b := range ents {
				lists = append(lists, []ent{ents[a], ents[b]})
				for c := range ents {
					if !th && (a*7+b*3+c)%5 != 0 {
						continue
					}
					lists = append(lists, []ent{ents[a], ents[b], ents[c]})
				}
			}
		}
		for li, l := range lists {
			for variant := 0; variant < 2; variant++ {
				for recv := -1; recv < len(l); recv++ {
					key := fmt.Sprintf("msm-shape %v variant%d recv%d", l, variant, recv)
					guard(key, func() {
						var ss []*secp256k1.Scalar
						var ps []*secp256k1.Point
						for _, e := range l {
							ss = append(ss, lib.MkSC(sv[e.s]))
							ps = append(ps, lib.MkPTRep(pvs[e.p].p, big.NewInt(pvs[e.p].z)))
						}
						if len(l) == 3 && li%2 == 0 { // the same objects in two slots
							ss[2], ps[2] = ss[0], ps[0]
						}
						v := new(secp256k1.Point)
						if recv >= 0 {
							v = ps[recv]
						}
						if variant == 0 {
							v.MultiScalarMult(ss, ps)
						} else {
							v.MultiScalarMultVartime(ss, ps)
						}
						emit(key, enc(v))
					})
				}
			}
		}
		for a := range sv {
			for b := range sv {
				for pi := range pvs {
					for _, al := range []bool{false, true} {
						key := fmt.Sprintf("dsmb-shape u1#%d u2#%d pt#%d aliased=%v", a, b, pi, al)
						guard(key, func() {
							pt := lib.MkPTRep(pvs[pi].p, big.NewInt(pvs[pi].z))
							v := new(secp256k1.Point)
							if al {
								v = pt
							}
							v.DoubleScalarMultBasepointVartime(lib.MkSC(sv[a]), lib.MkSC(sv[b]), pt)
							pt2 := lib.MkPTRep(pvs[pi].p, big.NewInt(pvs[pi].z))
							w := new(secp256k1.Point)
							if al {
								w = pt2
							}
							w.ScalarMult(lib.MkSC(sv[b]), pt2)
							emit(key, enc(v), enc(w))
						})
					}
				}
			}
		}
		// uninitialised operands: both builds refuse (panic) or both compute - and then the same thing
		for variant := 0; variant < 2; variant++ {
			for n := 1; n <= 3; n++ {
				for zpos := 0; zpos < n; zpos++ {
					for _, zs := range []int{0, 4} {
						key := fmt.Sprintf("uninit-shape msm variant%d n%d zero-value point at %d scalar#%d", variant, n, zpos, zs)
						lines = append(lines, key+" "+func() string {
							var res string
							pn := lib.Try(func() {
								var ss []*secp256k1.Scalar
								var ps []*secp256k1.Point
								for i := 0; i < n; i++ {
									ss = append(ss, lib.MkSC(sv[4]))
									ps = append(ps, lib.MkPTRep(pvs[3].p, big.NewInt(3)))
								}
								ss[zpos], ps[zpos] = lib.MkSC(sv[zs]), new(secp256k1.Point)
								v := new(secp256k1.Point)
								if variant == 0 {
									v.MultiScalarMult(ss, ps)
								} else {
									v.MultiScalarMultVartime(ss, ps)
								}
								res = "computed " + sum(enc(v))
							})
							if pn != "" {
								return "refused"
							}
							return res
						}())
					}
				}
			}
		}
		for _, zs := range []int{0, 4} {
			for op := 0; op < 3; op++ {
				key := fmt.Sprintf("uninit-shape op%d scalar#%d", op, zs)
				lines = append(lines, key+" "+func() string {
					var res string
					pn := lib.Try(func() {
						v := new(secp256k1.Point)
						switch op {
						case 0:
							v.ScalarMult(lib.MkSC(sv[zs]), new(secp256k1.Point))
						case 1:
							v.DoubleScalarMultBasepointVartime(lib.MkSC(sv[2]), lib.MkSC(sv[zs]), new(secp256k1.Point))
						case 2:
							v.Add(lib.MkPTRep(pvs[3].p, big.NewInt(3)), new(secp256k1.Point))
						}
						res = "computed " + sum(enc(v))
					})
					if pn != "" {
						return "refused"
					}
					return res
				}())
			}
		}
		for pi := range pvs {
			for qi := range pvs {
				for al := 0; al < 5; al++ {
					if al >= 3 && pi != qi {
						continue
					}
					key := fmt.Sprintf("group-shape pt#%d pt#%d alias%d", pi, qi, al)
					guard(key, func() {
						var parts [][]byte
						for op := 0; op < 4; op++ {
							p := lib.MkPTRep(pvs[pi].p, big.NewInt(pvs[pi].z))
							q := p
							if al < 3 {
								q = lib.MkPTRep(pvs[qi].p, big.NewInt(pvs[qi].z))
							}
							v := new(secp256k1.Point)
							switch al {
							case 1, 4:
								v = p
							case 2:
								v = q
							}
							switch op {
							case 0:
								v.Add(p, q)
							case 1:
								v.Subtract(p, q)
							case 2:
								v.Double(q)
							case 3:
								v.ConditionalSelect(p, q, uint64(pi&1))
								v.ConditionalNegate(v, uint64(qi&1))
							}
							parts = append(parts, enc(v))
						}
						emit(key, parts...)
					})
				}
			}
		}
	}
	// SEC 1 decoding corpus
	for pi, p := range mc.PointAlphabet(3, 1, 2) {
		for _, b := range [][]byte{p.P.Compressed(), p.P.Uncompressed()} {
			for pre := 0; pre < 8; pre++ {
				bb := append([]byte{}, b...)
				bb[0] = byte(pre)
				q, err := secp256k1.NewPointFromBytes(bb)
				var e []byte
				if err == nil {
					e = enc(q)
				}
				emit(fmt.Sprintf("decode pt#%d len%d pre%d", pi, len(bb), pre), e, []byte(fmt.Sprint(err == nil)))
			}
		}
	}
	return lines
}

func compareTranscripts() {
	th := R.Thorough()
	if cfg != "asm" {
		return
	}
	peer := filepath.Join(os.Getenv("VERIF_WORK"), "purego.bin")
	if _, err := os.Stat(peer); err != nil {
		R.Note("purego binary not found next to this one: transcript comparison skipped")
		R.Cap("transcript comparison skipped (no purego binary)")
		return
	}
	mine := transcript(th)
	cmd := exec.Command(peer, "-transcript")
	cmd.Env = os.Environ()
	out, err := cmd.Output()
	if err != nil {
		R.Fail("transcript/purego run failed", "misc", map[string]any{"err": err.Error()}, nil)
		return
	}
	var theirs []string
	scn := bufio.NewScanner(bytes.NewReader(out))
	scn.Buffer(make([]byte, 1<<20), 1<<26)
	for scn.Scan() {
		theirs = append(theirs, scn.Text())
	}
	R.T(int64(len(mine)))
	R.States(int64(len(mine)))
	R.NTs(int64(len(mine)))
	R.Class("transcript lines compared (asm vs purego)", int64(len(mine)))
	if len(mine) != len(theirs) {
		R.Fail("transcript/length", "transcript", map[string]any{"asm_lines": len(mine), "purego_lines": len(theirs)}, nil)
	}
	nbad := 0
	for i := range mine {
		if i < len(theirs) && mine[i] != theirs[i] && nbad < 8 {
			nbad++
			key := mine[i][:strings.LastIndex(mine[i], " ")]
			R.Fail("transcript/"+strings.Fields(key)[0]+"/"+key, "transcript", map[string]any{"case": key, "asm": mine[i], "purego": theirs[i]}, nil)
		}
	}
	R.Sample("transcript", map[string]any{"line": mine[len(mine)/2], "meaning": "case key + sha256 of all outputs; must be identical in the assembly and purego builds"})
}

func main() {
	if len(os.Args) > 1 && os.Args[1] == "-transcript" {
		th := os.Getenv("VERIF_TIER") == "thorough"
		w := bufio.NewWriter(os.Stdout)
		for _, l := range transcript(th) {
			fmt.Fprintln(w, l)
		}
		w.Flush()
		return
	}
	R = mc.New("C19")
	cfg = os.Getenv("VERIF_RUN")
	if cfg == "" {
		cfg = "asm"
	}
	register()
	mc.MaybeReplay()
	R.Config(cfg)
	R.Rule("states = distinct (table content, index) lookup inputs and transcript cases; a transition is one lookup executed by the assembly routine and by the renamed portable routine in the same binary (and checked against the specification), or one public-API case executed by both builds; non-trivial = every lookup input (each isolates one slot / limb / bit) and every transcript line")
	R.Assume("only amd64 is available: other architectures use the portable code, i.e. the purego leg")
	exploreLookups()
	compareTranscripts()
	R.Expect("asm/projective tables x 16 indices x 2 flag states", "purego/projective tables x 16 indices x 2 flag states", "transcript lines compared (asm vs purego)")
	R.Finish()
}
