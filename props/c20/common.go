// C20 — keys, points, scalars and tables are safe for concurrent read-only use.
//
// (a) every schedule with a bounded number of preemptions of pairs (triples)
// of read-only operations on SHARED objects, on the instrumented real code
// under a cooperative scheduler; (b) a free-running pass of the same
// operation bodies under the race detector, including cold-start processes
// whose first library calls are concurrent; (c) table initialisation is
// complete before main.
package main

import (
	"bytes"
	"crypto"
	"fmt"
	"math/big"

	secp256k1 "gitlab.com/yawning/secp256k1-voi"
	"gitlab.com/yawning/secp256k1-voi/secec"
	"gitlab.com/yawning/secp256k1-voi/secec/bitcoin"
	"gitlab.com/yawning/secp256k1-voi/secec/h2c"

	"verif/lib"
	"verif/mc"
	"verif/ref"
)

var R *mc.Report

// env holds the SHARED objects; every operation only reads them.
type env struct {
	d, dPeer       *big.Int
	K, peerK       *secec.PrivateKey
	Q, peerQ       *secec.PublicKey
	SK             *bitcoin.SchnorrPrivateKey
	SPK            *bitcoin.SchnorrPublicKey
	P1, P2         *secp256k1.Point
	p1, p2         ref.Pt
	S1, S2         *secp256k1.Scalar
	s1, s2         *big.Int
	digest, msg    []byte
	sigDER, sigRec []byte
	sigR, sigS     *secp256k1.Scalar
	sigV           byte
	schnorrSig     []byte
	dst            []byte
	dstA, dstB     []byte // two DIFFERENT domain separation tags longer than 255 bytes
	// lists shared by all callers (a caller may pass the same slices to concurrent calls): a zero scalar in the middle
	listS []*secp256k1.Scalar
	listP []*secp256k1.Point
	// option structs shared by all callers (read-only inputs of Sign / Verify), fields left at their defaults
	optS, optV *secec.ECDSAOptions
	longS      []*secp256k1.Scalar
	longP      []*secp256k1.Point
	longSum    *big.Int
}

func (e *env) listFP() string {
	s := fmt.Sprintf("%+v %+v|", *e.optS, *e.optV)
	for i := range e.listS {
		s += fmt.Sprintf("%p %p %v %s|", e.listS[i], e.listP[i], secp256k1.VerifScalarLimbs(e.listS[i]), lib.Raw(e.listP[i]))
	}
	return s
}

func newEnv() *env {
	e := &env{}
	e.d = ref.ModN(ref.OS2IP(ref.TaggedHash("verif/C20", []byte("d"))))
	for ref.BaseMul(e.d).Y.Bit(0) == 0 { // odd-y public key: Schnorr negation paths are exercised
		e.d = ref.ZnAdd(e.d, big.NewInt(1))
	}
	e.dPeer = ref.ModN(ref.OS2IP(ref.TaggedHash("verif/C20", []byte("peer"))))
	e.K, e.peerK = lib.MkPriv(e.d), lib.MkPriv(e.dPeer)
	e.Q, e.peerQ = e.K.PublicKey(), e.peerK.PublicKey()
	e.SK = bitcoin.NewSchnorrPrivateKeyFromECDSA(e.K)
	e.SPK = e.SK.PublicKey()
	e.p1 = ref.G().Mul(big.NewInt(3))
	e.p2 = ref.G().Mul(ref.Lambda)
	e.P1 = lib.MkPTRep(e.p1, big.NewInt(0x777))
	e.P2 = lib.MkPT(e.p2)
	e.s1 = ref.ModN(ref.OS2IP(ref.TaggedHash("verif/C20", []byte("s1"))))
	e.s2 = new(big.Int).Sub(ref.N, big.NewInt(2))
	e.S1, e.S2 = lib.MkSC(e.s1), lib.MkSC(e.s2)
	e.digest = ref.TaggedHash("verif/C20", []byte("digest"))
	e.msg = []byte("verif/C20 message")
	r, s, v := ref.ECDSASignRFC6979(e.d, e.digest)
	e.sigDER = ref.DERBuildSig(r, s)
	e.sigRec = append(append(ref.B32(r), ref.B32(s)...), v)
	e.sigR, e.sigS, e.sigV = lib.MkSC(r), lib.MkSC(s), v
	e.schnorrSig, _ = ref.BIP340Sign(e.d, make([]byte, 32), e.msg)
	e.dst = []byte("verif/C20-DST")
	e.dstA = bytes.Repeat([]byte("A"), 300)
	e.dstB = bytes.Repeat([]byte("B"), 257)
	e.optS, e.optV = &secec.ECDSAOptions{}, &secec.ECDSAOptions{RejectMalleable: true}
	e.longSum = new(big.Int)
	for i := 0; i < 160; i++ {
		si := ref.ModN(ref.OS2IP(ref.TaggedHash("verif/C20-long", []byte{byte(i)})))
		ki := big.NewInt(int64(i + 2))
		e.longS = append(e.longS, lib.MkSC(si))
		e.longP = append(e.longP, lib.MkPT(ref.BaseMul(ki)))
		e.longSum = ref.ZnAdd(e.longSum, ref.ZnMul(si, ki))
	}
	e.listS = []*secp256k1.Scalar{e.S1, secp256k1.NewScalar(), e.S2}
	e.listP = []*secp256k1.Point{e.P1, lib.MkPT(ref.G().Mul(big.NewInt(5))), e.P2}
	return e
}

// fingerprint of every shared object (exact limbs / bytes, through field-access hooks).
func (e *env) fingerprint() string {
	if secec.VerifPrivInternals == nil || secec.VerifPubInternals == nil || bitcoin.VerifSchnorrPrivInternals == nil || bitcoin.VerifSchnorrPubInternals == nil {
		// layout hooks unavailable: fingerprint through the public accessors (copies) instead of the stored fields
		return fmt.Sprint(lib.Raw(e.P1), lib.Raw(e.P2), secp256k1.VerifScalarLimbs(e.S1), secp256k1.VerifScalarLimbs(e.S2),
			e.K.Bytes(), e.Q.Bytes(), lib.Raw(e.Q.Point()), e.peerQ.Bytes(), e.SK.Bytes(), e.SPK.Bytes(), lib.Raw(e.SPK.Point()),
			e.digest, e.msg, e.sigDER, e.sigRec, e.schnorrSig, e.dst, e.dstA, e.dstB, secp256k1.VerifScalarLimbs(e.sigR), secp256k1.VerifScalarLimbs(e.sigS), e.listFP())
	}
	ks, kp := secec.VerifPrivInternals(e.K)
	qp, qb := secec.VerifPubInternals(e.Q)
	_, kpb := secec.VerifPubInternals(kp)
	dp, dn, spub := bitcoin.VerifSchnorrPrivInternals(e.SK)
	sp, sx := bitcoin.VerifSchnorrPubInternals(spub)
	pq, pqb := secec.VerifPubInternals(e.peerQ)
	return fmt.Sprint(lib.Raw(e.P1), lib.Raw(e.P2), secp256k1.VerifScalarLimbs(e.S1), secp256k1.VerifScalarLimbs(e.S2),
		secp256k1.VerifScalarLimbs(ks), lib.Raw(qp), qb, kpb, secp256k1.VerifScalarLimbs(dp), secp256k1.VerifScalarLimbs(dn), lib.Raw(sp), sx, lib.Raw(pq), pqb,
		e.digest, e.msg, e.sigDER, e.sigRec, e.schnorrSig, e.dst, e.dstA, e.dstB, secp256k1.VerifScalarLimbs(e.sigR), secp256k1.VerifScalarLimbs(e.sigS), e.listFP())
}

// tablesComplete compares both generator tables (hook) with a reference table built by affine
// additions. Called before any other library call it decides "initialisation is complete before main".
func tablesComplete() (m string) {
	if secp256k1.VerifHugeTableEntry == nil || secp256k1.VerifOddTableEntry == nil {
		return "SKIP"
	}
	defer func() {
		if x := recover(); x != nil {
			m = fmt.Sprint("a generator table is not built yet (reading it panics: ", x, ")")
		}
	}()
	base := ref.G()
	for i := 0; i < 32; i++ {
		acc := ref.Infinity()
		for j := 0; j < 255; j++ {
			acc = acc.Add(base)
			x, y := secp256k1.VerifHugeTableEntry(i, j)
			if lib.FEVal(x).Cmp(acc.X) != 0 || lib.FEVal(y).Cmp(acc.Y) != 0 {
				return fmt.Sprintf("huge table entry [%d][%d] is not (j+1)*256^i*G", i, j)
			}
			if (j+1)%16 == 0 && (j+1)/16 <= 15 {
				ox, oy := secp256k1.VerifOddTableEntry(i, (j+1)/16-1)
				if lib.FEVal(ox).Cmp(acc.X) != 0 || lib.FEVal(oy).Cmp(acc.Y) != 0 {
					return fmt.Sprintf("odd table entry [%d][%d] is not (j+1)*16*256^i*G", i, (j+1)/16-1)
				}
			}
		}
		base = acc.Add(base)
	}
	return ""
}

// tableFingerprint hashes both generator tables (hook); 0 when unavailable.
func tableFingerprint() (h uint64) {
	if secp256k1.VerifHugeTableEntry == nil || secp256k1.VerifOddTableEntry == nil {
		return 0
	}
	defer func() {
		if x := recover(); x != nil {
			h = 1
		}
	}()
	return tableFingerprintRaw()
}

func tableFingerprintRaw() uint64 {
	h := uint64(0xcbf29ce484222325)
	mix := func(l [4]uint64) {
		for _, w := range l {
			h = (h ^ w) * 0x100000001b3
		}
	}
	for i := 0; i < 32; i++ {
		for j := 0; j < 255; j++ {
			x, y := secp256k1.VerifHugeTableEntry(i, j)
			mix(secp256k1.VerifFELimbs(x))
			mix(secp256k1.VerifFELimbs(y))
		}
		for j := 0; j < 15; j++ {
			x, y := secp256k1.VerifOddTableEntry(i, j)
			mix(secp256k1.VerifFELimbs(x))
			mix(secp256k1.VerifFELimbs(y))
		}
	}
	return h
}

type cop struct {
	name  string
	heavy bool
	f     func(e *env) []byte
	// expected result from the reference model alone (nil = use the solo run)
	want func(e *env) []byte
}

func rawP(p *secp256k1.Point) []byte { return []byte(lib.Raw(p)) }

func bb(ok bool) []byte {
	if ok {
		return []byte{1}
	}
	return []byte{0}
}

func errOr(b []byte, err error) []byte {
	if err != nil {
		return []byte("error: " + err.Error())
	}
	return b
}

func reader() *mc.Reader { return mc.Script{Src: "counter", Mode: "full", FailAfter: -1}.New() }

var ops = []cop{
	{"Point.Add(P1,P2)", false, func(e *env) []byte { return rawP(new(secp256k1.Point).Add(e.P1, e.P2)) }, nil},
	{"Point.Double(P1)", false, func(e *env) []byte { return rawP(new(secp256k1.Point).Double(e.P1)) }, nil},
	{"Point.Subtract(P2,P1)", false, func(e *env) []byte { return rawP(new(secp256k1.Point).Subtract(e.P2, e.P1)) }, nil},
	{"Point.Equal(P1,P2)", false, func(e *env) []byte { return []byte{byte(e.P1.Equal(e.P2)), byte(e.P1.Equal(e.P1))} }, nil},
	{"P1.CompressedBytes", false, func(e *env) []byte { return e.P1.CompressedBytes() }, func(e *env) []byte { return e.p1.Compressed() }},
	{"P1.UncompressedBytes", false, func(e *env) []byte { return e.P1.UncompressedBytes() }, func(e *env) []byte { return e.p1.Uncompressed() }},
	{"Scalar.Multiply/Add(S1,S2).Bytes", false, func(e *env) []byte {
		z := secp256k1.NewScalar().Multiply(e.S1, e.S2)
		return z.Add(z, e.S1).Bytes()
	}, func(e *env) []byte { return ref.B32(ref.ZnAdd(ref.ZnMul(e.s1, e.s2), e.s1)) }},
	{"Scalar.Invert(S1)", false, func(e *env) []byte { return secp256k1.NewScalar().Invert(e.S1).Bytes() }, func(e *env) []byte { return ref.B32(ref.ZnInv(e.s1)) }},
	{"key accessors (Q.Bytes/CompressedBytes/Point, K.Bytes/Scalar, SPK.Bytes)", false, func(e *env) []byte {
		return bytes.Join([][]byte{e.Q.Bytes(), e.Q.CompressedBytes(), rawP(e.Q.Point()), e.K.Bytes(), e.K.Scalar().Bytes(), e.SPK.Bytes(), e.SK.Bytes(), rawP(e.SPK.Point())}, nil)
	}, nil},
	{"Q.ASN1Bytes", false, func(e *env) []byte { return e.Q.ASN1Bytes() }, func(e *env) []byte { return ref.SPKIBuild(ref.BaseMul(e.d).Uncompressed()) }},
	{"NewPublicKeyFromPoint(P1).Bytes", false, func(e *env) []byte {
		k, err := secec.NewPublicKeyFromPoint(e.P1)
		if err != nil {
			return []byte("error")
		}
		return k.Bytes()
	}, func(e *env) []byte { return e.p1.Uncompressed() }},
	{"NewSchnorrPublicKeyFromECDSA(Q).Bytes", false, func(e *env) []byte { return bitcoin.NewSchnorrPublicKeyFromECDSA(e.Q).Bytes() }, func(e *env) []byte { return ref.BIP340PubKey(e.d) }},

	{"K.Sign(hedged, per-call reader)", true, func(e *env) []byte { return errOr(e.K.Sign(reader(), e.digest, nil)) }, nil},
	{"K.Sign(RFC 6979 selector)", true, func(e *env) []byte { return errOr(e.K.Sign(secec.RFC6979SHA256(), e.digest, nil)) }, func(e *env) []byte { return e.sigDER }},
	{"K.Sign(recoverable, SelfVerify)", true, func(e *env) []byte {
		return errOr(e.K.Sign(secec.RFC6979SHA256(), e.digest, &secec.ECDSAOptions{Encoding: secec.EncodingCompactRecoverable, SelfVerify: true}))
	}, func(e *env) []byte { return e.sigRec }},
	{"Q.Verify(sigDER)", true, func(e *env) []byte { return bb(e.Q.Verify(e.digest, e.sigDER, nil)) }, func(e *env) []byte { return []byte{1} }},
	{"Q.Verify(recoverable)", true, func(e *env) []byte {
		return bb(e.Q.Verify(e.digest, e.sigRec, &secec.ECDSAOptions{Encoding: secec.EncodingCompactRecoverable, Hash: crypto.SHA256}))
	}, func(e *env) []byte { return []byte{1} }},
	{"RecoverPublicKey", true, func(e *env) []byte {
		k, err := secec.RecoverPublicKey(e.digest, e.sigR, e.sigS, e.sigV)
		if err != nil {
			return []byte("error")
		}
		return k.Bytes()
	}, func(e *env) []byte { return ref.BaseMul(e.d).Uncompressed() }},
	{"K.ECDH(peerQ)", true, func(e *env) []byte { return errOr(e.K.ECDH(e.peerQ)) }, func(e *env) []byte { return ref.B32(ref.BaseMul(ref.ZnMul(e.d, e.dPeer)).X) }},
	{"Point.ScalarMult(S1,P1)", true, func(e *env) []byte { return new(secp256k1.Point).ScalarMult(e.S1, e.P1).UncompressedBytes() }, func(e *env) []byte { return e.p1.Mul(e.s1).Uncompressed() }},
	{"Point.ScalarBaseMult(S1)", true, func(e *env) []byte { return new(secp256k1.Point).ScalarBaseMult(e.S1).UncompressedBytes() }, func(e *env) []byte { return ref.BaseMul(e.s1).Uncompressed() }},
	{"Point.MultiScalarMult([S1,S2],[P1,P2])", true, func(e *env) []byte {
		return new(secp256k1.Point).MultiScalarMult([]*secp256k1.Scalar{e.S1, e.S2}, []*secp256k1.Point{e.P1, e.P2}).UncompressedBytes()
	}, func(e *env) []byte { return e.p1.Mul(e.s1).Add(e.p2.Mul(e.s2)).Uncompressed() }},
	{"Point.DoubleScalarMultBasepointVartime(S1,S2,P2)", true, func(e *env) []byte {
		return new(secp256k1.Point).DoubleScalarMultBasepointVartime(e.S1, e.S2, e.P2).UncompressedBytes()
	}, func(e *env) []byte { return ref.BaseMul(e.s1).Add(e.p2.Mul(e.s2)).Uncompressed() }},
	{"SK.Sign(Schnorr, per-call reader)", true, func(e *env) []byte {
		return errOr(e.SK.Sign(mc.Script{Src: "zero", Mode: "full", FailAfter: -1}.New(), e.msg, nil))
	}, func(e *env) []byte { return e.schnorrSig }},
	{"SK.Sign(Schnorr, another short message)", true, func(e *env) []byte {
		return errOr(e.SK.Sign(mc.Script{Src: "zero", Mode: "full", FailAfter: -1}.New(), []byte("another message B"), nil))
	}, func(e *env) []byte {
		s, _ := ref.BIP340Sign(e.d, make([]byte, 32), []byte("another message B"))
		return s
	}},
	{"SPK.Verify(Schnorr)", true, func(e *env) []byte { return bb(e.SPK.Verify(e.msg, e.schnorrSig)) }, func(e *env) []byte { return []byte{1} }},
	{"h2c RO(dst,msg)", true, func(e *env) []byte {
		p, err := h2c.Secp256k1_XMD_SHA256_SSWU_RO(e.dst, e.msg)
		if err != nil {
			return []byte("error")
		}
		return p.UncompressedBytes()
	}, func(e *env) []byte {
		p, _ := ref.HashToCurveRO([]byte("verif/C20-DST"), []byte("verif/C20 message"))
		return p.Uncompressed()
	}},
	{"h2c RO(oversize DST A)", true, func(e *env) []byte {
		p, err := h2c.Secp256k1_XMD_SHA256_SSWU_RO(e.dstA, e.msg)
		if err != nil {
			return []byte("error")
		}
		return p.UncompressedBytes()
	}, func(e *env) []byte {
		p, _ := ref.HashToCurveRO(bytes.Repeat([]byte("A"), 300), []byte("verif/C20 message"))
		return p.Uncompressed()
	}},
	{"h2c NU(oversize DST B)", true, func(e *env) []byte {
		p, err := h2c.Secp256k1_XMD_SHA256_SSWU_NU(e.dstB, e.msg)
		if err != nil {
			return []byte("error")
		}
		return p.UncompressedBytes()
	}, func(e *env) []byte {
		p, _ := ref.EncodeToCurveNU(bytes.Repeat([]byte("B"), 257), []byte("verif/C20 message"))
		return p.Uncompressed()
	}},
	{"PreHashSchnorrMessage(tag A)", false, func(e *env) []byte {
		return errOr(bitcoin.PreHashSchnorrMessage("verif/C20 tag A", e.msg))
	}, func(e *env) []byte { return ref.TaggedHash("verif/C20 tag A", []byte("verif/C20 message")) }},
	{"PreHashSchnorrMessage(tag B)", false, func(e *env) []byte {
		return errOr(bitcoin.PreHashSchnorrMessage("verif/C20 another tag B", e.msg))
	}, func(e *env) []byte { return ref.TaggedHash("verif/C20 another tag B", []byte("verif/C20 message")) }},
	{"SetUniformBytes(48 zero bytes: the exceptional argument of the map)", true, func(e *env) []byte {
		return new(secp256k1.Point).SetUniformBytes(make([]byte, 48)).UncompressedBytes()
	}, func(e *env) []byte { return ref.MapToCurve(new(big.Int)).Uncompressed() }},
	{"K.Sign(RFC 6979, shared default options)", true, func(e *env) []byte {
		return errOr(e.K.Sign(secec.RFC6979SHA256(), e.digest, e.optS))
	}, func(e *env) []byte { return e.sigDER }},
	{"Q.Verify(sigDER, shared options)", true, func(e *env) []byte { return bb(e.Q.Verify(e.digest, e.sigDER, e.optV)) }, func(e *env) []byte { return []byte{1} }},
	{"MultiScalarMult(shared lists, zero scalar in the middle)", true, func(e *env) []byte {
		return new(secp256k1.Point).MultiScalarMult(e.listS, e.listP).UncompressedBytes()
	}, func(e *env) []byte { return e.p1.Mul(e.s1).Add(e.p2.Mul(e.s2)).Uncompressed() }},
	{"MultiScalarMultVartime(shared lists, zero scalar in the middle)", true, func(e *env) []byte {
		return new(secp256k1.Point).MultiScalarMultVartime(e.listS, e.listP).UncompressedBytes()
	}, func(e *env) []byte { return e.p1.Mul(e.s1).Add(e.p2.Mul(e.s2)).Uncompressed() }},
	// a long list: implementations that farm the per-term work out to goroutines of their own are exercised from
	// several callers at once (free-running passes only)
	{"MultiScalarMult(160 terms, shared lists)", true, func(e *env) []byte {
		return new(secp256k1.Point).MultiScalarMult(e.longS, e.longP).UncompressedBytes()
	}, func(e *env) []byte { return ref.BaseMul(e.longSum).Uncompressed() }},
	{"MultiScalarMultVartime(160 terms, shared lists)", true, func(e *env) []byte {
		return new(secp256k1.Point).MultiScalarMultVartime(e.longS, e.longP).UncompressedBytes()
	}, func(e *env) []byte { return ref.BaseMul(e.longSum).Uncompressed() }},
	// default entropy source (rand == nil): not a function of the inputs, so the oracle is validity under the reference
	// verifier; free-running passes only (see freeOnly)
	{"SK.Sign(Schnorr, rand=nil) verifies", true, func(e *env) []byte {
		sig, err := e.SK.Sign(nil, e.msg, nil)
		return bb(err == nil && ref.BIP340Verify(ref.BIP340PubKey(e.d), e.msg, sig))
	}, func(e *env) []byte { return []byte{1} }},
	{"K.Sign(rand=nil) verifies", true, func(e *env) []byte {
		sig, err := e.K.Sign(nil, e.digest, nil)
		if err != nil {
			return []byte("error: " + err.Error())
		}
		r, s, ok := ref.DERParseSig(sig)
		return bb(ok && ref.ECDSAVerify(ref.BaseMul(e.d), e.digest, r, s))
	}, func(e *env) []byte { return []byte{1} }},
	{"GenerateKey() is a consistent pair", true, func(e *env) []byte {
		k, err := secec.GenerateKey()
		if err != nil {
			return []byte("error: " + err.Error())
		}
		return bb(bytes.Equal(k.PublicKey().Bytes(), ref.BaseMul(ref.OS2IP(k.Bytes())).Uncompressed()))
	}, func(e *env) []byte { return []byte{1} }},
	{"NewPrivateKey(bytes) (fresh object, shared tables)", true, func(e *env) []byte {
		k, err := secec.NewPrivateKey(ref.B32(e.s1))
		if err != nil {
			return []byte("error")
		}
		return k.PublicKey().Bytes()
	}, func(e *env) []byte { return ref.BaseMul(e.s1).Uncompressed() }},
}

// freeOnly: operations whose control flow depends on fresh randomness (the cooperative scheduler needs replayable
// executions); they run in the free-running race pass and in the first-use processes only.
var freeOnly = map[string]bool{"MultiScalarMult(160 terms, shared lists)": true, "MultiScalarMultVartime(160 terms, shared lists)": true, "SK.Sign(Schnorr, rand=nil) verifies": true, "K.Sign(rand=nil) verifies": true, "GenerateKey() is a consistent pair": true}

func findOp(n string) *cop {
	for i := range ops {
		if ops[i].name == n {
			return &ops[i]
		}
	}
	return nil
}
