//go:build verifsched

package main

import (
	"bytes"
	"fmt"
	"runtime"
	"time"

	secp256k1 "gitlab.com/yawning/secp256k1-voi"
	"gitlab.com/yawning/secp256k1-voi/secec"
	"gitlab.com/yawning/secp256k1-voi/secec/bitcoin"

	"verif/lib"
	"verif/mc"
	"verif/ref"
)

// The collector as an adversary thread: operations on objects that are reachable from NOTHING but the call itself
// (an ephemeral key: built, used once, dropped) are executed with a complete garbage collection - including the
// finalizers it makes runnable - forced at scheduling point k, for a ladder of k over the whole execution. Whatever
// the library ties to the lifetime of an object (a finalizer wiping key material, memory handed back to a pool) must
// not act while a call on that object is still computing with it. Deterministic: the collection happens at a
// chosen instrumentation point of the calling goroutine, not "some time during the call".
type ephOp struct {
	name string
	f    func(e *env) []byte
	want func(e *env) []byte
}

var ephOps = []ephOp{
	{"ephemeral NewSchnorrPrivateKey(bytes).Sign(msg)", func(e *env) []byte {
		k, err := bitcoin.NewSchnorrPrivateKey(ref.B32(e.d))
		if err != nil {
			return []byte("error: " + err.Error())
		}
		return errOr(k.Sign(mc.Script{Src: "zero", Mode: "full", FailAfter: -1}.New(), e.msg, nil))
	}, func(e *env) []byte { return e.schnorrSig }},
	{"ephemeral NewPrivateKey(bytes).Sign(RFC 6979)", func(e *env) []byte {
		k, err := secec.NewPrivateKey(ref.B32(e.d))
		if err != nil {
			return []byte("error: " + err.Error())
		}
		return errOr(k.Sign(secec.RFC6979SHA256(), e.digest, nil))
	}, func(e *env) []byte { return e.sigDER }},
	{"ephemeral NewPrivateKey(bytes).ECDH(ephemeral NewPublicKey(bytes))", func(e *env) []byte {
		k, err := secec.NewPrivateKey(ref.B32(e.d))
		if err != nil {
			return []byte("error: " + err.Error())
		}
		p, err := secec.NewPublicKey(ref.BaseMul(e.dPeer).Compressed())
		if err != nil {
			return []byte("error: " + err.Error())
		}
		return errOr(k.ECDH(p))
	}, func(e *env) []byte { return ref.B32(ref.BaseMul(ref.ZnMul(e.d, e.dPeer)).X) }},
	{"ephemeral NewPublicKey(bytes).Verify(sigDER)", func(e *env) []byte {
		p, err := secec.NewPublicKey(ref.BaseMul(e.d).Uncompressed())
		if err != nil {
			return []byte("error: " + err.Error())
		}
		return bb(p.Verify(e.digest, e.sigDER, nil))
	}, func(e *env) []byte { return []byte{1} }},
	{"ephemeral NewSchnorrPublicKey(bytes).Verify(sig)", func(e *env) []byte {
		p, err := bitcoin.NewSchnorrPublicKey(ref.BIP340PubKey(e.d))
		if err != nil {
			return []byte("error: " + err.Error())
		}
		return bb(p.Verify(e.msg, e.schnorrSig))
	}, func(e *env) []byte { return []byte{1} }},
	{"ephemeral points: NewPointFromBytes(P).ScalarMult(S1)", func(e *env) []byte {
		p, err := secp256k1.NewPointFromBytes(e.p1.Compressed())
		if err != nil {
			return []byte("error: " + err.Error())
		}
		return secp256k1.NewIdentityPoint().ScalarMult(lib.MkSC(e.s1), p).UncompressedBytes()
	}, func(e *env) []byte { return e.p1.Mul(e.s1).Uncompressed() }},
}

type sentinel struct{ _ [16]byte }

// collectAndFinalize: two rounds of (full collection, wait until a freshly dropped sentinel's finalizer has run) -
// the finalizer goroutine works its queue in order, so after the second sentinel everything the first collection
// made finalizable has been finalized.
func collectAndFinalize() {
	for round := 0; round < 2; round++ {
		ch := make(chan struct{})
		s := new(sentinel)
		runtime.SetFinalizer(s, func(*sentinel) { close(ch) })
		s = nil
		runtime.GC()
		select {
		case <-ch:
		case <-time.After(2 * time.Second):
		}
	}
}

func runGCAt(o *ephOp, k int) (res []byte, points int) {
	n := 0
	secp256k1.VerifRTSetPoint(func() {
		n++
		if n == k {
			collectAndFinalize()
		}
	})
	setOn(true)
	if pn := lib.Try(func() { res = o.f(E) }); pn != "" {
		res = []byte("panic: " + pn)
	}
	setOn(false)
	secp256k1.VerifRTSetPoint(func() {
		if mc.SchedHook != nil {
			mc.SchedHook()
		}
	})
	return res, n
}

func findEph(name string) *ephOp {
	for i := range ephOps {
		if ephOps[i].name == name {
			return &ephOps[i]
		}
	}
	return nil
}

func gcCase(name string, k int) string {
	o := findEph(name)
	if o == nil {
		return ""
	}
	res, _ := runGCAt(o, k)
	if w := o.want(E); !bytes.Equal(res, w) {
		if len(res) > 80 {
			res = res[:80]
		}
		return fmt.Sprintf("with a full collection (finalizers included) forced at scheduling point %d the operation returned %x.., the reference value is %x..", k, res, w[:min(len(w), 40)])
	}
	return ""
}

func exploreGC(th bool) {
	steps := 64
	if th {
		steps = 400
	}
	total := int64(0)
	for i := range ephOps {
		o := &ephOps[i]
		_, n := runGCAt(o, -1)
		if n == 0 {
			continue
		}
		var ks []int
		for k := 1; k <= 12 && k <= n; k++ {
			ks = append(ks, k)
		}
		for j := 1; j <= steps; j++ {
			ks = append(ks, 12+j*(n-12)/steps)
		}
		seen := map[int]bool{}
		for _, k := range ks {
			if k < 1 || k > n || seen[k] {
				continue
			}
			seen[k] = true
			total++
			R.T(1)
			R.States(1)
			R.NTs(1)
			if m := gcCase(o.name, k); m != "" {
				R.Mismatch("gc/"+o.name, "gc", m, mc.D{"op": o.name, "point": k, "points_in_execution": n})
				break
			}
		}
		if i == 0 {
			R.Sample("collector adversary", map[string]any{"operation": o.name, "scheduling_points": n, "collection_points_tried": len(seen), "oracle": "result equals the reference value whatever the point at which everything unreachable is collected and finalized"})
		}
	}
	R.Class("collector-adversary executions (GC + finalizers forced at one scheduling point)", total)
}
