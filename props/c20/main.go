package main

import (
	"os"

	"verif/mc"
)

func main() {
	R = mc.New("C20")
	R.Rule("states = complete executions (schedules) of tuples of read-only operations on shared objects; a transition is one complete execution of the instrumented real code under one schedule of the cooperative scheduler (every basic block is a scheduling point), or one free-running round under the race detector; oracle: every thread's result equals its result when run alone (and the reference value), shared objects and generator tables bit-identical afterwards, no panic, no race report; non-trivial = every schedule / round (each has at least one context switch between operations on shared state)")
	R.Assume("scheduling points are basic blocks and calls of the instrumented library packages; finer interleavings of individual memory accesses are delegated to the free-running -race pass; the Go memory model's weak behaviours are not enumerated; fiat routines are atomic (they touch only their arguments)")
	switch os.Getenv("VERIF_RUN") {
	case "race", "race-purego":
		mainRace()
	default:
		mainSched()
	}
	R.Finish()
}
