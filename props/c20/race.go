//go:build verifrace

package main

import (
	"bytes"
	"fmt"
	"math/big"
	"os"
	"os/exec"
	"path/filepath"
	"strings"
	"sync"

	secp256k1 "gitlab.com/yawning/secp256k1-voi"

	"verif/lib"
	"verif/mc"
	"verif/ref"
)

const nGoroutines = 8

func raceLogBase() string {
	for _, f := range strings.Fields(os.Getenv("GORACE")) {
		if strings.HasPrefix(f, "log_path=") {
			return strings.TrimPrefix(f, "log_path=")
		}
	}
	return ""
}

func ownRaceLogSize() int64 {
	b := raceLogBase()
	if b == "" {
		return 0
	}
	st, err := os.Stat(fmt.Sprintf("%s.%d", b, os.Getpid()))
	if err != nil {
		return 0
	}
	return st.Size()
}

// runConcurrent releases n goroutines (alternating the given operations) from a
// barrier; every result must equal the solo / reference result.
func runConcurrent(e *env, names []string, want map[string][]byte, rounds int) string {
	for r := 0; r < rounds; r++ {
		start := make(chan struct{})
		res := make([][]byte, nGoroutines)
		var wg sync.WaitGroup
		for g := 0; g < nGoroutines; g++ {
			wg.Add(1)
			o := findOp(names[g%len(names)])
			go func(g int) {
				defer wg.Done()
				defer func() {
					if x := recover(); x != nil {
						res[g] = []byte(fmt.Sprint("panic: ", x))
					}
				}()
				<-start
				res[g] = o.f(e)
			}(g)
		}
		close(start)
		wg.Wait()
		for g := 0; g < nGoroutines; g++ {
			n := names[g%len(names)]
			if !bytes.Equal(res[g], want[n]) {
				r := res[g]
				if len(r) > 48 {
					r = r[:48]
				}
				return fmt.Sprintf("goroutine %d (%s) returned %x.. which differs from its result when run alone", g, n, r)
			}
		}
	}
	return ""
}

// cold child: the very first library calls of the process are concurrent.
// Expected values come from the reference model only.
func coldChild(opName string) {
	o := findOp(opName)
	if o == nil || o.want == nil {
		fmt.Println("COLD SKIP")
		return
	}
	// the environment is built by the library too, so for a truly cold start the operations below use
	// only objects that can be created without table use... key objects need ScalarBaseMult; therefore the
	// cold operations are the table users themselves, started from raw scalars:
	scalars := make([]*big.Int, nGoroutines)
	wantPts := make([][]byte, nGoroutines)
	for g := range scalars {
		scalars[g] = ref.ModN(ref.OS2IP(ref.TaggedHash("verif/C20-cold", []byte{byte(g)})))
		wantPts[g] = ref.BaseMul(scalars[g]).Uncompressed()
	}
	start := make(chan struct{})
	res := make([][]byte, nGoroutines)
	var wg sync.WaitGroup
	for g := 0; g < nGoroutines; g++ {
		wg.Add(1)
		go func(g int) {
			defer wg.Done()
			defer func() {
				if x := recover(); x != nil {
					res[g] = []byte(fmt.Sprint("panic: ", x))
				}
			}()
			var b [32]byte
			copy(b[:], ref.B32(scalars[g]))
			<-start
			switch opName {
			case "Point.ScalarBaseMult(S1)":
				s, _ := secp256k1.NewScalarFromCanonicalBytes(&b)
				res[g] = new(secp256k1.Point).ScalarBaseMult(s).UncompressedBytes()
			default: // key import = first use of the tables through the key API
				k := lib.MkPriv(scalars[g])
				res[g] = k.PublicKey().Bytes()
			}
		}(g)
	}
	close(start)
	wg.Wait()
	for g := range res {
		if !bytes.Equal(res[g], wantPts[g]) {
			fmt.Printf("COLD MISMATCH goroutine %d: got %x want %x\n", g, res[g], wantPts[g])
			return
		}
	}
	fmt.Println("COLD OK")
}

// first-use child: the FIRST execution of the given operations in this process is concurrent (nothing has warmed
// a lazily built cache, memo or table for them). Expected values come from the reference model where the operation
// has one; otherwise all goroutines running the same operation must agree.
func firstUseChild(names []string) {
	e := newEnv()
	start := make(chan struct{})
	res := make([][]byte, nGoroutines)
	var wg sync.WaitGroup
	for g := 0; g < nGoroutines; g++ {
		wg.Add(1)
		o := findOp(names[g%len(names)])
		if o == nil {
			fmt.Println("FIRSTUSE SKIP")
			return
		}
		go func(g int) {
			defer wg.Done()
			defer func() {
				if x := recover(); x != nil {
					res[g] = []byte(fmt.Sprint("panic: ", x))
				}
			}()
			<-start
			res[g] = o.f(e)
		}(g)
	}
	close(start)
	wg.Wait()
	first := map[string][]byte{}
	for g := range res {
		n := names[g%len(names)]
		o := findOp(n)
		w := first[n]
		if o.want != nil {
			w = o.want(e)
		} else if w == nil {
			first[n] = res[g]
			continue
		}
		if !bytes.Equal(res[g], w) {
			r := res[g]
			if len(r) > 48 {
				r = r[:48]
			}
			fmt.Printf("FIRSTUSE MISMATCH goroutine %d (%s): got %x..\n", g, n, r)
			return
		}
	}
	fmt.Println("FIRSTUSE OK")
}

// init child: before any other library call, both generator tables must already be complete.
func initChild() {
	switch m := tablesComplete(); m {
	case "SKIP":
		fmt.Println("INIT SKIP (table hook not available)")
	case "":
		fmt.Println("INIT OK")
	default:
		fmt.Println("INIT MISMATCH " + m)
	}
}

func child(args ...string) string {
	cmd := exec.Command(os.Args[0], args...)
	cmd.Env = os.Environ()
	out, err := cmd.CombinedOutput()
	s := strings.TrimSpace(string(out))
	if err != nil && s == "" {
		s = "child failed: " + err.Error()
	}
	return s
}

var pureGoRun = strings.HasSuffix(os.Getenv("VERIF_RUN"), "purego")

// the free-running pass may be split over several processes (VERIF_SHARD = i/n): tuples are dealt round-robin, the
// fresh-process sections (init, cold start, first use) run in process 0 only
var raceShard, raceShards = func() (int, int) {
	var i, n int
	fmt.Sscanf(os.Getenv("VERIF_SHARD"), "%d/%d", &i, &n)
	if n < 1 {
		return 0, 1
	}
	return i, n
}()

func mainRace() {
	if len(os.Args) > 2 && os.Args[1] == "-firstuse" {
		firstUseChild(os.Args[2:])
		return
	}
	if len(os.Args) > 2 && os.Args[1] == "-cold" {
		coldChild(os.Args[2])
		os.Exit(0)
	}
	if len(os.Args) > 1 && os.Args[1] == "-init" {
		initChild()
		os.Exit(0)
	}
	mc.Register("race-pair", func(d mc.D) string {
		e := newEnv()
		want := map[string][]byte{}
		for _, n := range d.L("ops") {
			want[n] = findOp(n).f(e)
		}
		return runConcurrent(e, d.L("ops"), want, 20)
	})
	mc.Register("firstuse", func(d mc.D) string {
		if out := child(append([]string{"-firstuse"}, d.L("ops")...)...); !strings.Contains(out, "FIRSTUSE OK") && !strings.Contains(out, "FIRSTUSE SKIP") {
			return out
		}
		return ""
	})
	mc.Register("cold", func(d mc.D) string {
		if out := child("-cold", d.S("op")); !strings.Contains(out, "COLD OK") && !strings.Contains(out, "COLD SKIP") {
			return out
		}
		return ""
	})
	mc.Register("init", func(d mc.D) string {
		if out := child("-init"); !strings.Contains(out, "INIT OK") && !strings.Contains(out, "INIT SKIP") {
			return out
		}
		return ""
	})
	mc.MaybeReplay()
	R.Config(fmt.Sprintf("free-running -race pass, %d goroutines per tuple", nGoroutines))
	th := R.Thorough()
	if raceShard == 0 {
		// (c) initialisation, then cold starts: fresh processes
		out := child("-init")
		R.T(1)
		if strings.Contains(out, "INIT SKIP") {
			R.SkipHook("generator tables (init check)")
		} else if !strings.Contains(out, "INIT OK") {
			R.Mismatch("init/tables complete before main", "init", out, mc.D{})
		} else {
			R.Class("init/tables complete before the first library call (fresh process)", 1)
		}
		nCold := 3
		if th {
			nCold = 10
		}
		for i := 0; i < nCold; i++ {
			for _, opn := range []string{"Point.ScalarBaseMult(S1)", "NewPrivateKey(bytes) (fresh object, shared tables)"} {
				out := child("-cold", opn)
				R.T(1)
				R.NTs(1)
				R.States(1)
				if !strings.Contains(out, "COLD OK") {
					R.Mismatch("cold-start/"+opn, "cold", out, mc.D{"op": opn})
				}
				R.Class("cold-start processes (first library calls concurrent)", 1)
			}
		}
		// (c') first use: for every operation (alone and with its neighbour in the list) a fresh process in which the
		// first executions of that operation are concurrent
		var fu [][]string
		for i := range ops {
			fu = append(fu, []string{ops[i].name, ops[i].name})
			if th || i%2 == 0 && !pureGoRun {
				fu = append(fu, []string{ops[i].name, ops[(i+1)%len(ops)].name})
			}
		}
		mc.Par(len(fu), func(i int) {
			out := child(append([]string{"-firstuse"}, fu[i]...)...)
			R.T(1)
			R.NTs(1)
			R.States(1)
			if !strings.Contains(out, "FIRSTUSE OK") && !strings.Contains(out, "FIRSTUSE SKIP") {
				if len(out) > 1500 {
					out = out[:1500]
				}
				R.Mismatch("first-use/"+fu[i][0]+" || "+fu[i][1], "firstuse", out, mc.D{"ops": fu[i]})
			}
			R.Class("first-use processes (first executions of an operation concurrent)", 1)
		})
	}
	// (b) free-running pairs on shared objects
	e := newEnv()
	fp := e.fingerprint()
	tfp := tableFingerprint()
	want := map[string][]byte{}
	for i := range ops {
		o := &ops[i]
		want[o.name] = o.f(e)
		if o.want != nil && !bytes.Equal(o.want(e), want[o.name]) {
			R.Fail("solo/"+o.name, "misc", map[string]any{"what": "solo result differs from the reference model"}, nil)
		}
	}
	rounds := 3
	if th {
		rounds = 10
	}
	logBefore := ownRaceLogSize()
	pairNo := 0
	for i := range ops {
		for j := i; j < len(ops); j++ {
			pairNo++
			if pairNo%raceShards != raceShard {
				continue // this tuple belongs to another process of the same pass
			}
			if !th && pureGoRun && i != j && (ops[i].heavy || ops[j].heavy) {
				continue // quick tier, pure-Go configuration: self pairs and light pairs (the builds differ only in the table lookups)
			}
			if !th && ops[i].heavy && ops[j].heavy && (i+j)%3 != 0 && i != j {
				continue
			}
			names := []string{ops[i].name, ops[j].name}
			R.T(int64(rounds))
			R.States(1)
			R.NTs(1)
			m := runConcurrent(e, names, want, rounds)
			if m == "" && e.fingerprint() != fp {
				m = "a shared read-only object changed"
				fp = e.fingerprint()
			}
			if sz := ownRaceLogSize(); sz != logBefore {
				m2 := fmt.Sprintf("the race detector reported a data race while running %s || %s (see race log excerpt)", names[0], names[1])
				if m == "" {
					m = m2
				}
				logBefore = sz
			}
			if m != "" {
				R.Mismatch("race/"+names[0]+" || "+names[1], "race-pair", m, mc.D{"ops": names, "excerpt": raceExcerpt()})
			}
			R.Class("free-running tuples", 1)
		}
	}
	if tableFingerprint() != tfp {
		R.Fail("race/tables", "misc", map[string]any{"what": "generator tables changed"}, nil)
	}
	// any report in any process of this run (children included)
	n, ex := raceReports()
	if raceShard != 0 {
		n = 0 // reports are attributed per tuple above; the run-wide count (children included) is taken by process 0
	}
	R.Class("race detector reports", int64(n))
	if n > 0 {
		R.Fail("race/detector", "race-log", map[string]any{"reports": n, "first_report": ex}, nil)
	}
	R.Bound("race_rounds", rounds)
	R.Sample("race", map[string]any{"tuple": []string{ops[0].name, ops[12].name}, "goroutines": nGoroutines, "rounds": rounds, "oracle": "results equal solo results; shared fingerprints unchanged; no race report"})
}

func raceReports() (int, string) {
	b := raceLogBase()
	if b == "" {
		return 0, ""
	}
	files, _ := filepath.Glob(b + ".*")
	n := 0
	first := ""
	for _, f := range files {
		data, err := os.ReadFile(f)
		if err != nil {
			continue
		}
		c := bytes.Count(data, []byte("WARNING: DATA RACE"))
		n += c
		if c > 0 && first == "" {
			first = string(data)
			if len(first) > 2500 {
				first = first[:2500]
			}
		}
	}
	return n, first
}

func raceExcerpt() string {
	_, ex := raceReports()
	if len(ex) > 1200 {
		ex = ex[:1200]
	}
	return ex
}
