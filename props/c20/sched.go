//go:build verifsched

package main

import (
	"bytes"
	"fmt"
	"os"
	"strings"

	secp256k1 "gitlab.com/yawning/secp256k1-voi"

	"verif/lib"
	"verif/mc"
)

func setOn(on bool) { secp256k1.VerifRTOn(on) }

var (
	E    *env
	solo = map[string][]byte{}
	fp0  string
	tfp0 uint64
)

func soloResult(o *cop) []byte {
	if r, ok := solo[o.name]; ok {
		return r
	}
	var r []byte
	if pn := lib.Try(func() { r = o.f(E) }); pn != "" {
		r = []byte("panic: " + pn)
	}
	if o.want != nil {
		if w := o.want(E); !bytes.Equal(w, r) {
			R.Fail("solo/"+o.name, "misc", map[string]any{"op": o.name, "what": "solo result differs from the reference model", "got": mc.Hex(r), "want": mc.Hex(w)}, nil)
		}
	}
	solo[o.name] = r
	return r
}

func bodies(names []string) []func() []byte {
	var out []func() []byte
	for _, n := range names {
		o := findOp(n)
		out = append(out, func() []byte { return o.f(E) })
	}
	return out
}

func checkExec(names []string, x *mc.Execution) string {
	for i, n := range names {
		if !bytes.Equal(x.Results[i], soloResult(findOp(n))) {
			r := x.Results[i]
			if len(r) > 48 {
				r = r[:48]
			}
			return fmt.Sprintf("thread %d (%s) returned %x.. which differs from its result when run alone", i, n, r)
		}
	}
	if E.fingerprint() != fp0 {
		return "a shared read-only object changed"
	}
	return ""
}

// switches compresses a choice vector to its non-default entries.
func switches(ch []int) []int {
	var o []int
	for i, c := range ch {
		if c != 0 {
			o = append(o, i, c)
		}
	}
	return o
}

func expand(sw []int) []int {
	n := 0
	for i := 0; i+1 < len(sw); i += 2 {
		if sw[i]+1 > n {
			n = sw[i] + 1
		}
	}
	ch := make([]int, n)
	for i := 0; i+1 < len(sw); i += 2 {
		ch[sw[i]] = sw[i+1]
	}
	return ch
}

// runSchedule re-executes one recorded schedule (twice: identical observations required).
func runSchedule(names []string, sw []int) string {
	s := &mc.Sched{}
	mc.SchedHook = s.Point
	mc.SchedBlockedHook = s.Blocked
	x1, d1 := s.Run(bodies(names), expand(sw), setOn)
	x2, d2 := s.Run(bodies(names), expand(sw), setOn)
	if d1 != "" || d2 != "" {
		return "replay divergence: " + d1 + d2
	}
	for i := range x1.Results {
		if !bytes.Equal(x1.Results[i], x2.Results[i]) {
			return "NONDETERMINISM: the same schedule gave different results"
		}
	}
	return checkExec(names, x1)
}

func explorePair(names []string, bound int, shard, nshard int, budget int64) {
	key := strings.Join(names, " || ")
	st := mc.Explore(func() []func() []byte { return bodies(names) }, bound, setOn, shard, nshard, budget,
		func(x *mc.Execution) string { return checkExec(names, x) },
		func(x *mc.Execution, m string) {
			R.Mismatch(fmt.Sprintf("sched/%s/bound=%d", key, bound), "sched", m, mc.D{"ops": names, "switches": switches(x.Choices), "preemptions": x.Preemptions,
				"meaning": "switches = (scheduling point index, choice) pairs; choice k = k-th enabled thread in canonical order (running thread first, then ascending ids)"})
		})
	R.T(st.Executions)
	R.V(0)
	R.States(st.Executions)
	R.NTs(st.Executions)
	R.Class(fmt.Sprintf("schedules explored/bound %d/%d threads", bound, len(names)), st.Executions)
	if len(st.Outcomes) > 1 {
		R.Class("pairs with more than one distinct outcome", 1)
	}
	if st.Capped {
		R.Cap(fmt.Sprintf("%s: execution budget reached at bound %d", key, bound))
	}
	if shard == 0 {
		R.Class("operation tuples explored", 1)
		if R.WantSample("pair") || strings.Contains(key, "Sign(hedged") && strings.Contains(key, "Verify(sigDER") {
			R.Sample("pair", map[string]any{"threads": names, "preemption_bound": bound, "scheduling_points_in_default_schedule": st.MaxPoints, "schedules_this_shard": st.Executions, "distinct_outcomes": len(st.Outcomes)})
		}
	}
	if tableFingerprint() != tfp0 {
		R.Fail("sched/tables/"+key, "misc", map[string]any{"what": "generator tables changed during " + key}, nil)
		tfp0 = tableFingerprint()
	}
}

func mainSched() {
	secp256k1.VerifRTSchedOnly(true)
	secp256k1.VerifRTSetPoint(func() {
		if mc.SchedHook != nil {
			mc.SchedHook()
		}
	})
	mc.SchedCheckGoroutine = secp256k1.VerifRTHasGo()
	secp256k1.VerifRTSetBlocked(func() {
		if mc.SchedBlockedHook != nil {
			mc.SchedBlockedHook()
		}
	})
	var shard0 int
	fmt.Sscanf(os.Getenv("VERIF_SHARD"), "%d/", &shard0)
	if shard0 == 0 && !(len(os.Args) > 1 && os.Args[1] == "-replay") {
		// (c) before ANY library call of this fresh process: both tables are complete
		if m := tablesComplete(); m != "" && m != "SKIP" {
			R.Fail("init/tables complete before main", "init", map[string]any{"mismatch": m}, nil)
		} else if m == "" {
			R.Class("init/tables complete before the first library call (fresh process)", 1)
		}
		R.T(1)
	}
	tfp0 = tableFingerprint()
	E = newEnv()
	fp0 = E.fingerprint()
	mc.Register("sched", func(d mc.D) string { return runSchedule(d.L("ops"), d.IL("switches")) })
	mc.Register("gc", func(d mc.D) string { return gcCase(d.S("op"), d.I("point")) })
	mc.MaybeReplay()
	var shard, nshard int
	fmt.Sscanf(os.Getenv("VERIF_SHARD"), "%d/%d", &shard, &nshard)
	if nshard < 1 {
		nshard = 1
	}
	purego := strings.HasSuffix(os.Getenv("VERIF_RUN"), "purego")
	R.Config(fmt.Sprintf("%s: cooperative scheduler on instrumented code (%d sites)", os.Getenv("VERIF_RUN"), secp256k1.VerifRTNumIDs()))
	R.Bound("shards", nshard)
	th := R.Thorough()
	var light, heavy []string
	for i := range ops {
		if freeOnly[ops[i].name] {
			continue
		}
		soloResult(&ops[i])
		if ops[i].heavy {
			heavy = append(heavy, ops[i].name)
		} else {
			light = append(light, ops[i].name)
		}
	}
	R.Bound("light_operations", light)
	R.Bound("heavy_operations", heavy)
	if shard == 0 && !purego {
		exploreGC(th)
	}
	if purego {
		// the pure-Go build differs from the default one only in the table lookups: explore the tuples that use them
		for _, p := range [][]string{{"Point.ScalarBaseMult(S1)", "Point.ScalarBaseMult(S1)"}, {"Point.ScalarMult(S1,P1)", "Point.ScalarMult(S1,P1)"},
			{"Point.ScalarBaseMult(S1)", "Point.ScalarMult(S1,P1)"}, {"Point.MultiScalarMult([S1,S2],[P1,P2])", "Point.ScalarBaseMult(S1)"},
			{"K.Sign(RFC 6979 selector)", "K.ECDH(peerQ)"}, {"Point.Add(P1,P2)", "Point.ScalarBaseMult(S1)"}} {
			if !th && !(p[0] == "Point.ScalarBaseMult(S1)" && p[1] != "Point.ScalarMult(S1,P1)" || p[0] == "Point.Add(P1,P2)") {
				continue // quick: the fixed-base lookups; thorough: every listed tuple
			}
			explorePair(p, 1, shard, nshard, 200000)
		}
		R.Bound("preemption_bound (purego run)", "1, lookup-using tuples only")
		return
	}
	// light x light (incl. self pairs): bound 1 everywhere, bound 2 on the lightest
	for i := range light {
		for j := i; j < len(light); j++ {
			if R.Expired() {
				break
			}
			b := 1
			if (i < 4 && j < 4) || th {
				b = 2
			}
			explorePair([]string{light[i], light[j]}, b, shard, nshard, 400000)
		}
	}
	// heavy pairs
	type hp struct{ a, b string }
	var hps []hp
	if th {
		all := append(append([]string{}, heavy...), light[0], light[4], light[8])
		for i := range all {
			for j := i; j < len(all); j++ {
				if !findOp(all[i]).heavy && !findOp(all[j]).heavy {
					continue
				}
				hps = append(hps, hp{all[i], all[j]})
			}
		}
	} else {
		self := []string{"K.Sign(hedged, per-call reader)", "Q.Verify(sigDER)", "K.ECDH(peerQ)", "Point.ScalarMult(S1,P1)", "Point.ScalarBaseMult(S1)", "SK.Sign(Schnorr, per-call reader)", "h2c RO(dst,msg)"}
		for _, s := range self {
			hps = append(hps, hp{s, s})
		}
		hps = append(hps, hp{"K.Sign(hedged, per-call reader)", "Q.Verify(sigDER)"}, hp{"Point.ScalarBaseMult(S1)", "K.Sign(RFC 6979 selector)"},
			hp{"K.Sign(recoverable, SelfVerify)", "RecoverPublicKey"}, hp{"SK.Sign(Schnorr, per-call reader)", "SPK.Verify(Schnorr)"},
			hp{"Point.MultiScalarMult([S1,S2],[P1,P2])", "Point.DoubleScalarMultBasepointVartime(S1,S2,P2)"}, hp{"NewPrivateKey(bytes) (fresh object, shared tables)", "K.ECDH(peerQ)"},
			hp{"h2c RO(oversize DST A)", "h2c NU(oversize DST B)"}, hp{"SK.Sign(Schnorr, per-call reader)", "SK.Sign(Schnorr, another short message)"}, hp{"Point.Add(P1,P2)", "K.Sign(hedged, per-call reader)"}, hp{"key accessors (Q.Bytes/CompressedBytes/Point, K.Bytes/Scalar, SPK.Bytes)", "Q.Verify(recoverable)"})
	}
	for _, p := range hps {
		if R.Expired() {
			R.Cap("heavy pairs: stopped by the internal time budget before " + p.a + " || " + p.b)
			break
		}
		explorePair([]string{p.a, p.b}, 1, shard, nshard, 200000)
	}
	// three threads, bound 1, light operations
	tri := [][]string{{light[0], light[0], light[1]}, {light[0], light[4], light[6]}}
	if th {
		for i := 0; i < len(light); i++ {
			tri = append(tri, []string{light[i], light[(i+1)%len(light)], light[(i+5)%len(light)]})
		}
	}
	for _, t := range tri {
		if R.Expired() {
			break
		}
		explorePair(t, 1, shard, nshard, 300000)
	}
	R.Bound("preemption_bound", "1 for every tuple; 2 for light pairs (quick: the four lightest operations)")
}
