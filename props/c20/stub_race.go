//go:build !verifrace

package main

func mainRace() { panic("built without the race configuration") }
