//go:build !verifsched

package main

func mainSched() { panic("built without the scheduler configuration") }
