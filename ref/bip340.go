package ref

import (
	"crypto/sha256"
	"math/big"
)

// TaggedHash is BIP-340's hash_tag(x) = SHA256(SHA256(tag) || SHA256(tag) || x).
func TaggedHash(tag string, parts ...[]byte) []byte {
	t := sha256.Sum256([]byte(tag))
	h := sha256.New()
	h.Write(t[:])
	h.Write(t[:])
	for _, p := range parts {
		h.Write(p)
	}
	return h.Sum(nil)
}

// BIP340LiftX is lift_x: the point with x-coordinate x and even y, if x < p
// and x^3+7 is a square.
func BIP340LiftX(x *big.Int) (Pt, bool) {
	if x.Sign() < 0 || x.Cmp(P) >= 0 {
		return Pt{}, false
	}
	return LiftX(x, 0)
}

// BIP340PubKey returns bytes(d*G) (x only) for d in [1,n-1].
func BIP340PubKey(d *big.Int) []byte {
	return B32(BaseMul(d).X)
}

// BIP340Sign is the BIP's Sign(sk, m) with auxiliary randomness a (32 bytes).
// ok=false when d' is out of range or k' = 0.
func BIP340Sign(dPrime *big.Int, aux []byte, msg []byte) ([]byte, bool) {
	if dPrime.Sign() <= 0 || dPrime.Cmp(N) >= 0 {
		return nil, false
	}
	pp := BaseMul(dPrime)
	d := new(big.Int).Set(dPrime)
	if pp.Y.Bit(0) == 1 {
		d.Sub(N, dPrime)
	}
	ha := TaggedHash("BIP0340/aux", aux)
	t := B32(d)
	for i := range t {
		t[i] ^= ha[i]
	}
	px := B32(pp.X)
	rand := TaggedHash("BIP0340/nonce", t, px, msg)
	kPrime := ModN(OS2IP(rand))
	if kPrime.Sign() == 0 {
		return nil, false
	}
	rp := BaseMul(kPrime)
	k := kPrime
	if rp.Y.Bit(0) == 1 {
		k = new(big.Int).Sub(N, kPrime)
	}
	rx := B32(rp.X)
	e := ModN(OS2IP(TaggedHash("BIP0340/challenge", rx, px, msg)))
	s := ZnAdd(k, ZnMul(e, d))
	return append(rx, B32(s)...), true
}

// BIP340SignNoNonceNegation is Sign with a chosen k used AS IS (no negation to
// even y): produces signatures whose R may have odd y (must be rejected).
func BIP340SignWithK(dPrime, k *big.Int, msg []byte) []byte {
	pp := BaseMul(dPrime)
	d := new(big.Int).Set(dPrime)
	if pp.Y.Bit(0) == 1 {
		d.Sub(N, dPrime)
	}
	rp := BaseMul(k)
	rx := B32(rp.X)
	e := ModN(OS2IP(TaggedHash("BIP0340/challenge", rx, B32(pp.X), msg)))
	s := ZnAdd(k, ZnMul(e, d))
	return append(rx, B32(s)...)
}

// BIP340Challenge returns e for (rx, px, msg).
func BIP340Challenge(rx, px, msg []byte) *big.Int {
	return ModN(OS2IP(TaggedHash("BIP0340/challenge", rx, px, msg)))
}

// BIP340Verify is the BIP's Verify(pk, m, sig), with the length rules of the
// property (pk 32 bytes, sig 64 bytes; anything else is rejected).
func BIP340Verify(pk, msg, sig []byte) bool {
	if len(pk) != 32 || len(sig) != 64 {
		return false
	}
	p, ok := BIP340LiftX(OS2IP(pk))
	if !ok {
		return false
	}
	r := OS2IP(sig[:32])
	s := OS2IP(sig[32:])
	if r.Cmp(P) >= 0 || s.Cmp(N) >= 0 {
		return false
	}
	e := BIP340Challenge(sig[:32], pk, msg)
	rp := BaseMul(s).Sub(p.Mul(e))
	if rp.Inf || rp.Y.Bit(0) == 1 || rp.X.Cmp(r) != 0 {
		return false
	}
	return true
}
