// Package ref is the boring reference model: math/big integers, textbook affine
// chord-and-tangent arithmetic, literal transcriptions of the standards.
// It deliberately shares no structure with the implementation under test.
package ref

import (
	"errors"
	"fmt"
	"math/big"
	"sync"
)

func hx(s string) *big.Int {
	v, ok := new(big.Int).SetString(s, 16)
	if !ok {
		panic("ref: bad hex " + s)
	}
	return v
}

var (
	P    = hx("fffffffffffffffffffffffffffffffffffffffffffffffffffffffefffffc2f")
	N    = hx("fffffffffffffffffffffffffffffffebaaedce6af48a03bbfd25e8cd0364141")
	Gx   = hx("79be667ef9dcbbac55a06295ce870b07029bfcdb2dce28d959f2815b16f81798")
	Gy   = hx("483ada7726a3c4655da4fbfc0e1108a8fd17b448a68554199c47d08ffb10d4b8")
	Zero = big.NewInt(0)
	One  = big.NewInt(1)
	Two  = big.NewInt(2)
	Sev  = big.NewInt(7)
	// R = 2^256
	R256 = new(big.Int).Lsh(One, 256)
	// C = 2^256 - p = 2^32 + 977
	C = new(big.Int).Sub(R256, P)
	// HalfN = (n-1)/2
	HalfN = new(big.Int).Rsh(N, 1)
	// Lambda, Beta: the GLV endomorphism constants (lambda*G = (beta*Gx, Gy)).
	Lambda = hx("5363ad4cc05c30e0a5261c028812645a122e22ea20816678df02967c1b23bd72")
	Beta   = hx("7ae96a2b657c07106e64479eac3434e99cf0497512f58995c1396c28719501ee")

	pPlus1Div4  = new(big.Int).Rsh(new(big.Int).Add(P, One), 2)
	pMinus1Div2 = new(big.Int).Rsh(P, 1)
)

// I returns a fresh big.Int from an int64.
func I(v int64) *big.Int { return big.NewInt(v) }

// ModP / ModN return x mod p / n in [0,m).
func ModP(x *big.Int) *big.Int { return new(big.Int).Mod(x, P) }
func ModN(x *big.Int) *big.Int { return new(big.Int).Mod(x, N) }

func FpAdd(a, b *big.Int) *big.Int { return ModP(new(big.Int).Add(a, b)) }
func FpSub(a, b *big.Int) *big.Int { return ModP(new(big.Int).Sub(a, b)) }
func FpMul(a, b *big.Int) *big.Int { return ModP(new(big.Int).Mul(a, b)) }
func FpNeg(a *big.Int) *big.Int    { return ModP(new(big.Int).Neg(a)) }
func FpSqr(a *big.Int) *big.Int    { return FpMul(a, a) }

// FpInv is the inverse with inv(0) = 0.
func FpInv(a *big.Int) *big.Int {
	a = ModP(a)
	if a.Sign() == 0 {
		return new(big.Int)
	}
	return new(big.Int).ModInverse(a, P)
}

// FpIsSquare reports whether a is a square mod p (0 counts as a square).
func FpIsSquare(a *big.Int) bool {
	a = ModP(a)
	if a.Sign() == 0 {
		return true
	}
	return new(big.Int).Exp(a, pMinus1Div2, P).Cmp(One) == 0
}

// FpSqrt returns a square root (one of the two) and true iff one exists.
func FpSqrt(a *big.Int) (*big.Int, bool) {
	a = ModP(a)
	r := new(big.Int).Exp(a, pPlus1Div4, P)
	if FpSqr(r).Cmp(a) != 0 {
		return new(big.Int), false
	}
	return r, true
}

func FpPow2k(a *big.Int, k uint) *big.Int {
	r := ModP(a)
	for i := uint(0); i < k; i++ {
		r = FpSqr(r)
	}
	return r
}

func ZnAdd(a, b *big.Int) *big.Int { return ModN(new(big.Int).Add(a, b)) }
func ZnSub(a, b *big.Int) *big.Int { return ModN(new(big.Int).Sub(a, b)) }
func ZnMul(a, b *big.Int) *big.Int { return ModN(new(big.Int).Mul(a, b)) }
func ZnNeg(a *big.Int) *big.Int    { return ModN(new(big.Int).Neg(a)) }
func ZnInv(a *big.Int) *big.Int {
	a = ModN(a)
	if a.Sign() == 0 {
		return new(big.Int)
	}
	return new(big.Int).ModInverse(a, N)
}

// B32 encodes v (must be in [0,2^256)) as 32 big-endian bytes.
func B32(v *big.Int) []byte {
	if v.Sign() < 0 || v.BitLen() > 256 {
		panic(fmt.Sprintf("ref.B32: out of range %x", v))
	}
	out := make([]byte, 32)
	v.FillBytes(out)
	return out
}

// A32 is B32 into an array.
func A32(v *big.Int) *[32]byte {
	var a [32]byte
	copy(a[:], B32(v))
	return &a
}

// OS2IP interprets b as a big-endian integer.
func OS2IP(b []byte) *big.Int { return new(big.Int).SetBytes(b) }

// Pt is an affine point or the point at infinity.
type Pt struct {
	X, Y *big.Int
	Inf  bool
}

func Infinity() Pt { return Pt{Inf: true} }
func G() Pt        { return Pt{X: new(big.Int).Set(Gx), Y: new(big.Int).Set(Gy)} }

func (p Pt) String() string {
	if p.Inf {
		return "inf"
	}
	return fmt.Sprintf("(%x,%x)", p.X, p.Y)
}

// Key is a canonical comparable identity for the abstract point.
func (p Pt) Key() string {
	if p.Inf {
		return "inf"
	}
	return string(B32(p.X)) + string(B32(p.Y))
}

func (p Pt) Equal(q Pt) bool {
	if p.Inf || q.Inf {
		return p.Inf == q.Inf
	}
	return p.X.Cmp(q.X) == 0 && p.Y.Cmp(q.Y) == 0
}

// OnCurveXY reports y^2 == x^3+7 (mod p) for canonical x,y.
func OnCurveXY(x, y *big.Int) bool {
	if x.Sign() < 0 || x.Cmp(P) >= 0 || y.Sign() < 0 || y.Cmp(P) >= 0 {
		return false
	}
	lhs := FpSqr(y)
	rhs := FpAdd(FpMul(FpSqr(x), x), Sev)
	return lhs.Cmp(rhs) == 0
}

func (p Pt) OnCurve() bool {
	if p.Inf {
		return true
	}
	return OnCurveXY(p.X, p.Y)
}

func (p Pt) Neg() Pt {
	if p.Inf {
		return p
	}
	return Pt{X: new(big.Int).Set(p.X), Y: FpNeg(p.Y)}
}

// Add is the textbook chord-and-tangent law with its explicit case split.
func (p Pt) Add(q Pt) Pt {
	if p.Inf {
		return q
	}
	if q.Inf {
		return p
	}
	if p.X.Cmp(q.X) == 0 {
		if p.Y.Cmp(q.Y) != 0 || p.Y.Sign() == 0 {
			return Infinity() // P = -Q
		}
		// doubling: l = 3x^2 / 2y
		l := FpMul(FpMul(I(3), FpSqr(p.X)), FpInv(FpMul(Two, p.Y)))
		x3 := FpSub(FpSqr(l), FpMul(Two, p.X))
		y3 := FpSub(FpMul(l, FpSub(p.X, x3)), p.Y)
		return Pt{X: x3, Y: y3}
	}
	l := FpMul(FpSub(q.Y, p.Y), FpInv(FpSub(q.X, p.X)))
	x3 := FpSub(FpSub(FpSqr(l), p.X), q.X)
	y3 := FpSub(FpMul(l, FpSub(p.X, x3)), p.Y)
	return Pt{X: x3, Y: y3}
}

func (p Pt) Sub(q Pt) Pt { return p.Add(q.Neg()) }
func (p Pt) Double() Pt  { return p.Add(p) }

// jacobian helper for fast reference multiplication (second reference path,
// cross-checked against the affine double-and-add in SelfTest).
type jac struct{ x, y, z *big.Int }

func (p Pt) toJac() jac {
	if p.Inf {
		return jac{I(1), I(1), I(0)}
	}
	return jac{new(big.Int).Set(p.X), new(big.Int).Set(p.Y), I(1)}
}

func (j jac) toAffine() Pt {
	if j.z.Sign() == 0 {
		return Infinity()
	}
	zi := FpInv(j.z)
	zi2 := FpSqr(zi)
	return Pt{X: FpMul(j.x, zi2), Y: FpMul(j.y, FpMul(zi2, zi))}
}

func (j jac) dbl() jac {
	if j.z.Sign() == 0 || j.y.Sign() == 0 {
		return jac{I(1), I(1), I(0)}
	}
	// a = 0: S = 4XY^2, M = 3X^2, X' = M^2-2S, Y' = M(S-X')-8Y^4, Z' = 2YZ
	y2 := FpSqr(j.y)
	s := FpMul(I(4), FpMul(j.x, y2))
	m := FpMul(I(3), FpSqr(j.x))
	x3 := FpSub(FpSqr(m), FpMul(Two, s))
	y3 := FpSub(FpMul(m, FpSub(s, x3)), FpMul(I(8), FpSqr(y2)))
	z3 := FpMul(Two, FpMul(j.y, j.z))
	return jac{x3, y3, z3}
}

func (j jac) addAffine(q Pt) jac {
	if q.Inf {
		return j
	}
	if j.z.Sign() == 0 {
		return q.toJac()
	}
	z2 := FpSqr(j.z)
	u2 := FpMul(q.X, z2)
	s2 := FpMul(q.Y, FpMul(z2, j.z))
	h := FpSub(u2, j.x)
	r := FpSub(s2, j.y)
	if h.Sign() == 0 {
		if r.Sign() == 0 {
			return j.dbl()
		}
		return jac{I(1), I(1), I(0)}
	}
	h2 := FpSqr(h)
	h3 := FpMul(h2, h)
	v := FpMul(j.x, h2)
	x3 := FpSub(FpSub(FpSqr(r), h3), FpMul(Two, v))
	y3 := FpSub(FpMul(r, FpSub(v, x3)), FpMul(j.y, h3))
	z3 := FpMul(j.z, h)
	return jac{x3, y3, z3}
}

// MulAffine is the slow textbook left-to-right double-and-add on affine points.
func (p Pt) MulAffine(k *big.Int) Pt {
	k = ModN(k)
	acc := Infinity()
	for i := k.BitLen() - 1; i >= 0; i-- {
		acc = acc.Double()
		if k.Bit(i) == 1 {
			acc = acc.Add(p)
		}
	}
	return acc
}

var (
	mulMu    sync.Mutex
	mulCache = map[string]Pt{}
)

// Mul returns k*P (k reduced mod n), memoised; Jacobian double-and-add.
func (p Pt) Mul(k *big.Int) Pt {
	k = ModN(k)
	if p.Inf || k.Sign() == 0 {
		return Infinity()
	}
	key := string(B32(k)) + p.Key()
	mulMu.Lock()
	if v, ok := mulCache[key]; ok {
		mulMu.Unlock()
		return v
	}
	mulMu.Unlock()
	acc := jac{I(1), I(1), I(0)}
	for i := k.BitLen() - 1; i >= 0; i-- {
		acc = acc.dbl()
		if k.Bit(i) == 1 {
			acc = acc.addAffine(p)
		}
	}
	r := acc.toAffine()
	mulMu.Lock()
	if len(mulCache) > 400000 {
		mulCache = map[string]Pt{}
	}
	mulCache[key] = r
	mulMu.Unlock()
	return r
}

// BaseMul returns k*G.
func BaseMul(k *big.Int) Pt { return G().Mul(k) }

// LiftX returns the point with the given x and y parity (odd=1), if any.
func LiftX(x *big.Int, odd uint) (Pt, bool) {
	if x.Sign() < 0 || x.Cmp(P) >= 0 {
		return Pt{}, false
	}
	yy := FpAdd(FpMul(FpSqr(x), x), Sev)
	y, ok := FpSqrt(yy)
	if !ok {
		return Pt{}, false
	}
	if y.Bit(0) != odd {
		y = FpNeg(y)
	}
	return Pt{X: new(big.Int).Set(x), Y: y}, true
}

// ---- SEC 1 section 2.3.3 / 2.3.4 ----

func (p Pt) Compressed() []byte {
	if p.Inf {
		return []byte{0}
	}
	out := []byte{byte(2 + p.Y.Bit(0))}
	return append(out, B32(p.X)...)
}

func (p Pt) Uncompressed() []byte {
	if p.Inf {
		return []byte{0}
	}
	out := []byte{4}
	out = append(out, B32(p.X)...)
	return append(out, B32(p.Y)...)
}

var ErrDecode = errors.New("ref: invalid SEC 1 point encoding")

// DecodePoint is SEC 1 2.3.4 (no hybrid form), accepting the three formats.
func DecodePoint(b []byte) (Pt, error) {
	switch len(b) {
	case 1:
		if b[0] == 0 {
			return Infinity(), nil
		}
		return Pt{}, ErrDecode
	case 33:
		if b[0] != 2 && b[0] != 3 {
			return Pt{}, ErrDecode
		}
		x := OS2IP(b[1:])
		if x.Cmp(P) >= 0 {
			return Pt{}, ErrDecode
		}
		pt, ok := LiftX(x, uint(b[0]&1))
		if !ok {
			return Pt{}, ErrDecode
		}
		return pt, nil
	case 65:
		if b[0] != 4 {
			return Pt{}, ErrDecode
		}
		x, y := OS2IP(b[1:33]), OS2IP(b[33:])
		if x.Cmp(P) >= 0 || y.Cmp(P) >= 0 || !OnCurveXY(x, y) {
			return Pt{}, ErrDecode
		}
		return Pt{X: x, Y: y}, nil
	}
	return Pt{}, ErrDecode
}

// DecodeCompressed / DecodeUncompressed: the format-specific decoders.
func DecodeCompressed(b []byte) (Pt, error) {
	if len(b) != 33 {
		return Pt{}, ErrDecode
	}
	return DecodePoint(b)
}

func DecodeUncompressed(b []byte) (Pt, error) {
	if len(b) != 65 {
		return Pt{}, ErrDecode
	}
	return DecodePoint(b)
}

// SelfTestCurve checks the algebraic facts the rest of the model relies on.
func SelfTestCurve() error {
	g := G()
	if !g.OnCurve() {
		return errors.New("G not on curve")
	}
	if !g.MulAffine(N).Inf {
		return errors.New("n*G != inf (affine)")
	}
	if !g.Mul(new(big.Int).Sub(N, One)).Equal(g.Neg()) {
		return errors.New("(n-1)G != -G")
	}
	lg := g.Mul(Lambda)
	if lg.X.Cmp(FpMul(Beta, Gx)) != 0 || lg.Y.Cmp(Gy) != 0 {
		return errors.New("lambda*G != (beta*x, y)")
	}
	if new(big.Int).Exp(Beta, I(3), P).Cmp(One) != 0 || new(big.Int).Exp(Lambda, I(3), N).Cmp(One) != 0 {
		return errors.New("beta^3 or lambda^3 != 1")
	}
	// Jacobian path == affine path on a spread of scalars.
	ks := []*big.Int{I(1), I(2), I(3), I(15), I(16), I(255), HalfN, new(big.Int).Sub(N, One), Lambda, hx("deadbeef00000000000000000000000000000000000000000000000012345678")}
	pts := []Pt{g, g.Double(), lg}
	for _, k := range ks {
		for _, p := range pts {
			a, b := p.MulAffine(k), p.Mul(k)
			if !a.Equal(b) || !a.OnCurve() {
				return fmt.Errorf("jacobian/affine mul mismatch k=%x", k)
			}
		}
	}
	// sqrt cross-check with ModSqrt
	for i := int64(1); i < 50; i++ {
		a := I(i)
		r, ok := FpSqrt(a)
		ms := new(big.Int).ModSqrt(a, P)
		if ok != (ms != nil) {
			return fmt.Errorf("sqrt existence mismatch %d", i)
		}
		if ok && FpSqr(r).Cmp(a) != 0 {
			return fmt.Errorf("sqrt wrong %d", i)
		}
	}
	return nil
}
