package ref

import (
	"bytes"
	"math/big"
)

// ---- strict DER, written from X.690 for the two structures the library parses ----

// derTLV reads one definite-length TLV with DER-minimal length encoding from b.
// Returns tag, content, rest, ok. Only single-byte (low) tag numbers.
func derTLV(b []byte) (tag byte, content, rest []byte, ok bool) {
	if len(b) < 2 {
		return 0, nil, nil, false
	}
	tag = b[0]
	if tag&0x1f == 0x1f { // high tag number form: not used by these structures
		return 0, nil, nil, false
	}
	l := int(b[1])
	off := 2
	switch {
	case l < 0x80:
	case l == 0x80: // indefinite: not DER
		return 0, nil, nil, false
	default:
		nb := l & 0x7f
		if nb > 4 || len(b) < 2+nb {
			return 0, nil, nil, false
		}
		l = 0
		for i := 0; i < nb; i++ {
			l = l<<8 | int(b[2+i])
		}
		off = 2 + nb
		if b[2] == 0 { // leading zero length octet: not minimal
			return 0, nil, nil, false
		}
		if l < 0x80 { // long form used where short form fits: not minimal
			return 0, nil, nil, false
		}
	}
	if l < 0 || len(b)-off < l {
		return 0, nil, nil, false
	}
	return tag, b[off : off+l], b[off+l:], true
}

// derPositiveInt decodes the content octets of a DER INTEGER that must be
// minimal and non-negative.
func derPositiveInt(c []byte) (*big.Int, bool) {
	if len(c) == 0 {
		return nil, false
	}
	if c[0]&0x80 != 0 { // negative
		return nil, false
	}
	if len(c) > 1 && c[0] == 0x00 && c[1]&0x80 == 0 { // superfluous leading zero
		return nil, false
	}
	return new(big.Int).SetBytes(c), true
}

// DERParseSig accepts exactly the strict-DER encodings of
// SEQUENCE { INTEGER r, INTEGER s } with 1 <= r,s < n.
func DERParseSig(b []byte) (r, s *big.Int, ok bool) {
	tag, seq, rest, ok := derTLV(b)
	if !ok || tag != 0x30 || len(rest) != 0 {
		return nil, nil, false
	}
	tag, rc, rest, ok := derTLV(seq)
	if !ok || tag != 0x02 {
		return nil, nil, false
	}
	tag, sc, rest, ok := derTLV(rest)
	if !ok || tag != 0x02 || len(rest) != 0 {
		return nil, nil, false
	}
	r, ok1 := derPositiveInt(rc)
	s, ok2 := derPositiveInt(sc)
	if !ok1 || !ok2 {
		return nil, nil, false
	}
	if r.Sign() == 0 || s.Sign() == 0 || r.Cmp(N) >= 0 || s.Cmp(N) >= 0 {
		return nil, nil, false
	}
	return r, s, true
}

func derLen(l int) []byte {
	switch {
	case l < 0x80:
		return []byte{byte(l)}
	case l < 0x100:
		return []byte{0x81, byte(l)}
	}
	return []byte{0x82, byte(l >> 8), byte(l)}
}

// DERInt encodes a non-negative integer as a DER INTEGER TLV.
func DERInt(v *big.Int) []byte {
	c := v.Bytes()
	if len(c) == 0 {
		c = []byte{0}
	}
	if c[0]&0x80 != 0 {
		c = append([]byte{0}, c...)
	}
	out := append([]byte{0x02}, derLen(len(c))...)
	return append(out, c...)
}

// DERBuildSig is the canonical encoding of (r,s).
func DERBuildSig(r, s *big.Int) []byte {
	body := append(DERInt(r), DERInt(s)...)
	out := append([]byte{0x30}, derLen(len(body))...)
	return append(out, body...)
}

// CompactParse accepts exactly the 64-byte strings r||s with 1 <= r,s < n.
func CompactParse(b []byte) (r, s *big.Int, ok bool) {
	if len(b) != 64 {
		return nil, nil, false
	}
	r, s = OS2IP(b[:32]), OS2IP(b[32:])
	if r.Sign() == 0 || s.Sign() == 0 || r.Cmp(N) >= 0 || s.Cmp(N) >= 0 {
		return nil, nil, false
	}
	return r, s, true
}

// CompactRecoverableParse: 65 bytes r||s||v (v is returned as is).
func CompactRecoverableParse(b []byte) (r, s *big.Int, v byte, ok bool) {
	if len(b) != 65 {
		return nil, nil, 0, false
	}
	r, s, ok = CompactParse(b[:64])
	return r, s, b[64], ok
}

// ---- BIP-66 grammar ----
//
//	0x30 [total-length] 0x02 [R-length] [R] 0x02 [S-length] [S] [sighash]
//
// 9..73 bytes; total-length covers everything but itself, the tag and the
// sighash byte; R and S are minimal non-negative, non-empty integers.
func bip66Int(c []byte) bool {
	if len(c) == 0 {
		return false
	}
	if c[0]&0x80 != 0 {
		return false
	}
	if len(c) > 1 && c[0] == 0 && c[1]&0x80 == 0 {
		return false
	}
	return true
}

// BIP66Valid is a recursive-descent recogniser of the grammar above.
func BIP66Valid(b []byte) bool {
	if len(b) < 9 || len(b) > 73 {
		return false
	}
	if b[0] != 0x30 || int(b[1]) != len(b)-3 {
		return false
	}
	body := b[2 : len(b)-1] // without the sighash byte
	// R
	if len(body) < 2 || body[0] != 0x02 {
		return false
	}
	lr := int(body[1])
	if len(body) < 2+lr {
		return false
	}
	rc := body[2 : 2+lr]
	body = body[2+lr:]
	// S
	if len(body) < 2 || body[0] != 0x02 {
		return false
	}
	ls := int(body[1])
	if len(body) != 2+ls {
		return false
	}
	sc := body[2:]
	return bip66Int(rc) && bip66Int(sc)
}

// ---- SubjectPublicKeyInfo for ecPublicKey / secp256k1 ----

var (
	spkiAlgo = []byte{0x30, 0x10, 0x06, 0x07, 0x2a, 0x86, 0x48, 0xce, 0x3d, 0x02, 0x01, 0x06, 0x05, 0x2b, 0x81, 0x04, 0x00, 0x0a}
)

// SPKIBuild is the canonical DER SubjectPublicKeyInfo around a SEC 1 point encoding.
func SPKIBuild(point []byte) []byte {
	bits := append([]byte{0x03}, derLen(len(point)+1)...)
	bits = append(bits, 0x00)
	bits = append(bits, point...)
	body := append(append([]byte{}, spkiAlgo...), bits...)
	out := append([]byte{0x30}, derLen(len(body))...)
	return append(out, body...)
}

// SPKIParse accepts exactly the strict-DER SubjectPublicKeyInfo structures with
// the ecPublicKey / secp256k1 identifiers whose BIT STRING has no unused bits
// and holds a valid SEC 1 encoding of a non-identity point. Written as a DER
// walk (not a template compare) so that each clause is explicit.
func SPKIParse(b []byte) (Pt, bool) {
	tag, outer, rest, ok := derTLV(b)
	if !ok || tag != 0x30 || len(rest) != 0 {
		return Pt{}, false
	}
	tag, algo, rest, ok := derTLV(outer)
	if !ok || tag != 0x30 {
		return Pt{}, false
	}
	tag, bits, rest, ok := derTLV(rest)
	if !ok || tag != 0x03 || len(rest) != 0 {
		return Pt{}, false
	}
	tag, oid1, arest, ok := derTLV(algo)
	if !ok || tag != 0x06 || !bytes.Equal(oid1, spkiAlgo[4:11]) {
		return Pt{}, false
	}
	tag, oid2, arest, ok := derTLV(arest)
	if !ok || tag != 0x06 || !bytes.Equal(oid2, spkiAlgo[13:18]) || len(arest) != 0 {
		return Pt{}, false
	}
	if len(bits) < 1 || bits[0] != 0x00 { // unused-bits octet must be zero
		return Pt{}, false
	}
	pt, err := DecodePoint(bits[1:])
	if err != nil || pt.Inf {
		return Pt{}, false
	}
	return pt, true
}
