package ref

import (
	"crypto/hmac"
	"crypto/sha256"
	"errors"
	"math/big"
)

// DigestToE is SEC 1 4.1.3 step 5 / 4.1.4 step 3 for a 256-bit order: the
// leftmost 256 bits of the digest as an integer (not yet reduced). ok=false
// for digests shorter than 32 bytes (the property: always rejected).
func DigestToE(digest []byte) (*big.Int, bool) {
	if len(digest) < 32 {
		return nil, false
	}
	return OS2IP(digest[:32]), true
}

// ECDSAVerify is SEC 1 section 4.1.4, literally, on integers r,s in [0,2^256).
func ECDSAVerify(q Pt, digest []byte, r, s *big.Int) bool {
	// 1. r, s in [1, n-1]
	if r.Sign() <= 0 || r.Cmp(N) >= 0 || s.Sign() <= 0 || s.Cmp(N) >= 0 {
		return false
	}
	e, ok := DigestToE(digest)
	if !ok {
		return false
	}
	if q.Inf || !q.OnCurve() {
		return false
	}
	// 4. u1 = e s^-1, u2 = r s^-1
	si := new(big.Int).ModInverse(s, N)
	u1 := ZnMul(e, si)
	u2 := ZnMul(r, si)
	// 5. R = u1 G + u2 Q ; reject infinity
	rp := BaseMul(u1).Add(q.Mul(u2))
	if rp.Inf {
		return false
	}
	// 6-8. v = xR mod n == r
	return ModN(rp.X).Cmp(r) == 0
}

// ECDSASignWithNonce is SEC 1 section 4.1.3 with a caller-chosen nonce; ok=false
// when r = 0 or s = 0. No low-s normalisation. Also returns the nonce point.
func ECDSASignWithNonce(d *big.Int, digest []byte, k *big.Int) (r, s *big.Int, rp Pt, ok bool) {
	e, eok := DigestToE(digest)
	if !eok || k.Sign() <= 0 || k.Cmp(N) >= 0 {
		return nil, nil, Pt{}, false
	}
	rp = BaseMul(k)
	r = ModN(rp.X)
	if r.Sign() == 0 {
		return nil, nil, rp, false
	}
	s = ZnMul(new(big.Int).ModInverse(k, N), ZnAdd(e, ZnMul(r, d)))
	if s.Sign() == 0 {
		return nil, nil, rp, false
	}
	return r, s, rp, true
}

// LowS returns (s', flipped) with s' = min(s, n-s).
func LowS(s *big.Int) (*big.Int, bool) {
	if s.Cmp(HalfN) > 0 {
		return new(big.Int).Sub(N, s), true
	}
	return new(big.Int).Set(s), false
}

// RecoveryID is the id the property defines: bit1 = x(R) >= n, bit0 = y(R) odd,
// bit0 flipped when s was negated.
func RecoveryID(rp Pt, sNegated bool) byte {
	var v byte
	if rp.X.Cmp(N) >= 0 {
		v |= 2
	}
	v |= byte(rp.Y.Bit(0))
	if sNegated {
		v ^= 1
	}
	return v
}

var ErrRecover = errors.New("ref: recovery failed")

// RecoverPointR is the R reconstruction of SEC 1 4.1.6 for an explicit id:
// x = r + n*bit1 must be < p and an x-coordinate; parity = bit0. ids > 3 fail.
func RecoverPointR(r *big.Int, v int) (Pt, error) {
	if v < 0 || v > 3 {
		return Pt{}, ErrRecover
	}
	if r.Sign() < 0 || r.Cmp(N) >= 0 {
		return Pt{}, ErrRecover
	}
	x := new(big.Int).Set(r)
	if v&2 != 0 {
		x.Add(x, N)
	}
	if x.Cmp(P) >= 0 {
		return Pt{}, ErrRecover
	}
	pt, ok := LiftX(x, uint(v&1))
	if !ok {
		return Pt{}, ErrRecover
	}
	return pt, nil
}

// ECDSARecover returns Q = r^-1 (s R - e G) or an error.
func ECDSARecover(digest []byte, r, s *big.Int, v int) (Pt, error) {
	if r.Sign() <= 0 || r.Cmp(N) >= 0 || s.Sign() <= 0 || s.Cmp(N) >= 0 {
		return Pt{}, ErrRecover
	}
	e, ok := DigestToE(digest)
	if !ok {
		return Pt{}, ErrRecover
	}
	rp, err := RecoverPointR(r, v)
	if err != nil {
		return Pt{}, err
	}
	ri := new(big.Int).ModInverse(r, N)
	q := rp.Mul(ZnMul(s, ri)).Sub(BaseMul(ZnMul(ModN(e), ri)))
	if q.Inf {
		return Pt{}, ErrRecover
	}
	return q, nil
}

// ---- RFC 6979 section 3.2 with HMAC-SHA-256, qlen = 256 ----

func hmacSHA256(key []byte, parts ...[]byte) []byte {
	m := hmac.New(sha256.New, key)
	for _, p := range parts {
		m.Write(p)
	}
	return m.Sum(nil)
}

// RFC6979Candidates returns the first count candidate octet strings T
// (32 bytes each) for private key x and h1 = digest: steps a-h, with the K/V
// update of step h.3 between candidates. bits2octets(h1) = (bits2int(h1) mod q).
func RFC6979Candidates(x *big.Int, digest []byte, count int) [][]byte {
	e, ok := DigestToE(digest) // bits2int for qlen = 256: leftmost 256 bits
	if !ok {
		// RFC: bits2int pads short input on the left; not used by the library (digest < 32 rejected)
		e = OS2IP(digest)
	}
	xo := B32(x)
	ho := B32(ModN(e))
	v := make([]byte, 32)
	k := make([]byte, 32)
	for i := range v {
		v[i] = 1
	}
	k = hmacSHA256(k, v, []byte{0}, xo, ho) // d
	v = hmacSHA256(k, v)                    // e
	k = hmacSHA256(k, v, []byte{1}, xo, ho) // f
	v = hmacSHA256(k, v)                    // g
	var out [][]byte
	for len(out) < count {
		// h.2: T = V = HMAC_K(V) (hlen = qlen)
		v = hmacSHA256(k, v)
		out = append(out, append([]byte{}, v...))
		// h.3 (when the candidate is unsuitable)
		k = hmacSHA256(k, v, []byte{0})
		v = hmacSHA256(k, v)
	}
	return out
}

// RFC6979Nonce returns the first suitable nonce (in [1,n-1], r != 0, s != 0) and its index.
func RFC6979Nonce(x *big.Int, digest []byte) (*big.Int, int) {
	for n := 4; ; n *= 2 {
		c := RFC6979Candidates(x, digest, n)
		for i, t := range c {
			k := OS2IP(t)
			if k.Sign() > 0 && k.Cmp(N) < 0 {
				if _, _, _, ok := ECDSASignWithNonce(x, digest, k); ok {
					return k, i
				}
			}
		}
		if n > 64 {
			panic("ref: no RFC 6979 nonce")
		}
	}
}

// ECDSASignRFC6979 is deterministic ECDSA; lowS additionally normalises s and
// returns the recovery id as the property defines it.
func ECDSASignRFC6979(x *big.Int, digest []byte) (r, s *big.Int, v byte) {
	k, _ := RFC6979Nonce(x, digest)
	r, s, rp, _ := ECDSASignWithNonce(x, digest, k)
	s2, neg := LowS(s)
	return r, s2, RecoveryID(rp, neg)
}
