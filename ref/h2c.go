package ref

import (
	"crypto/sha256"
	"errors"
	"fmt"
	"math/big"
)

// ---- RFC 9380 section 5.3.1: expand_message_xmd with SHA-256 ----

// ExpandMessageXMD follows the steps of section 5.3.1 (and 5.3.3 for DSTs
// longer than 255 bytes) one by one. ok=false is the RFC's ABORT.
func ExpandMessageXMD(msg, dst []byte, lenInBytes int) ([]byte, bool) {
	const bInBytes, sInBytes = 32, 64
	if len(dst) > 255 { // 5.3.3
		h := sha256.New()
		h.Write([]byte("H2C-OVERSIZE-DST-"))
		h.Write(dst)
		dst = h.Sum(nil)
	}
	ell := (lenInBytes + bInBytes - 1) / bInBytes // 1
	if ell > 255 || lenInBytes > 65535 || len(dst) > 255 {
		return nil, false // 2
	}
	dstPrime := append(append([]byte{}, dst...), byte(len(dst)))                     // 3
	zPad := make([]byte, sInBytes)                                                   // 4
	lib := []byte{byte(lenInBytes >> 8), byte(lenInBytes)}                           // 5
	msgPrime := append(append(append(append(zPad, msg...), lib...), 0), dstPrime...) // 6
	b0 := sha256.Sum256(msgPrime)                                                    // 7
	b := make([][]byte, ell+1)
	t := sha256.Sum256(append(append(append([]byte{}, b0[:]...), 1), dstPrime...)) // 8
	b[1] = t[:]
	for i := 2; i <= ell; i++ { // 9, 10
		x := make([]byte, bInBytes)
		for j := range x {
			x[j] = b0[j] ^ b[i-1][j]
		}
		t := sha256.Sum256(append(append(x, byte(i)), dstPrime...))
		b[i] = t[:]
	}
	var uniform []byte // 11
	for i := 1; i <= ell; i++ {
		uniform = append(uniform, b[i]...)
	}
	return uniform[:lenInBytes], true // 12
}

// HashToField is section 5.2 for m = 1, L = 48.
func HashToField(msg, dst []byte, count int) ([]*big.Int, bool) {
	const L = 48
	u, ok := ExpandMessageXMD(msg, dst, count*L)
	if !ok {
		return nil, false
	}
	out := make([]*big.Int, count)
	for i := 0; i < count; i++ {
		out[i] = ModP(OS2IP(u[L*i : L*(i+1)]))
	}
	return out, true
}

// ---- the 3-isogenous curve E': y^2 = x^3 + A'x + B' and the simplified SWU map (section 6.6.2) ----

var (
	IsoA = hx("3f8731abdd661adca08a5558f0f5d272e953d363cb6f0e5d405447c01a444533")
	IsoB = big.NewInt(1771)
	SwuZ = FpNeg(big.NewInt(11))
)

func inv0(x *big.Int) *big.Int { return FpInv(x) }

func sgn0(x *big.Int) uint { return ModP(x).Bit(0) }

func isoG(x *big.Int) *big.Int { // g(x) = x^3 + A'x + B'
	return FpAdd(FpAdd(FpMul(FpSqr(x), x), FpMul(IsoA, x)), IsoB)
}

// MapToCurveSimpleSWU is the section 6.6.2 procedure (with inversions, inv0 and
// is_square), NOT the straight-line appendix F.2 version the library uses.
func MapToCurveSimpleSWU(u *big.Int) (x, y *big.Int) {
	u = ModP(u)
	u2 := FpSqr(u)
	zu2 := FpMul(SwuZ, u2)
	tv1 := inv0(FpAdd(FpSqr(zu2), zu2)) // 1
	var x1 *big.Int
	negBoverA := FpMul(FpNeg(IsoB), FpInv(IsoA))
	if tv1.Sign() == 0 { // 3: exceptional case
		x1 = FpMul(IsoB, FpInv(FpMul(SwuZ, IsoA)))
	} else {
		x1 = FpMul(negBoverA, FpAdd(big.NewInt(1), tv1)) // 2
	}
	gx1 := isoG(x1)      // 4
	x2 := FpMul(zu2, x1) // 5
	gx2 := isoG(x2)      // 6
	if FpIsSquare(gx1) { // 7
		x = x1
		y, _ = FpSqrt(gx1)
	} else { // 8
		x = x2
		var ok bool
		y, ok = FpSqrt(gx2)
		if !ok {
			panic("ref: SWU: neither gx1 nor gx2 is a square")
		}
	}
	if sgn0(u) != sgn0(y) { // 9
		y = FpNeg(y)
	}
	return x, y
}

// isogeny constants, RFC 9380 appendix E.1 (validated in SelfTestH2C).
var isoK = [5][4]*big.Int{
	{},
	{hx("8e38e38e38e38e38e38e38e38e38e38e38e38e38e38e38e38e38e38daaaaa8c7"), hx("7d3d4c80bc321d5b9f315cea7fd44c5d595d2fc0bf63b92dfff1044f17c6581"),
		hx("534c328d23f234e6e2a413deca25caece4506144037c40314ecbd0b53d9dd262"), hx("8e38e38e38e38e38e38e38e38e38e38e38e38e38e38e38e38e38e38daaaaa88c")},
	{hx("d35771193d94918a9ca34ccbb7b640dd86cd409542f8487d9fe6b745781eb49b"), hx("edadc6f64383dc1df7c4b2d51b54225406d36b641f5e41bbc52a56612a8c6d14"), big.NewInt(1), nil},
	{hx("4bda12f684bda12f684bda12f684bda12f684bda12f684bda12f684b8e38e23c"), hx("c75e0c32d5cb7c0fa9d0a54b12a0a6d5647ab046d686da6fdffc90fc201d71a3"),
		hx("29a6194691f91a73715209ef6512e576722830a201be2018a765e85a9ecee931"), hx("2f684bda12f684bda12f684bda12f684bda12f684bda12f684bda12f38e38d84")},
	{hx("fffffffffffffffffffffffffffffffffffffffffffffffffffffffefffff93b"), hx("7a06534bb8bdb49fd5e9e6632722c2989467c1bfc8e8d978dfb425d2685c2573"),
		hx("6484aa716545ca2cf3a70c3fa8fe337e0a3d21162f0d6299a7bf8192bfd2a76f"), big.NewInt(1)},
}

func poly(k [4]*big.Int, x *big.Int) *big.Int {
	acc := big.NewInt(0)
	for i := 3; i >= 0; i-- {
		acc = FpMul(acc, x)
		if k[i] != nil {
			acc = FpAdd(acc, k[i])
		}
	}
	return acc
}

// IsoMap is the 3-isogeny E' -> E; a zero denominator maps to the identity.
func IsoMap(x, y *big.Int) Pt {
	xd, yd := poly(isoK[2], x), poly(isoK[4], x)
	if xd.Sign() == 0 || yd.Sign() == 0 {
		return Infinity()
	}
	return Pt{X: FpMul(poly(isoK[1], x), FpInv(xd)), Y: FpMul(y, FpMul(poly(isoK[3], x), FpInv(yd)))}
}

// IsoPole returns the x' values where the isogeny denominator vanishes (roots of x'^2 + k21 x' + k20), if any.
func IsoPoles() []*big.Int {
	// x_den = (x' + k21/2)^2 - (k21^2/4 - k20)
	half := FpInv(big.NewInt(2))
	h := FpMul(isoK[2][1], half)
	disc := FpSub(FpSqr(h), isoK[2][0])
	if disc.Sign() == 0 {
		return []*big.Int{FpNeg(h)}
	}
	r, ok := FpSqrt(disc)
	if !ok {
		return nil
	}
	return []*big.Int{FpSub(r, h), FpSub(FpNeg(r), h)}
}

// MapToCurve is map_to_curve for the secp256k1 suites: iso_map(SWU(u)).
func MapToCurve(u *big.Int) Pt {
	x, y := MapToCurveSimpleSWU(u)
	return IsoMap(x, y)
}

// HashToCurveRO / EncodeToCurveNU are the two suites.
func HashToCurveRO(dst, msg []byte) (Pt, bool) {
	u, ok := HashToField(msg, dst, 2)
	if !ok {
		return Pt{}, false
	}
	return MapToCurve(u[0]).Add(MapToCurve(u[1])), true
}

func EncodeToCurveNU(dst, msg []byte) (Pt, bool) {
	u, ok := HashToField(msg, dst, 1)
	if !ok {
		return Pt{}, false
	}
	return MapToCurve(u[0]), true
}

// ---- arithmetic on E' (only for validating the isogeny constants) ----

func isoOnCurve(x, y *big.Int) bool { return FpSqr(y).Cmp(isoG(x)) == 0 }

type isoPt struct {
	x, y *big.Int
	inf  bool
}

func isoAdd(p, q isoPt) isoPt {
	if p.inf {
		return q
	}
	if q.inf {
		return p
	}
	var l *big.Int
	if p.x.Cmp(q.x) == 0 {
		if p.y.Cmp(q.y) != 0 || p.y.Sign() == 0 {
			return isoPt{inf: true}
		}
		l = FpMul(FpAdd(FpMul(big.NewInt(3), FpSqr(p.x)), IsoA), FpInv(FpMul(big.NewInt(2), p.y)))
	} else {
		l = FpMul(FpSub(q.y, p.y), FpInv(FpSub(q.x, p.x)))
	}
	x3 := FpSub(FpSub(FpSqr(l), p.x), q.x)
	return isoPt{x: x3, y: FpSub(FpMul(l, FpSub(p.x, x3)), p.y)}
}

// SelfTestH2C validates the SWU transcription and proves the isogeny constants
// adequate: images are on E, the map is additive, (the RFC vectors, checked by
// the vector self-test, pin the choice among automorphism twists).
func SelfTestH2C() error {
	var pts []isoPt
	for i := int64(0); i < 40; i++ {
		x, y := MapToCurveSimpleSWU(big.NewInt(i))
		if !isoOnCurve(x, y) {
			return fmt.Errorf("SWU(%d) not on E'", i)
		}
		if i > 0 && sgn0(y) != uint(i&1) {
			return fmt.Errorf("SWU(%d) sign rule", i)
		}
		q := IsoMap(x, y)
		if !q.OnCurve() {
			return fmt.Errorf("iso_map(SWU(%d)) not on E", i)
		}
		pts = append(pts, isoPt{x: x, y: y})
	}
	n := 0
	for i := 0; i < len(pts) && n < 40; i++ {
		for j := i; j < len(pts) && n < 40; j += 7 {
			s := isoAdd(pts[i], pts[j])
			var lhs Pt
			if s.inf {
				lhs = Infinity()
			} else {
				if !isoOnCurve(s.x, s.y) {
					return errors.New("E' addition left the curve")
				}
				lhs = IsoMap(s.x, s.y)
			}
			rhs := IsoMap(pts[i].x, pts[i].y).Add(IsoMap(pts[j].x, pts[j].y))
			if !lhs.Equal(rhs) {
				return fmt.Errorf("isogeny not additive on pair %d,%d", i, j)
			}
			n++
		}
	}
	// exceptional u exists: u^2 = 1/11 ... tv1 = 0
	if r, ok := FpSqrt(FpInv(big.NewInt(11))); ok {
		x, y := MapToCurveSimpleSWU(r)
		if !isoOnCurve(x, y) {
			return errors.New("SWU(exceptional u) not on E'")
		}
		zu2 := FpMul(SwuZ, FpSqr(r))
		if FpAdd(FpSqr(zu2), zu2).Sign() != 0 {
			return errors.New("exceptional u does not make the denominator vanish")
		}
	} else {
		return errors.New("1/11 is not a square: no exceptional u")
	}
	return nil
}
