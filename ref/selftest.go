package ref

// SelfTestAll runs every self-test of the reference model.
func SelfTestAll() error {
	for _, f := range selfTests {
		if err := f(); err != nil {
			return err
		}
	}
	return nil
}

var selfTests = []func() error{SelfTestCurve, SelfTestH2C, SelfTestVectors}
