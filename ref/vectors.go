package ref

import (
	"bytes"
	"crypto/sha256"
	"encoding/csv"
	"encoding/hex"
	"encoding/json"
	"fmt"
	"math/big"
	"os"
	"path/filepath"
	"strings"
)

// TestdataDir holds copies of the standard vector files (taken once from the
// pinned tree); they validate the REFERENCE MODEL only.
var TestdataDir = "/verif/testdata"

func unhex(s string) []byte {
	s = strings.TrimPrefix(s, "0x")
	if len(s)%2 == 1 {
		s = "0" + s
	}
	b, err := hex.DecodeString(s)
	if err != nil {
		panic("ref: bad hex in vector: " + s)
	}
	return b
}

func readJSON(name string, v any) error {
	b, err := os.ReadFile(filepath.Join(TestdataDir, name))
	if err != nil {
		return err
	}
	return json.Unmarshal(b, v)
}

// SelfTestVectors reproduces the standard vectors with the reference alone.
func SelfTestVectors() error {
	for _, f := range []func() error{vecWycheproofECDSA, vecWycheproofECDH, vecRFC6979, vecBIP340, vecBIP66, vecH2C, vecXMD} {
		if err := f(); err != nil {
			return err
		}
	}
	return nil
}

func vecWycheproofECDSA() error {
	var d struct {
		TestGroups []struct {
			PublicKey struct{ Wx, Wy string }
			Tests     []struct {
				TcID             int
				Msg, Sig, Result string
			}
		}
	}
	if err := readJSON("ecdsa_secp256k1_sha256_test.json", &d); err != nil {
		return err
	}
	n := 0
	for _, g := range d.TestGroups {
		q := Pt{X: OS2IP(unhex(g.PublicKey.Wx)), Y: OS2IP(unhex(g.PublicKey.Wy))}
		if !q.OnCurve() {
			return fmt.Errorf("wycheproof ecdsa: key not on curve")
		}
		for _, t := range g.Tests {
			dg := sha256.Sum256(unhex(t.Msg))
			r, s, ok := DERParseSig(unhex(t.Sig))
			got := ok && ECDSAVerify(q, dg[:], r, s)
			if got != (t.Result == "valid") {
				return fmt.Errorf("wycheproof ecdsa tcId %d: reference says %v, vector says %s", t.TcID, got, t.Result)
			}
			n++
		}
	}
	if n < 400 {
		return fmt.Errorf("wycheproof ecdsa: only %d vectors", n)
	}
	return nil
}

func vecWycheproofECDH() error {
	var d struct {
		TestGroups []struct {
			Tests []struct {
				TcID                            int
				Public, Private, Shared, Result string
				Flags                           []string
			}
		}
	}
	if err := readJSON("ecdh_secp256k1_test.json", &d); err != nil {
		return err
	}
	n := 0
	for _, g := range d.TestGroups {
		for _, t := range g.Tests {
			pt, ok := SPKIParse(unhex(t.Public))
			switch t.Result {
			case "valid":
				if !ok {
					return fmt.Errorf("wycheproof ecdh tcId %d: reference rejects a valid key", t.TcID)
				}
				sh := pt.Mul(OS2IP(unhex(t.Private)))
				if sh.Inf || !bytes.Equal(B32(sh.X), unhex(t.Shared)) {
					return fmt.Errorf("wycheproof ecdh tcId %d: shared secret mismatch", t.TcID)
				}
				n++
			case "invalid":
				if ok {
					return fmt.Errorf("wycheproof ecdh tcId %d: reference accepts an invalid key", t.TcID)
				}
				n++
			}
		}
	}
	if n < 400 {
		return fmt.Errorf("wycheproof ecdh: only %d vectors", n)
	}
	return nil
}

func vecRFC6979() error {
	f, err := os.Open(filepath.Join(TestdataDir, "secp256k1_rfc6979_sha256.csv"))
	if err != nil {
		return err
	}
	defer f.Close()
	rd := csv.NewReader(f)
	rd.Comment = '#'
	recs, err := rd.ReadAll()
	if err != nil {
		return err
	}
	for i, v := range recs {
		x, ok := new(big.Int).SetString(v[0], 10)
		if !ok {
			return fmt.Errorf("rfc6979 vector %d: bad key", i)
		}
		dg := sha256.Sum256([]byte(v[1]))
		r, s, _ := ECDSASignRFC6979(x, dg[:])
		if got := strings.ToUpper(hex.EncodeToString(DERBuildSig(r, s))); got != v[2] {
			return fmt.Errorf("rfc6979 vector %d: reference %s, vector %s", i, got, v[2])
		}
	}
	if len(recs) < 15 {
		return fmt.Errorf("rfc6979: only %d vectors", len(recs))
	}
	return nil
}

func vecBIP340() error {
	f, err := os.Open(filepath.Join(TestdataDir, "bip-0340-test-vectors.csv"))
	if err != nil {
		return err
	}
	defer f.Close()
	recs, err := csv.NewReader(f).ReadAll()
	if err != nil {
		return err
	}
	for _, v := range recs[1:] {
		sk, pk, aux, msg, sig, res := v[1], unhex(v[2]), unhex(v[3]), unhex(v[4]), unhex(v[5]), v[6] == "TRUE"
		if sk != "" {
			d := OS2IP(unhex(sk))
			got, ok := BIP340Sign(d, aux, msg)
			if !ok || !bytes.Equal(got, sig) {
				return fmt.Errorf("bip340 vector %s: reference signature differs", v[0])
			}
			if !bytes.Equal(BIP340PubKey(d), pk) {
				return fmt.Errorf("bip340 vector %s: reference public key differs", v[0])
			}
		}
		if BIP340Verify(pk, msg, sig) != res {
			return fmt.Errorf("bip340 vector %s: reference verify = %v, vector %v", v[0], !res, res)
		}
	}
	if len(recs) < 16 {
		return fmt.Errorf("bip340: only %d vectors", len(recs))
	}
	return nil
}

func vecBIP66() error {
	var d struct {
		Valid   []struct{ DER, R, S string }
		Invalid struct {
			Decode []struct{ Exception, DER string }
		}
	}
	if err := readJSON("bip-0066-test-vectors.json", &d); err != nil {
		return err
	}
	for i, v := range d.Valid {
		b := append(unhex(v.DER), 0x45)
		if !BIP66Valid(b) {
			return fmt.Errorf("bip66 valid vector %d rejected by the reference", i)
		}
	}
	for i, v := range d.Invalid.Decode {
		b := append(unhex(v.DER), 0x45)
		if BIP66Valid(b) {
			return fmt.Errorf("bip66 invalid vector %d (%s) accepted by the reference", i, v.Exception)
		}
	}
	if len(d.Valid)+len(d.Invalid.Decode) < 20 {
		return fmt.Errorf("bip66: too few vectors")
	}
	return nil
}

func vecH2C() error {
	for _, name := range []string{"secp256k1_XMD_SHA-256_SSWU_RO_.json", "secp256k1_XMD_SHA-256_SSWU_NU_.json"} {
		var d struct {
			Dst          string
			RandomOracle bool
			Vectors      []struct {
				P, Q0, Q1, Q struct{ X, Y string }
				Msg          string
				U            []string
			}
		}
		if err := readJSON(name, &d); err != nil {
			return err
		}
		for i, v := range d.Vectors {
			var got Pt
			var ok bool
			cnt := 1
			if d.RandomOracle {
				got, ok = HashToCurveRO([]byte(d.Dst), []byte(v.Msg))
				cnt = 2
			} else {
				got, ok = EncodeToCurveNU([]byte(d.Dst), []byte(v.Msg))
			}
			want := Pt{X: OS2IP(unhex(v.P.X)), Y: OS2IP(unhex(v.P.Y))}
			if !ok || !got.Equal(want) {
				return fmt.Errorf("%s vector %d: reference point %v, vector %v", name, i, got, want)
			}
			us, _ := HashToField([]byte(v.Msg), []byte(d.Dst), cnt)
			for j := range us {
				if us[j].Cmp(OS2IP(unhex(v.U[j]))) != 0 {
					return fmt.Errorf("%s vector %d: u[%d] differs", name, i, j)
				}
			}
			if d.RandomOracle {
				q0 := MapToCurve(us[0])
				if q0.X.Cmp(OS2IP(unhex(v.Q0.X))) != 0 || q0.Y.Cmp(OS2IP(unhex(v.Q0.Y))) != 0 {
					return fmt.Errorf("%s vector %d: Q0 differs", name, i)
				}
			}
		}
		if len(d.Vectors) < 5 {
			return fmt.Errorf("%s: too few vectors", name)
		}
	}
	return nil
}

func vecXMD() error {
	for _, name := range []string{"expand_message_xmd_SHA256_38.json", "expand_message_xmd_SHA256_256.json"} {
		var d struct {
			DST   string
			Tests []struct {
				Msg           string
				Len_in_bytes  string
				Uniform_bytes string
			}
		}
		if err := readJSON(name, &d); err != nil {
			return err
		}
		for i, t := range d.Tests {
			l := int(OS2IP(unhex(t.Len_in_bytes)).Int64())
			got, ok := ExpandMessageXMD([]byte(t.Msg), []byte(d.DST), l)
			if !ok || !bytes.Equal(got, unhex(t.Uniform_bytes)) {
				return fmt.Errorf("%s test %d: reference output differs", name, i)
			}
		}
		if len(d.Tests) < 5 {
			return fmt.Errorf("%s: too few tests", name)
		}
	}
	return nil
}
