#!/bin/bash
# Builds the framework from files on disk only (offline) and warms the build cache.
export GOFLAGS=-mod=mod GOPROXY=off GOSUMDB=off GOTOOLCHAIN=local
cd /verif || exit 1
mkdir -p bin evidence replays .work
go build -o bin/vdriver ./cmd/vdriver || exit 1
go build ./mc ./ref ./instr || exit 1
# warm the caches used by the checks (std lib for default, purego and race builds)
(cd /repo && go build ./... && go build -tags purego ./... && go build -race ./... ) >/dev/null 2>&1
go run ./cmd/selftest || exit 1
echo setup ok
