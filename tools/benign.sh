#!/bin/bash
# tools/benign.sh <dir-with-N/patch.diff> <ID>... : runs the quick checks against behaviour-preserving refactors;
# prints only alarms (rc=1) and infrastructure failures (rc=2)
D=$1; shift
for n in 1 2 3; do
  [ -f $D/$n/patch.diff ] || continue
  out=$(/verif/tools/mutcheck.sh $D/$n/patch.diff "$@" 2>&1 | grep "^==\|patch does not apply")
  echo "$out" | grep -v "rc=0" | sed "s|^|$D/$n: |"
  echo "$D/$n: $(echo "$out" | grep -c 'rc=0') checks silent"
done
