#!/usr/bin/env python3
"""benignmatrix.py [dir ...]: applies every behaviour-preserving refactor (seeded/benign*/<name>/patch.diff) to /repo,
runs the quick check of its own property plus the checks related to the files it touches, restores /repo, and
reports every alarm (exit 1 / VIOLATION) or infrastructure failure (exit 2). Nothing may be reported."""
import glob, os, re, subprocess, sys
REL = [(r'internal/field|internal/fiat/secp256k1montgomery/', ['C01', 'C03', 'C06', 'C15']), (r'scalar|montgomeryscalar', ['C02', 'C04']),
       (r'internal/helpers', ['C01', 'C02', 'C19']), (r'^point\.go|point_s11n', ['C03', 'C06', 'C18', 'C11']),
       (r'point_mul', ['C04', 'C05', 'C16', 'C17', 'C19', 'C07']), (r'point_mul_table_amd64|gen_table', ['C19', 'C17']),
       (r'secec/ecdsa', ['C07', 'C08', 'C09', 'C11']), (r'secec/s11n|asn1', ['C12', 'C07']), (r'secec/secec', ['C10', 'C18']),
       (r'bitcoin/schnorr', ['C13', 'C14']), (r'h2c|swu', ['C15']), (r'.', ['C18', 'C20'])]
def sh(c, cwd=None):
    p = subprocess.run(c, shell=True, cwd=cwd, capture_output=True, text=True)
    return p.returncode, p.stdout + p.stderr
dirs = [os.path.abspath(d) for d in sys.argv[1:]] or sorted(glob.glob('/verif/seeded/benign*/C*-*'))
bad = 0
for d in dirs:
    patch = os.path.join(d, 'patch.diff')
    if not os.path.exists(patch): continue
    files = re.findall(r'^\+\+\+ b/(\S+)', open(patch).read(), re.M)
    checks = [os.path.basename(d).split('-')[0]]
    for rx, cs in REL:
        if any(re.search(rx, f) for f in files):
            checks += [c for c in cs if c not in checks]
    rc, out = sh('git status --porcelain', '/repo')
    if out.strip(): print('/repo not clean'); sys.exit(2)
    rc, out = sh(f'git apply {patch}', '/repo')
    if rc: print(d, 'patch does not apply'); continue
    res = []
    try:
        for c in checks:
            rc, out = sh(f'./check {c} quick', '/verif')
            if rc != 0 or 'VIOLATION' in out:
                bad += 1
                res.append(f'{c}: rc={rc} ' + ' | '.join(l for l in out.splitlines() if 'VIOLATION' in l or 'dropped' in l or 'failed' in l)[:300])
    finally:
        sh('git checkout -- . && git clean -fdq', '/repo')
    sh("find /verif/replays -name 'C*.json' -newer %s -delete" % patch)
    print(os.path.relpath(d, '/verif/seeded'), 'checks', ','.join(checks), '->', 'silent' if not res else 'ALARM ' + '; '.join(res), flush=True)
print('alarms/failures:', bad)
