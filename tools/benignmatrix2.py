#!/usr/bin/env python3
"""benignmatrix2.py [-j K] [-only C03,C06,...] [dir ...]: like benignmatrix.py but on scratch worktrees of /repo
(/tmp/wt/B<k>, development aid VERIF_REPO / VERIF_OUT), K in parallel; /repo is never touched. Applies every
behaviour-preserving refactor (seeded/benign*/<name>/patch.diff), runs the quick check of its own property plus the
checks related to the files it touches (restricted to -only when given) and reports every alarm (exit 1 / VIOLATION)
or infrastructure failure (exit 2). Nothing may be reported."""
import glob, os, re, subprocess, sys, threading, queue
REL = [(r'internal/field|internal/fiat/secp256k1montgomery/', ['C01', 'C03', 'C06', 'C15']), (r'scalar|montgomeryscalar', ['C02', 'C04']),
       (r'internal/helpers', ['C01', 'C02', 'C19']), (r'^point\.go|point_s11n', ['C03', 'C06', 'C18', 'C11']),
       (r'point_mul', ['C04', 'C05', 'C16', 'C17', 'C19', 'C07']), (r'point_mul_table_amd64|gen_table', ['C19', 'C17']),
       (r'secec/ecdsa', ['C07', 'C08', 'C09', 'C11']), (r'secec/s11n|asn1', ['C12', 'C07']), (r'secec/secec', ['C10', 'C18']),
       (r'bitcoin/schnorr', ['C13', 'C14']), (r'h2c|swu', ['C15']), (r'.', ['C18', 'C20'])]
def sh(c, cwd=None, env=None):
    p = subprocess.run(c, shell=True, cwd=cwd, env=env, capture_output=True, text=True)
    return p.returncode, p.stdout + p.stderr
args = sys.argv[1:]
K, only = 2, None
while args and args[0] in ('-j', '-only'):
    if args[0] == '-j': K = int(args[1])
    else: only = set(args[1].split(','))
    args = args[2:]
dirs = [os.path.abspath(d) for d in args] or sorted(glob.glob('/verif/seeded/benign*/C*-*'))
q = queue.Queue()
for d in dirs: q.put(d)
bad, lock = [0], threading.Lock()
def worker(k):
    wt, out = f'/tmp/wt/B{k}', f'/tmp/wtm/B{k}'
    if not os.path.isdir(wt): sh(f'git -C /repo worktree add --detach {wt} HEAD')
    env = dict(os.environ, VERIF_REPO=wt, VERIF_OUT=out)
    while True:
        try: d = q.get_nowait()
        except queue.Empty: return
        patch = os.path.join(d, 'patch.diff')
        if not os.path.exists(patch): continue
        files = re.findall(r'^\+\+\+ b/(\S+)', open(patch).read(), re.M)
        checks = [os.path.basename(d).split('-')[0]]
        for rx, cs in REL:
            if any(re.search(rx, f) for f in files):
                checks += [c for c in cs if c not in checks]
        if only: checks = [c for c in checks if c in only]
        sh('git checkout -- . && git clean -fdq', wt)
        rc, o = sh(f'git apply {patch}', wt)
        if rc:
            print(d, 'patch does not apply', flush=True); continue
        res = []
        for c in checks:
            rc, o = sh(f'./check {c} quick', '/verif', env)
            if rc != 0 or 'VIOLATION' in o:
                with lock: bad[0] += 1
                res.append(f'{c}: rc={rc} ' + ' | '.join(l for l in o.splitlines() if 'VIOLATION' in l or 'dropped' in l or 'failed' in l)[:300])
        sh('git checkout -- . && git clean -fdq', wt)
        print(os.path.relpath(d, '/verif/seeded'), 'checks', ','.join(checks), '->', 'silent' if not res else 'ALARM ' + '; '.join(res), flush=True)
ts = [threading.Thread(target=worker, args=(k + 1,)) for k in range(K)]
for t in ts: t.start()
for t in ts: t.join()
print('alarms/failures:', bad[0])
