#!/usr/bin/env python3
"""confirm_seed.py <ID> <A|B|...>: independently confirms a seeded defect produced by a sub-agent
(/tmp/wtout/<ID>/<V>/{patch.diff,demo_test.go|demo/main.go,notes.md}) in the scratch worktree /tmp/wt/<ID>:
 (1) patch applies and the tree builds, (2) the repository's own test suite passes with it (default and purego),
 (3) the demonstration fails with it, (4) the demonstration passes without it.
On success copies it to /verif/seeded/<ID>-<V>/ with meta.json. The worktree is always left clean."""
import json, os, re, shutil, subprocess, sys

ENV = dict(os.environ, GOFLAGS="-mod=mod", GOPROXY="off", GOSUMDB="off", GOTOOLCHAIN="local")
PKGDIR = {"secp256k1": ".", "secp256k1_test": ".", "secec": "secec", "secec_test": "secec", "bitcoin": "secec/bitcoin",
          "bitcoin_test": "secec/bitcoin", "h2c": "secec/h2c", "h2c_test": "secec/h2c", "field": "internal/field",
          "field_test": "internal/field", "swu": "internal/swu", "swu_test": "internal/swu", "helpers": "internal/helpers"}

def sh(cmd, cwd, timeout=900):
    p = subprocess.run(cmd, shell=True, cwd=cwd, env=ENV, capture_output=True, text=True, timeout=timeout)
    return p.returncode, (p.stdout + p.stderr)[-3000:]

def main():
    pid, var = sys.argv[1], sys.argv[2]
    wt, src = f"/tmp/wt/{pid}", os.environ.get("SEED_SRC", "/tmp/wtout") + f"/{pid}/{var}"
    tag = os.environ.get("SEED_TAG", "")
    res = {"property": pid, "variant": var}
    def clean():
        sh("git checkout -- . && git clean -fdq", wt)
    clean()
    demos = [f for f in os.listdir(src) if f.endswith("_test.go")]
    prog = os.path.isdir(os.path.join(src, "demo"))
    if not demos and not prog:
        print("no demonstration found"); return 1
    demo_cmds = []
    def place():
        placed = []
        for d in demos:
            txt = open(os.path.join(src, d)).read()
            m = re.search(r"^package\s+(\w+)", txt, re.M)
            pkg = m.group(1)
            # notes may name the directory explicitly
            ddir = PKGDIR.get(pkg, ".")
            dst = os.path.join(wt, ddir, "zz_" + d)
            shutil.copy(os.path.join(src, d), dst)
            placed.append(dst)
            tags = " -tags purego" if re.search(r"go:build.*purego", txt) and "!purego" not in txt else ""
            notes_l = open(os.path.join(src, "notes.md")).read().lower()
            # -race only when the notes ask for it (some demonstrations run for many minutes under the detector)
            race = " -race" if pid == "C20" and "race" in notes_l and not re.search(r"(no|not need|without|needs no|does not need) `?-race", notes_l) else ""
            demo_cmds.append((f"go test -vet=off -count=1{tags}{race} -run 'Demo' ./{ddir}", wt))
        if prog:
            shutil.copytree(os.path.join(src, "demo"), os.path.join(wt, "zz_demo"))
            placed.append(os.path.join(wt, "zz_demo"))
            demo_cmds.append(("go run ./zz_demo", wt))
        return placed
    def run_demo():
        out = []
        rc_all = 0
        for c, cwd in demo_cmds:
            rc, o = sh(c, cwd)
            out.append(o[-1200:])
            rc_all |= (rc != 0)
        return rc_all, "\n".join(out)
    # (4) demo passes without the change
    demo_cmds.clear(); place()
    rc, o = run_demo()
    res["demo_without_change"] = "pass" if rc == 0 else "FAIL"
    res["demo_cmds"] = [c for c, _ in demo_cmds]
    if rc != 0:
        res["demo_without_output"] = o
    clean()
    # apply
    rc, o = sh(f"git apply {src}/patch.diff", wt)
    if rc != 0:
        res["apply"] = "FAIL: " + o; clean(); print(json.dumps(res, indent=1)); return 1
    res["apply"] = "ok"
    rc, o = sh("go build ./... && go vet ./... >/dev/null 2>&1; go build ./...", wt)
    res["build"] = "ok" if rc == 0 else "FAIL: " + o
    rc1, o1 = sh("go test -vet=off -count=1 ./...", wt)
    rc2, o2 = sh("go test -vet=off -count=1 -tags purego ./...", wt)
    res["suite_default"] = "pass" if rc1 == 0 else "FAIL"
    res["suite_purego"] = "pass" if rc2 == 0 else "FAIL"
    if rc1: res["suite_output"] = o1
    if rc2: res["suite_purego_output"] = o2
    demo_cmds.clear(); place()
    fails = 0
    last = ""
    for i in range(3 if pid == "C20" else 1):
        rc, o = run_demo()
        fails += (rc != 0); last = o
    res["demo_with_change"] = "fail (as intended)" if fails else "PASSES (not a demonstration)"
    res["demo_with_change_tail"] = last[-600:]
    clean()
    ok = res["apply"] == "ok" and res["build"] == "ok" and res["suite_default"] == "pass" and res["demo_without_change"] == "pass" and fails > 0
    res["confirmed"] = bool(ok)
    print(json.dumps({k: v for k, v in res.items() if k != "demo_with_change_tail"}, indent=1))
    if ok:
        dst = f"/verif/seeded/{pid}-{tag}{var}"
        shutil.rmtree(dst, ignore_errors=True)
        os.makedirs(dst)
        for f in os.listdir(src):
            if f.endswith(".log"):
                continue
            if os.path.isdir(os.path.join(src, f)):
                shutil.copytree(os.path.join(src, f), os.path.join(dst, f))
            else:
                shutil.copy(os.path.join(src, f), dst)
        notes = open(os.path.join(src, "notes.md")).read()
        meta = {"property": pid, "variant": var, "breaks": pid, "source": "independent sub-agent given only the property text and a scratch worktree",
                "needs_to_manifest": "see notes.md", "confirmed_by": "tools/confirm_seed.py in scratch worktree " + wt,
                "ran": {"apply": "git apply patch.diff", "suite": "go test -vet=off -count=1 ./... (default and -tags purego)", "demo": res["demo_cmds"]},
                "results": {k: res[k] for k in ("apply", "build", "suite_default", "suite_purego", "demo_without_change", "demo_with_change")},
                "detected_by": []}
        json.dump(meta, open(os.path.join(dst, "meta.json"), "w"), indent=1)
    return 0 if ok else 1

sys.exit(main())
