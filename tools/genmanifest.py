#!/usr/bin/env python3
"""Regenerates /verif/MANIFEST.json from the table below (kept in one place so it stays valid)."""
import json, os

BASELINE = json.load(open('/root/.vp/BASELINE.json'))['cmd']

CHECKS = {
 # id: (technique, level text, level_note, design_ref)
 "C01": ("explicit-state exploration of field operations (alphabet x alias partitions x closure depth 2, exhaustive 2^33 boundary encodings) against a math/big model",
         "Exhaustive small-scope model checking: every field operation on every ordered pair of a code-derived 460-value alphabet (plus operand pairs steered onto the conditional-subtraction windows), under every receiver/argument alias partition, closed under a second step; thorough tier enumerates all 2^32+977 non-canonical encodings and partners; every length 32..64 of wide reduction. Each transition runs on the real code in lock-step with the reference.",
         "Trusted: Go toolchain, math/big, /verif/ref (self-tested). Values outside the alphabet are covered only by structural equivalence (same carry/borrow/limb pattern).", "DESIGN.md §6 C01"),
 "C02": ("explicit-state exploration of scalar operations (alphabet x alias partitions x closure depth 2, all Sum/Product vectors of length 0..4 with every pointer pattern, non-canonical bands) against a math/big model",
         "Exhaustive small-scope model checking: every Scalar operation on every ordered pair of a code-derived ~480-value alphabet (incl. operand pairs steered so that the unreduced sum/difference/Montgomery product lands in [n,2^256)), under every receiver/argument alias partition, closed under a second step; Sum/Product for every vector length 0..4 over 7 values with every repeated-pointer pattern and receiver placement; decoders on bands at both ends of [n,2^256) and all Hamming-weight<=2 offsets with receiver-unchanged checks through the limb hook; half-order boundary and the halfNSat constant.",
         "Trusted: Go toolchain, math/big, /verif/ref. The 2^128-sized non-canonical window cannot be exhausted (bands + structured values; stated in evidence).", "DESIGN.md §6 C02"),
 "C03": ("explicit-state search over (abstract point, projective representative) states: all ordered pairs x group operations x alias partitions, representation drift to depth 2, against affine chord-and-tangent arithmetic",
         "Explicit-state exploration: states are exact projective representatives (several Z per abstract point, built through the unchecked-constructor hook, plus representatives that arise from Add/Subtract/Double chains); every ordered pair of states is put through Add, Subtract, ConditionalSelect and the raw addComplete/addMixed formulas under all 5 alias partitions, every state through Double/Negate/Set/ConditionalNegate/rescale; each result is validated from raw coordinates (on curve, not (0,0,0), identity shape), compared with the affine reference sum, and all observers (Equal both ways, IsIdentity, IsYOdd, three encodings) are required to depend on the abstract value only. Exceptional relations (inf, P=Q, P=-Q, same-y endomorphism images) are populated classes.",
         "Trusted: Go toolchain, math/big, /verif/ref affine arithmetic. Completeness of the formulas for field values outside the alphabet is a theorem (Renes-Costello-Batina), not enumerated; drift capped per abstract point (cap reported).", "DESIGN.md §6 C03"),
 "C06": ("skeleton x bounded-deviation enumeration of byte strings (every length 0..66, all 256 prefixes, +p aliases, 1 deviation = every position x all 256 values) through every decoder with every receiver kind; RecoverPoint x all 256 ids; against a SEC 1 reference codec",
         "Bounded exhaustive input-space exploration: every enumerated string is decoded by SetBytes / SetCompressedBytes / SetUncompressedBytes / NewPointFromBytes with four kinds of pre-loaded receiver (zero value, G, identity, Z != 1); accept/reject, decoded point, bit-identical receiver on failure (limb hook), decode-then-encode and encode-then-decode identities and per-(point,format) uniqueness of the accepted string are checked against the reference. NewPointFromCoords over a coordinate pool incl. values >= p; RecoverPoint for every id 0..255 over r values on both sides of the x+n<p boundary.",
         "Trusted: Go toolchain, math/big, /verif/ref SEC 1 codec (validated on Wycheproof keys). Strings are a structured corpus, not all 256^66.", "DESIGN.md §6 C06"),
 "C12": ("grammar skeletons x bounded deviations (1: every position x all 256 values; 2: grammar alphabet; truncate/extend/insert/delete; all short strings) through every parser, against strict recognisers written from X.690 / BIP-66 / RFC 5480; build/parse identities",
         "Bounded exhaustive exploration of the four wire formats: ~11 M distinct strings per quick run are parsed by the implementation (inside recover()) and by recursive-descent recognisers of the grammars; accepted inputs must re-encode to themselves (uniqueness), (r,s,v) triples must survive build-then-parse in all three formats, SPKI inputs include every unused-bits value with shifted content, foreign OIDs, non-minimal arcs and a SEC 1 payload corpus; a caller-mutation step after parsing checks the key does not alias the input.",
         "Trusted: Go toolchain, /verif/ref/der.go recognisers (validated on the Wycheproof and BIP-66 vectors). The space of all byte strings is covered by skeleton+deviation structure up to 2 deviations.", "DESIGN.md §6 C12"),
 "C07": ("product enumeration of constructed (Q,digest,r,s) tuples (reference-signed, chosen R via key recovery incl. x(R)>=n, R=infinity, deviations by one, r/s at 0/n, digest lengths 0..65) x entry points x 3 encodings x 15 option sets x recovery ids 0..255, against literal SEC 1 4.1.4",
         "Bounded exhaustive exploration of the verification predicate: every tuple is built so that it sits on a decision boundary, then pushed through VerifyRaw, the private-key verification path (hook), Verify under every option set / encoding (recoverable format with every id 0..255 on valid tuples) and bitcoin.VerifyASN1 with five sighash shapes; each boolean is compared with the reference predicate (strict parse + digest-length rule + low-s + 4.1.4 + recovery reconstructs Q). Both 'nothing else accepted' and 'nothing valid rejected' are checked because valid-by-construction tuples are a populated class.",
         "Trusted: Go toolchain, math/big, /verif/ref (ECDSA, DER/compact/BIP-66 recognisers; validated on Wycheproof). (r,s) pairs are a constructed alphabet, not [0,2^256)^2.", "DESIGN.md §6 C07"),
 "C08": ("enumeration of (key, digest, reader script, option set) tuples; every produced signature judged by the reference verifier, parsers, recovery over all ids 0..255, SelfVerify toggling and Sign/SignRaw agreement; deterministic search for short-integer signatures",
         "Bounded exhaustive exploration of the signing API: 12+ keys (1, n-1, both public-y parities) x 13 digests (boundary values, every admissible / inadmissible length class) x 6 reader scripts (constant, counter, 1-byte delivery, split, RFC 6979) x 15 option sets; outputs must satisfy 1<=r<n, 1<=s<=(n-1)/2, verify under the reference with d*G and under Verify in all encodings, parse back to the same (r,s,v), recover exactly the signer for exactly the emitted id among 0..255, be unchanged by SelfVerify, and inadmissible inputs must error with no signature.",
         "Trusted: /verif/ref. Recovery-id bit 1 = 1 on the producer side is unreachable (needs a discrete log); stated in evidence.", "DESIGN.md §6 C08"),
 "C11": ("enumeration of (digest, r, s) triples x all recovery ids 0..255 (valid / overflowing second candidates, non-x-coordinates, constructed sR = eG, reference-signed) against SEC 1 4.1.6 with explicit id; every returned key re-verified",
         "Bounded exhaustive exploration of RecoverPublicKey: for each triple all 256 ids are tried; error-vs-key and the key itself must equal the reference Q = r^-1(sR - eG); every returned key must verify (r,s) under the reference and under VerifyRaw / recoverable Verify; Q = infinity and ids > 3 must fail.",
         "Trusted: /verif/ref.", "DESIGN.md §6 C11"),
 "C09": ("exhaustive enumeration of all candidate streams to the rejection sampler (131k streams up to the retry limit), RFC 6979 generator read counts 1..8, and hedged-nonce signing under every reader delivery mode and every fault position 0..32, with pairwise r-collision analysis",
         "Three small state machines explored completely within their bounds: (a) the sampler on every stream 'j rejects then accept' (j=0..7) and every all-reject stream over a 7-value candidate alphabet, result = exactly the first in-range candidate, bytes consumed = 32 x candidates examined, plus delivery/fault scripts; (b) the RFC 6979 generator for 1..8 reads per (key, digest) and end-to-end deterministic signatures, byte-exact; (c) the hedged nonce via SignRaw: determinism, exactly 32 entropy bytes, 36 delivery modes equivalent, error+nil for a fault after every j<32, and over all pairs of triples r collides iff (key, entropy, e) coincide.",
         "Trusted: /verif/ref RFC 6979 (20 published vectors). The hedged construction is not pinned by the property; injectivity is decided on the enumerated triples only.", "DESIGN.md §6 C09"),
 "C10": ("enumeration of all ordered key pairs over a scalar alphabet x 6 import formats (ECDH both directions vs x((ab)G)); every private-key candidate length/boundary; SEC 1 public-key corpus incl. other-curve points in all formats; accessor/cached-encoding consistency; caller-mutation history steps",
         "Bounded exhaustive exploration of the key API: 18^2 ordered pairs, both directions, keys imported as uncompressed / compressed / SPKI / projective points; NewPrivateKey on every length 0..34 and {0,1,n-1,n,n+1,2^256-1}; NewPublicKey / ParseASN1PublicKey / NewPublicKeyFromPoint accept iff the reference says valid non-identity point (twist and other-curve points included); every accessor and the hidden point/bytes (field-access hook) equal the reference encodings; after the caller mutates every returned value, wipes import buffers and derives Schnorr keys, all observations are unchanged.",
         "Trusted: /verif/ref.", "DESIGN.md §6 C10"),
 "C13": ("enumeration of keys x message lengths x constructed signatures (valid, odd-y R, infinite R via s=e*d, r/s at p/n boundaries, deviations by one, every signature length 0..130) through keys built by four constructors, against the BIP-340 Verify pseudo-code",
         "Bounded exhaustive exploration of Schnorr verification and x-only key import: every case is decided by a literal transcription of BIP-340 Verify; keys are built via NewSchnorrPublicKey, FromPoint (odd-y input and Z != 1 representative) and FromECDSA so that normalisation is part of the check; key import is checked on every length 0..34 and x on / off curve / >= p.",
         "Trusted: /verif/ref BIP-340 (19 vectors). Signatures with a small s or r (valid aliases s+n, r+p) cannot be constructed without a discrete log: a reducing decode is only visible at the p / n boundary values (stated in DESIGN.md).", "DESIGN.md §6 C13"),
 "C14": ("enumeration of (key, aux, message length) triples through the signSchnorr hook and the public Sign under every reader delivery mode and every fault position, byte-for-byte against BIP-340 Sign; all key-derivation routes x representatives x parities",
         "Bounded exhaustive exploration of Schnorr signing and key derivation: 20 keys (both public-y parities) x 19 message lengths (0..1000, around SHA-256 block boundaries) x 5 aux values; signature bytes must equal the reference Sign, consume exactly 32 aux bytes, verify under reference and implementation; the four (key parity x nonce parity) classes are populated; reader faults after every j in 0..32; private/public key derivation routes expose the even-y point, its x, and a signing scalar d in {d', n-d'} consistent with it (field-access hook).",
         "Trusted: /verif/ref BIP-340.", "DESIGN.md §6 C14"),
 "C15": ("grid enumeration of expand_message_xmd (DST x message x output lengths incl. oversize DSTs), uniform-bytes map for every length 32..64 over a field alphabet with the SWU exceptional inputs and (u + k*p) encodings, RO/NU suites with slice reuse, against an RFC 9380 reference in the section 6.6.2 form",
         "Bounded exhaustive exploration of hash-to-curve: 900 (DST,msg,out) length triples byte-equal to the reference expand_message_xmd with inputs unmodified; ~12k uniform strings covering every length 32..64, both sgn0 parities, first/second SWU candidate and the exceptional u = +-sqrt(1/11), each as several u + k*p encodings, compared with iso_map(map_to_curve_simple_swu(u)) and (hook) with the intermediate E' point; isogeny poles flagged; RO and NU over 80 (DST,msg) pairs, each called three times from the same slices (purity).",
         "Trusted: crypto/sha256, /verif/ref/h2c.go (RFC vectors reproduced; isogeny constants proved additive). The reference SWU shares no structure with the straight-line code under test.", "DESIGN.md §6 C15"),
 "C05": ("complete enumeration: all 8160+480 embedded table entries, all 32x256 single-byte scalars through four code paths, all position pairs over a byte alphabet, scalar alphabet; both build configurations (assembly and purego lookups); against a reference table built by affine additions",
         "Complete enumeration of the finite structure behind fixed-base multiplication: every precomputed entry (hook) equals (j+1)*256^i*G resp. (j+1)*16*256^i*G; every window value in every byte position (zero nibbles/bytes included) through ScalarBaseMult (4-bit constant-time path), DoubleScalarMultBasepointVartime(s,0,G) and scalarBaseMultVartime (8-bit path) and private-key derivation; all 496 position pairs x 36 byte pairs; the scalar alphabet. The whole check runs twice, with the SSE2 and with the pure-Go lookups.",
         "Trusted: /verif/ref affine arithmetic (table self-checked against double-and-add). s*G for all s < n follows compositionally (independent byte positions + C03 mixed-addition coverage); stated in evidence.", "DESIGN.md §6 C05"),
 "C04": ("enumeration of a GLV-steered scalar alphabet (lattice corners, rounding-bit and limb-carry boundaries, single-nibble halves, boundary scalars) x points x representatives x 5 code paths x receiver aliasing against double-and-add; split invariants through hooks",
         "Bounded exhaustive exploration of variable-base multiplication: scalars are constructed from the lattice basis so that a split half sits at its extreme magnitude, bit 383 of s*g flips, or the rounded quotient carries across a 64-bit limb, plus every single non-zero nibble position of either half; each is multiplied with identity / generator / endomorphism-image / small-x / x>=n points in two representatives through ScalarMult, MultiScalarMult(1), DoubleScalarMultBasepointVartime(0,s,P), MultiScalarMultVartime(1) and scalarMultVartimeGLV, with the receiver distinct and aliasing P; for every scalar k1+k2*lambda = s, both normalised halves < 2^128, mulGFlooredDiv = exact rounding, all four sign classes populated.",
         "Trusted: /verif/ref double-and-add, lattice facts checked at start (a_i+b_i*lambda=0, det=n, g_i=round(2^384 b/n)). The universal bound |k_i|<2^128 is a theorem; its extremal witnesses are checked.", "DESIGN.md §6 C04"),
 "C16": ("exhaustive enumeration of all (scalar,point) lists of length 0..3 over a 30-48 entry alphabet (longer lists over a sub-alphabet) x both variants x receiver placements x repeated-pointer patterns; DoubleScalarMultBasepointVartime over scalar pairs x points incl. cancelling / doubling combinations; against the reference sum",
         "Bounded exhaustive exploration of multi-scalar multiplication: every list up to length 3 over scalars {0,1,2,n-1,15,16,s,-s} x points {inf,G,-G,2G,P,P with Z != 1} (so partial sums pass through the identity and through doublings), for MultiScalarMult and MultiScalarMultVartime, with the receiver fresh or equal to each list entry and with equal entries sharing one object or not; mismatched lengths must panic; u1*G+u2*P for all pairs of a scalar alphabet x points, plus constructed u1*G = -+u2*P, receiver distinct and aliasing P.",
         "Trusted: /verif/ref. Lists longer than 3 only over a 9-entry sub-alphabet (stated).", "DESIGN.md §6 C16"),
 "C17": ("2-safety by exhaustive enumeration over a secret alphabet on the source-instrumented real code: one control-flow / index trace (ordered basic blocks, function entries, every non-literal index value) per secret-handling operation, in both build configurations",
         "Self-composition by enumeration on the instrumented implementation: every .go file of the library packages is rewritten at check time (go/ast) so that each basic block, function entry and non-literal index expression reports to an injected monitor; 51 secret-handling operations (field/scalar arithmetic, ScalarMult with secret scalar and with secret point, ScalarBaseMult, MultiScalarMult of length 1..3, key import/derivation, ECDH, ECDSA Sign under constant and RFC 6979 entropy with three option sets, Schnorr key derivation and signing) are run for every secret of the alphabet with public co-inputs fixed; all traces of an operation must be identical, per-block counters equal, and no function whose name contains Vartime may be entered. Runs for the assembly and the purego build.",
         "Trusted: the instrumenter (/verif/instr). Not visible: the SSE2 assembly itself (tied to the portable code by C19), instruction-level timing, compiler-introduced branches, stdlib/x-crypto/tuplehash code. Path equality over an alphabet is evidence for all secrets only insofar as the alphabet spans the secret-dependent decisions (GLV sign classes, zero/F nibbles, leading-zero halves, 1, n-1).", "DESIGN.md §6 C17"),
}

PENDING_REASON = "check under construction in this round; not yet claimed (see DESIGN.md §6 for the planned bounded-exhaustive check)"

def main():
    props = [json.loads(l) for l in open('/verif/properties.jsonl')]
    checks, na = [], []
    for p in props:
        pid = p['id']
        if pid in CHECKS and os.path.isdir(f'/verif/props/{pid.lower()}'):
            tech, text, note, ref = CHECKS[pid]
            checks.append({
                "property_id": pid,
                "quick_cmd": f"./check {pid} quick",
                "thorough_cmd": f"./check {pid} thorough",
                "evidence_file": f"/verif/evidence/{pid}.json",
                "replay_cmd_template": f"./check {pid} --replay {{path}}",
                "engine": "E2 mc (explorer) + E1 ref (reference model)",
                "level_claimed": {"category": "model_checking", "text": text, "design_ref": ref},
                "level_note": note,
                "technique": tech,
            })
        else:
            na.append({"property_id": pid, "reason": PENDING_REASON})
    m = {
        "version": 1,
        "setup_cmd": "./setup.sh",
        "hooks": {
            "guard": "verif",
            "enable": "go build -tags verif -overlay <generated overlay.json mapping /verif/hooks/**/zz_verif_*.go (and, for C17/C20, instrumented copies of the library sources) into /repo's packages>; nothing is committed to /repo",
            "baseline_off_cmd": BASELINE,
            "source_commits": [],
            "add_only": True,
        },
        "engines": [
            {"name": "ref", "path": "/verif/ref", "serves_properties": [c["property_id"] for c in checks], "kind_free_text": "reference model (math/big, affine chord-tangent, literal standard transcriptions)"},
            {"name": "mc", "path": "/verif/mc", "serves_properties": [c["property_id"] for c in checks], "kind_free_text": "bounded exhaustive explorer: alphabets, alias partitions, deviations, BFS, scheduler, evidence"},
            {"name": "instr", "path": "/verif/instr", "serves_properties": ["C17", "C20"], "kind_free_text": "go/ast instrumenter injecting trace monitor / scheduling points by overlay"},
        ],
        "checks": checks,
        "notes": "All hooks are injected with `go build -overlay` from /verif/hooks (build tag verif); /repo only carries `fix:` commits. See DESIGN.md.",
        "not_applicable": na,
    }
    json.dump(m, open('/verif/MANIFEST.json', 'w'), indent=1)
    print(f"claimed={len(checks)} pending={len(na)}")

main()
