#!/bin/bash
# tools/mutcheck.sh <patch.diff> <ID> [<ID>...] : applies a patch to /repo, runs the quick checks, reverts.
# Prints for each ID whether a VIOLATION was reported. /repo is always restored.
P=$(readlink -f "$1"); shift
cd /repo || exit 2
if [ -n "$(git status --porcelain)" ]; then echo "/repo not clean" >&2; exit 2; fi
git apply "$P" || { echo "patch does not apply" >&2; exit 2; }
trap 'cd /repo && git checkout -- . && git clean -fdq' EXIT
cd /verif
for id in "$@"; do
  out=$(./check "$id" ${TIER:-quick} 2>&1); rc=$?
  nv=$(echo "$out" | grep -c '^VIOLATION')
  echo "== $id rc=$rc violations=$nv :: $(echo "$out" | tail -1)"
  if [ -n "$VERBOSE" ]; then echo "$out" | tail -${VERBOSE}; fi
done
