#!/bin/bash
# tools/round.sh <tag> <ID>... : confirm the two sub-agent variants of each property (tools/confirm_seed.py) and run
# the quick check of the property against each confirmed one in a scratch worktree (tools/seedmatrix2.py).
tag=$1; shift
for id in "$@"; do
  dirs=""
  for v in A B; do
    [ -f ${SEED_SRC:-/tmp/wtout}/$id/$v/patch.diff ] || { echo "$id $v: no patch"; continue; }
    if SEED_TAG=$tag python3 /verif/tools/confirm_seed.py $id $v > ${SEED_SRC:-/tmp/wtout}/$id/$v/confirm.log 2>&1; then
      dirs="$dirs /verif/seeded/$id-$tag$v"
    else
      echo "$id $v: NOT CONFIRMED"; grep -E 'FAIL|PASSES' ${SEED_SRC:-/tmp/wtout}/$id/$v/confirm.log | head -5
    fi
  done
  [ -n "$dirs" ] && SEED_MATRIX=${SEED_SRC:-/tmp/wtout}/$id/matrix.md python3 /verif/tools/seedmatrix2.py -j 2 $dirs 2>&1 | grep -v WARNING
done
