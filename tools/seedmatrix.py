#!/usr/bin/env python3
"""seedmatrix.py [dir ...]: runs every seeded defect (seeded/<name>/patch.diff) against the quick check of the
property it breaks (plus extra checks given in EXTRA), three times, records the outcome in meta.json
(detected_by / runs) and writes seeded/MATRIX.md. /repo is restored after every patch."""
import json, os, subprocess, sys, glob, re

EXTRA = {  # additional checks that are expected to see the same defect
    "C05-B": ["C20"], "C08-A": ["C12"], "C10-B": ["C18"], "C12-B": ["C18", "C10"], "C13-B": ["C18"], "C18-A": ["C06"], "C18-B": ["C16"],
    "C10-r2A": ["C04"], "C16-r2A": ["C04"], "C07-r2A": ["C04"], "C11-r2A": ["C04"], "C17-r2B": ["C04"], "C07-r2B": ["C10", "C18"], "C05-r2B": ["C10", "C18"],
    "C12-r2B": ["C18"], "C03-r2B": ["C06"], "C13-r2B": ["C18"], "C08-r2B": ["C18"], "C08-r2A": ["C12"], "C18-r2B": ["C11"], "C10-r2B": ["C18", "C12"],
    "C19-r2B": ["C20"], "C19-r2A": ["C17"], "C17-r2A": ["C19"], "C01-r2B": ["C15"], "C04-r2A": ["C10"], "C20-r2A": ["C15"],
    "C03-r3A": ["C01"], "C18-r3A": ["C01", "C03"], "C18-r3B": ["C02"], "C10-r3B": ["C06"], "C03-r3B": ["C20"], "C20-r3A": ["C03"], "C07-r3A": ["C11"], "C14-r3A": ["C20"], "C15-r3A": ["C01"],
    "C05-r4A": ["C16", "C04"], "C05-r4B": ["C16", "C18"], "C07-r4A": ["C12"], "C10-r4A": ["C11", "C18"], "C14-r4B": ["C13", "C18"], "C18-r4A": ["C15"], "C08-r4A": ["C20"], "C05-r3A": ["C20"],
    "C03-r5A": ["C01"], "C06-r5A": ["C01"], "C15-r5B": ["C01"], "C07-r5A": ["C02"], "C08-r5B": ["C20"], "C10-r5B": ["C20"], "C13-r5B": ["C20"], "C14-r5A": ["C20"], "C20-r5A": ["C16"], "C11-r5A": ["C04", "C07"],
    "C09-r6A": ["C18"], "C10-r6A": ["C06"], "C11-r6A": ["C02"], "C11-r6B": ["C07", "C12"], "C20-r6A": ["C15", "C18"], "C14-r6A": ["C20"],
    "C05-r7A": ["C20"], "C10-r7A": ["C19"], "C13-r7A": ["C20"], "C20-r7A": ["C16"], "C05-r7B": ["C20"], "C07-r7B": ["C12"], "C10-r7B": ["C06", "C18"], "C11-r7B": ["C07"], "C12-r7B": ["C07"], "C04-r7B": ["C19"],
    "C04-B": ["C16"], "C19-B": ["C16"], "C06-B": ["C18"], "C16-A": ["C18"], "C20-B": [], "C11-A": ["C06"], "C05-A": ["C07"],
}
RUNS = int(os.environ.get("SEED_RUNS", "2"))

def sh(cmd, cwd=None, timeout=3600):
    p = subprocess.run(cmd, shell=True, cwd=cwd, capture_output=True, text=True, timeout=timeout)
    return p.returncode, p.stdout + p.stderr

def main():
    dirs = [os.path.abspath(d) for d in sys.argv[1:]] or sorted(d for d in glob.glob("/verif/seeded/C*-*") if os.path.isdir(d))
    rows = []
    for d in dirs:
        name = os.path.basename(d)
        patch = os.path.join(d, "patch.diff")
        if not os.path.exists(patch):
            continue
        prop = name.split("-")[0]
        checks = [prop] + EXTRA.get(name, [])
        rc, out = sh("git status --porcelain", "/repo")
        if out.strip():
            print("/repo not clean", file=sys.stderr); sys.exit(2)
        rc, out = sh(f"git apply {patch}", "/repo")
        if rc != 0:
            rows.append((name, prop, "patch does not apply", {})); continue
        res = {}
        try:
            for c in checks:
                hits = 0
                tail = ""
                for i in range(RUNS):
                    rc, out = sh(f"./check {c} quick", "/verif")
                    nv = len(re.findall(r"^VIOLATION property=", out, re.M))
                    if rc == 1 and nv > 0:
                        hits += 1
                    tail = out.strip().splitlines()[-1] if out.strip() else ""
                res[c] = {"runs": RUNS, "detected": hits, "last": tail[-160:]}
        finally:
            sh("git checkout -- . && git clean -fdq", "/repo")
        sh("find /verif/replays -name 'C*.json' -delete")
        mp = os.path.join(d, "meta.json")
        meta = json.load(open(mp)) if os.path.exists(mp) else {"property": prop}
        meta["detected_by"] = [c for c, r in res.items() if r["detected"] == r["runs"]]
        meta["check_runs"] = res
        json.dump(meta, open(mp, "w"), indent=1)
        rows.append((name, prop, "", res))
        print(name, {c: f"{r['detected']}/{r['runs']}" for c, r in res.items()}, flush=True)
    with open(os.environ.get("SEED_MATRIX", "/verif/seeded/MATRIX.md"), "w") as f:
        f.write("# Seeded defects vs checks (quick tier, %d runs each)\n\n| seeded defect | breaks | detected by (runs detected / runs) |\n|---|---|---|\n" % RUNS)
        for name, prop, err, res in rows:
            cell = err or ", ".join(f"{c} {r['detected']}/{r['runs']}" for c, r in res.items())
            f.write(f"| {name} | {prop} | {cell} |\n")

main()
