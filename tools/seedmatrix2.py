#!/usr/bin/env python3
"""seedmatrix2.py [-j K] [-x ID,ID] dir ... : like seedmatrix.py, but never touches /repo: every seeded defect
(seeded/<name>/patch.diff) is applied to a scratch worktree of /repo under /tmp/wt/M<k> and the quick checks are
built from that tree (development aid VERIF_REPO / VERIF_OUT of cmd/vdriver; evidence and replays of these runs go
to /tmp/wtm/M<k>, not to /verif). K worktrees are used in parallel. Records detected_by / check_runs in meta.json
and writes the matrix to $SEED_MATRIX (default seeded/MATRIX.md). -x adds checks to run for every seed."""
import json, os, subprocess, sys, glob, re, threading, queue, shutil

sys.path.insert(0, os.path.dirname(__file__))
try:
    from seedmatrix_extra import EXTRA
except Exception:
    EXTRA = {}
RUNS = int(os.environ.get("SEED_RUNS", "1"))

def sh(cmd, cwd=None, env=None, timeout=7200):
    p = subprocess.run(cmd, shell=True, cwd=cwd, env=env, capture_output=True, text=True, timeout=timeout)
    return p.returncode, p.stdout + p.stderr

def worker(k, q, rows, extra_all, lock):
    wt, out = f"/tmp/wt/M{k}", f"/tmp/wtm/M{k}"
    if not os.path.isdir(wt):
        sh(f"git -C /repo worktree add --detach {wt} HEAD")
    env = dict(os.environ, VERIF_REPO=wt, VERIF_OUT=out)
    while True:
        try:
            d = q.get_nowait()
        except queue.Empty:
            return
        name = os.path.basename(d)
        prop = name.split("-")[0]
        checks = [prop] + [c for c in EXTRA.get(name, []) + extra_all if c != prop]
        sh("git checkout -- . && git clean -fdq", wt)
        rc, o = sh(f"git apply {d}/patch.diff", wt)
        if rc != 0:
            with lock:
                rows.append((name, prop, "patch does not apply", {}))
            continue
        res = {}
        for c in checks:
            hits, tail = 0, ""
            for i in range(RUNS):
                rc, o = sh(f"./check {c} quick", "/verif", env)
                nv = len(re.findall(r"^VIOLATION property=", o, re.M))
                if rc == 1 and nv > 0:
                    hits += 1
                tail = o.strip().splitlines()[-1] if o.strip() else ""
                if "harness nondeterminism" in o:
                    tail = "[FLAKY: a mismatch was seen but its single-case re-run did not reproduce it] " + tail
                    print(os.path.basename(d), c, "FLAKY mismatch (re-run did not reproduce)", flush=True)
            res[c] = {"runs": RUNS, "detected": hits, "last": tail[-160:]}
        sh("git checkout -- . && git clean -fdq", wt)
        shutil.rmtree(out + "/replays", ignore_errors=True)
        mp = os.path.join(d, "meta.json")
        meta = json.load(open(mp)) if os.path.exists(mp) else {"property": prop}
        meta["detected_by"] = [c for c, r in res.items() if r["detected"] == r["runs"]]
        meta["check_runs"] = res
        json.dump(meta, open(mp, "w"), indent=1)
        with lock:
            rows.append((name, prop, "", res))
            print(name, {c: f"{r['detected']}/{r['runs']}" for c, r in res.items()}, flush=True)

def main():
    args = sys.argv[1:]
    K, extra_all = 2, []
    while args and args[0] in ("-j", "-x"):
        if args[0] == "-j":
            K = int(args[1])
        else:
            extra_all = args[1].split(",")
        args = args[2:]
    dirs = [os.path.abspath(d) for d in args]
    q = queue.Queue()
    for d in dirs:
        if os.path.exists(os.path.join(d, "patch.diff")):
            q.put(d)
    rows, lock = [], threading.Lock()
    base = int(os.environ.get("SEED_WT_BASE", "0"))
    ts = [threading.Thread(target=worker, args=(base + k + 1, q, rows, extra_all, lock)) for k in range(K)]
    for t in ts: t.start()
    for t in ts: t.join()
    rows.sort()
    with open(os.environ.get("SEED_MATRIX", "/verif/seeded/MATRIX.md"), "w") as f:
        f.write("# Seeded defects vs checks (quick tier, %d runs each)\n\n| seeded defect | breaks | detected by (runs detected / runs) |\n|---|---|---|\n" % RUNS)
        for name, prop, err, res in rows:
            cell = err or ", ".join(f"{c} {r['detected']}/{r['runs']}" for c, r in res.items())
            f.write(f"| {name} | {prop} | {cell} |\n")

main()
